"""C12 -- OSCORE replay protection: a protected request is accepted at most once.

1. TLC checks spec/ReplayWindow.tla exhaustively (window sizes 1..4, sequence
   numbers 0..7, up to 5/6 arrivals, authentic/forged requests AND responses,
   Echo none/stale/fresh, initialised and uninitialised start, Echo recovery
   configured or not): the clauses over the accepted set and the agreement of
   the index/seen-set design with them.
   TLC checks spec/ReplayWindowBits.tla exhaustively: ReplayWindow's
   is_valid/strike_out arithmetic transcribed line by line (index + bitfield)
   in lock-step with the seen-set model and the statement's monitor over ALL
   arrival sequences (any length) of a bounded number set per window size
   W in {1,2,3,4,8}, including slides by W-1, W, W+1, more, and numbers next
   to 2^40-1.
2. spec -> code: every edge of the implementation-shaped state graph (TLC
   prints each with a shortest path from an initial state), simulated
   behaviours with the full vocabulary (five forgery flavours, forged
   responses, five Echo flavours, two senders) and larger constants, and
   TLC-simulated arrival sequences for the real window size 32 (and 64) are
   replayed (i) on aiocoap.oscore.ReplayWindow directly and (ii) through the
   full unprotect() of real protected messages between in-memory security
   contexts; outcome and _index/_bitfield are compared with the model's
   prediction (difference = DRIFT).
3. code -> spec: all recorded traces, plus random real-scale runs and directed
   adversarial families (forgeries before the genuine message at every
   position; Echo recovery under adversarial orderings), are validated by TLC
   against ReplayWindowTrace.tla, which evaluates the clauses on the recorded
   accept/reject history.  Only a clause found false by TLC on a real trace
   is a VIOLATION."""

import copy
import json
import os
import random
import sys
import time
from multiprocessing import Pool

from harness import tlc, MachineryError, runner, oscore_env

# vocabulary of the exhaustive run and of the edge enumeration: one representative per class of the
# model (the model does not distinguish forgery flavours, non-fresh Echo flavours or senders; the
# driver varies them on the edges, and the simulation draws from the full vocabulary)
VOCAB_BASE = """  Hows = {"flip"}
  EchoKinds = {"none", "stale", "fresh"}
  Clients = {1}"""
VOCAB_FULL = """  Hows = {"flip", "trunc", "key", "ctx", "piv"}
  EchoKinds = {"none", "stale", "old", "near", "fresh"}
  Clients = {1, 2}"""

MC_CFG = (
    """SPECIFICATION Spec
CONSTANTS
  Ws = {1, 2, 3, 4}
  MaxN = %(maxn)d
  MaxLen = %(maxlen)d
"""
    + VOCAB_BASE
    + """
VIEW View
INVARIANT NoBad
INVARIANT Agreement
INVARIANT C12_AcceptAtMostOnce
INVARIANT C12_BelowWindowRejected
INVARIANT C12_AboveAllAccepted
INVARIANT C12_InWindowUnseenAccepted
INVARIANT C12_ForgeryNoEffect
INVARIANT C12_UninitialisedNeedsEcho
INVARIANT C12_ResponseNoEffect
"""
)

EDGE_CFG = (
    """SPECIFICATION EdgeSpec
CONSTANTS
  Ws = {1, 2, 3, 4}
  MaxN = 7
  MaxLen = 6
"""
    + VOCAB_BASE
    + """
VIEW EdgeView
"""
)

SIM_CFG = (
    """SPECIFICATION SimSpec
CONSTANTS
  Ws = {1, 2, 3, 4, 5, 8}
  MaxN = 20
  MaxLen = 16
"""
    + VOCAB_FULL
    + """
INVARIANT NoBad
"""
)

TRACE_CFG = (
    """SPECIFICATION TSpec
CONSTANTS
  Ws = {1}
  MaxN = 7
  MaxLen = 6
"""
    + VOCAB_FULL
    + """
INVARIANT Report
CHECK_DEADLOCK FALSE
"""
)

TOP = 1000000  # the model's stand-in for the largest sender sequence number
REAL_TOP = 2**40 - 1
NEAR = 1 << 19  # model numbers within that distance of TOP are translated to the neighbourhood of 2^40-1

BITS_INVARIANTS = """INVARIANT NoBad
INVARIANT Agreement
INVARIANT BitsAreSeen
INVARIANT BitsDecideAlike
INVARIANT BitsIntAlike
INVARIANT BitsMeanStatement
"""

BITS_CFG = (
    """SPECIFICATION BitsSpec
CONSTANTS
  Ws = {%(ws)s}
  MaxN = 7
  MaxLen = 6
  Hows = {}
  EchoKinds = {"none"}
  Clients = {1}
  Top = %(top)d
  JumpAfter = 0
  NumsOf <- %(nums)s
VIEW BitsView
"""
    + BITS_INVARIANTS
)

BITS_SIM_CFG = (
    """SPECIFICATION BitsSimSpec
CONSTANTS
  Ws = {32, 64}
  MaxN = 7
  MaxLen = %(maxlen)d
  Hows = {}
  EchoKinds = {"none"}
  Clients = {1}
  Top = %(top)d
  JumpAfter = %(jump)d
  NumsOf <- NumsNone
"""
    + BITS_INVARIANTS
)

CLAUSES = [
    "C12_AcceptAtMostOnce",
    "C12_BelowWindowRejected",
    "C12_AboveAllAccepted",
    "C12_InWindowUnseenAccepted",
    "C12_ForgeryNoEffect",
    "C12_UninitialisedNeedsEcho",
    "C12_ResponseNoEffect",
]

FORGERIES = ["flip", "trunc", "key", "ctx", "piv"]
RESP_FORGERIES = ["flip", "trunc", "key"]
NONFRESH = ["stale", "old", "near"]

STALE_ECHO = b"\x5a" * 8
OTHER_SECRET = bytes.fromhex("a1a2a3a4a5a6a7a8a9aaabacadaeaf10")
OTHER_IDCTX = b"\xc7\x12"

_G = {}


def _env():
    if "oscore" not in _G:
        oscore = oscore_env.setup()
        import aiocoap

        _G["oscore"] = oscore
        _G["aiocoap"] = aiocoap
        cls = oscore_env.make_context_class(oscore)

        class Peer(cls):
            """The peer (environment, not the code under judgement) may use every sender sequence
            number up to 2^40-1, as any other implementation could."""

            def new_sequence_number(self):
                r = self.sender_sequence_number
                self.sender_sequence_number += 1
                return r

        _G["cls"] = cls
        _G["peer"] = Peer
    return _G["oscore"], _G["aiocoap"]


# -- numbers: the model's Top stands for 2^40-1 ---------------------------------------
def real_of(m, top):
    return m if top is None or m < top - NEAR else REAL_TOP - (top - m)


def model_of(r, top):
    if top is not None and r > (1 << 39):
        r = r - REAL_TOP + top
    return r if 0 <= r <= (1 << 30) else (1 << 30)  # out of TLC's range: shows as a difference, never as a crash


def projection(w, top=None):
    """(idx, seen) of a ReplayWindow in model numbers; idx -1 when the attributes the
    property anchors name are not there (degrade to black-box), -2 when uninitialised."""
    try:
        idx = w._index
        bits = w._bitfield
    except AttributeError:
        return -1, []
    if idx is None:
        return -2, []
    if not isinstance(idx, int) or not isinstance(bits, int) or bits < 0 or idx < 0:
        return -1, []
    seen = []
    i = 0
    while bits and i < 4096:
        if bits & 1:
            seen.append(model_of(idx + i, top))
        bits >>= 1
        i += 1
    return model_of(idx, top), sorted(set(seen))


def norm_event(ev):
    """Events of older replay files carry neither sender nor forgery flavour."""
    e = dict(ev)
    e.setdefault("k", "req")
    e.setdefault("c", 1)
    e["auth"] = bool(e.get("auth", True))
    e.setdefault("how", "genuine" if e["auth"] else "flip")
    e.setdefault("echo", "none")
    e.setdefault("v", e.get("flip", 0))
    return e


def start_record(s):
    return {"k": "start", "c": 0, "W": s["W"], "init": bool(s["init"]), "hasEcho": bool(s.get("hasEcho", True)), "n": -1, "auth": False, "how": "start", "echo": "none", "res": "start", "idx": -1, "seen": [], "why": ""}


def record(s, e, res, idx, seen, why):
    return dict(start_record(s), k=e["k"], c=e["c"], n=e["n"], auth=bool(e["auth"]), how=e["how"], echo=e["echo"], res=res, idx=idx, seen=seen, why=why)


def run_direct(s):
    """aiocoap.oscore.ReplayWindow on its own: is_valid / strike_out on an
    INITIALISED window (request events only).  What happens around it -- the
    uninitialised state, Echo recovery, responses, the order of checks in
    unprotect() -- is deliberately not re-implemented here: those behaviours
    are only ever driven through the real unprotect()."""
    oscore, _ = _env()
    calls = [0]
    top = s.get("top")

    def cb():
        calls[0] += 1

    assert s["init"], "direct binding is for initialised windows only"
    w = oscore.ReplayWindow(s["W"], cb)
    w.initialize_empty()
    trace = [start_record(s)]
    for ev in s["events"]:
        ev = norm_event(ev)
        if ev["k"] != "req":
            continue
        n = real_of(ev["n"], top)
        why = ""
        try:
            ok = w.is_valid(n)  # a forged message gets no further than this query
            if ok and ev["auth"]:
                w.strike_out(n)
                res = "acc"
            else:
                res = "rej"
        except Exception as e:  # e.g. strike_out refusing: counts as not accepted
            res = "rej"
            why = type(e).__name__
        idx, seen = projection(w, top)
        trace.append(record(s, ev, res, idx, seen, why))
    return {"trace": trace, "meta": {"callbacks": calls[0], "unexpected": []}}


def _minimal(n):
    return n.to_bytes(max(1, (n.bit_length() + 7) // 8), "big")


class Session:
    """One life time of the judged (recipient) context and its peer: real protected messages
    from the peer's senders, genuine or tampered, unprotected by the judged context."""

    def __init__(self, s):
        oscore, aiocoap = _env()
        self.oscore, self.aiocoap, self.s = oscore, aiocoap, s
        self.top = s.get("top")
        W = s["W"]
        rng = random.Random(s.get("seed", 0))
        has_echo = s.get("hasEcho", True)
        self.echo_value = bytes(rng.getrandbits(8) for _ in range(8)) if has_echo else None
        self.old_value = bytes(rng.getrandbits(8) for _ in range(8))  # what the earlier life time issued
        if self.old_value == self.echo_value:
            self.old_value = bytes(b ^ 0xFF for b in self.old_value)
        Peer, cls = _G["peer"], _G["cls"]
        self.peers = {c: oscore_env.new_context(oscore, b"\x01", b"", window=W, cls=Peer) for c in (1, 2)}
        self.judged = oscore_env.new_context(oscore, b"", b"\x01", window=W, initialized=bool(s["init"]), echo_recovery=self.echo_value, cls=cls)
        # another security context with the same sender ID: other master secret / other ID context
        self.other_key = oscore_env.new_context(oscore, b"\x01", b"", secret=OTHER_SECRET, window=W, cls=Peer)
        self.other_ctx = oscore_env.new_context(oscore, b"\x01", b"", id_context=OTHER_IDCTX, window=W, cls=Peer)
        self.learned = {1: None, 2: None}
        self.old_learned = None
        self.cache = {}
        self.unexpected = []
        self.echo_exchanges = 0
        self.old_exchanges = 0

    # -- the peer's side ---------------------------------------------------------------
    def plain_request(self, n, eb):
        a = self.aiocoap
        msg = a.Message(code=a.POST, uri_path=("r", str(n)), payload=b"p%d" % n)
        if eb is not None:
            msg.opt.echo = eb
        return msg

    def protect_with(self, ctx, n, eb):
        a = self.aiocoap
        msg = self.plain_request(n, eb)
        ctx.sender_sequence_number = n
        outer, req_id = ctx.protect(msg)
        outer.mtype, outer.mid, outer.token = a.NON, (n + 1) & 0xFFFF, b""
        return outer.encode(), msg.payload, req_id

    def genuine(self, c, n, eb):
        """The one genuine message of sender c with (real) number n and that Echo value: made once,
        so that replays are the same bytes and tampered copies are copies of what arrives genuine."""
        key = (c, n, eb)
        if key not in self.cache:
            self.cache[key] = self.protect_with(self.peers[c], n, eb)
        return self.cache[key]

    def learn_old(self):
        """The value an EARLIER life time of the judged context issued, learned then through the real
        4.01 exchange; that life time's state is gone (the judged context is the restarted process)."""
        if self.old_learned is None:
            oscore, a = self.oscore, self.aiocoap
            earlier = oscore_env.new_context(oscore, b"", b"\x01", window=self.s["W"], initialized=False, echo_recovery=self.old_value, cls=_G["cls"])
            wire, _pl, req_id = self.protect_with(self.peers[1], 7, None)
            try:
                earlier.unprotect(a.Message.decode(wire))
                self.unexpected.append("earlier life time accepted a request on an uninitialised window")
                self.old_learned = self.old_value
            except oscore.ReplayErrorWithEcho as e:
                self.old_learned = self.echo_from_401(e, 1, req_id, 0x6fff) or self.old_value
                self.old_exchanges += 1
            except Exception as e:
                self.unexpected.append("earlier life time: %r instead of a 4.01 with Echo" % (e,))
                self.old_learned = self.old_value
        return self.old_learned

    def echo_from_401(self, err, c, req_id, mid):
        a = self.aiocoap
        try:
            resp = err.to_message()
            resp.mtype, resp.mid, resp.token = a.NON, mid, b""
            rplain, _ = self.peers[c].unprotect(a.Message.decode(resp.encode()), req_id)
            if rplain.code != a.UNAUTHORIZED or rplain.opt.echo is None:
                self.unexpected.append("4.01 Echo exchange yielded %r %r" % (rplain.code, rplain.opt.echo))
            return rplain.opt.echo
        except Exception as e2:
            self.unexpected.append("Echo response not usable: %r" % (e2,))
            return None

    def echo_bytes(self, c, kind, v):
        if kind == "none":
            return None
        if kind == "stale":
            return STALE_ECHO
        if kind == "old":
            return self.learn_old()
        fresh = self.learned[c] or self.judged.echo_recovery or STALE_ECHO
        if kind == "fresh":
            return fresh
        # near: the issued value cut short or extended
        return [fresh[:-1], fresh + b"\x00", fresh[: len(fresh) // 2], b"\x00" + fresh, fresh[1:]][v % 5]

    def reencode(self, m):
        from aiocoap.message import Direction

        m.direction = Direction.OUTGOING
        return m.encode()

    def tamper(self, wire, how, v):
        a = self.aiocoap
        m = a.Message.decode(wire)
        if how == "flip":
            npay = max(1, len(m.payload))
            b = bytearray(wire)
            b[len(b) - 1 - (v % npay)] ^= 1 << (v % 8)
            return bytes(b)
        if how == "trunc":
            full = len(m.payload)
            k = [0, 1, 7, 8, full - 1, full - 8, full // 2][v % 7]
            m.payload = m.payload[: max(0, min(full - 1, k))]
            return self.reencode(m)
        raise MachineryError("unknown tampering %r" % how)

    def forged_request(self, e, n, eb):
        how, v = e["how"], e["v"]
        if how in ("flip", "trunc"):
            return self.tamper(self.genuine(e["c"], n, eb)[0], how, v)
        if how == "key":
            return self.protect_with(self.other_key, n, eb)[0]
        if how == "ctx":
            return self.protect_with(self.other_ctx, n, eb)[0]
        if how == "piv":
            # a genuine message of a neighbouring number, its Partial IV rewritten to n
            src = n + 1 if (n < REAL_TOP and (v % 2 == 0 or n == 0)) else n - 1
            a = self.aiocoap
            m = a.Message.decode(self.genuine(e["c"], src, eb)[0])
            opt = m.opt.oscore
            k = opt[0] & 7
            piv = _minimal(n)
            m.opt.oscore = bytes([(opt[0] & 0xF8) | len(piv)]) + piv + opt[1 + k :]
            return self.reencode(m)
        raise MachineryError("unknown forgery flavour %r" % how)

    # -- events ------------------------------------------------------------------------
    def request(self, i, e):
        oscore, a = self.oscore, self.aiocoap
        n = real_of(e["n"], self.top)
        eb = self.echo_bytes(e["c"], e["echo"], e["v"])
        if e["auth"]:
            wire, payload, req_id = self.genuine(e["c"], n, eb)
        else:
            wire, payload, req_id = self.forged_request(e, n, eb), None, None
        why = ""
        try:
            incoming = a.Message.decode(wire)
        except Exception as ex:
            raise MachineryError("driver produced an undecodable message (%s): %r" % (e, ex))
        try:
            plain, _rid = self.judged.unprotect(incoming)
            res = "acc"
            if payload is not None and plain.payload != payload:
                self.unexpected.append("event %d: accepted with different payload" % i)
        except oscore.ReplayErrorWithEcho as ex:
            res, why = "rej", "ReplayErrorWithEcho"
            if e["auth"]:
                # the real 4.01 exchange: this sender learns the Echo value from the protected response
                got = self.echo_from_401(ex, e["c"], req_id, 0x7000 + (i & 0xFFF))
                if got is not None:
                    self.learned[e["c"]] = got
                    self.echo_exchanges += 1
                    if got != self.judged.echo_recovery:
                        self.unexpected.append("event %d: 4.01 carried %r, not the context's Echo value" % (i, got))
            else:
                self.unexpected.append("event %d: a message failing authentication was answered with an Echo challenge" % i)
        except oscore.ProtectionInvalid as ex:
            res, why = "rej", type(ex).__name__
        except Exception as ex:
            res, why = "rej", type(ex).__name__
            if e["auth"] or e["how"] == "flip":
                self.unexpected.append("event %d (n=%d %s): unprotect raised %r" % (i, e["n"], e["how"], ex))
        return res, why

    def response(self, i, e):
        """Role reversal: the judged context sent a request; the peer answers with a response that
        carries its own Partial IV n (a notification, or the nonce could not be reused)."""
        oscore, a = self.oscore, self.aiocoap
        n = real_of(e["n"], self.top)
        client = self.peers[1]
        try:
            q, rid_s = self.judged.protect(a.Message(code=a.GET, uri_path=("obs", str(i)), observe=0))
            q.mtype, q.mid, q.token = a.NON, 0x4000 + (i & 0xFFF), b""
            fresh_client = copy.copy(client)
            fresh_client.recipient_replay_window = oscore.ReplayWindow(self.s["W"], lambda: None)
            fresh_client.recipient_replay_window.initialize_empty()
            _p, rid_c = fresh_client.unprotect(a.Message.decode(q.encode()))
            rid_c.get_reusable_kid_and_piv()  # not the first response: own Partial IV
            signer = self.other_key if e["how"] == "key" else client
            signer.sender_sequence_number = n
            note = a.Message(code=a.CONTENT, payload=b"n%d" % n, observe=(i + 1) & 0xFFFF)
            ro, _ = signer.protect(note, rid_c)
            ro.mtype, ro.mid, ro.token = a.NON, 0x5000 + (i & 0xFFF), b""
            wire = ro.encode()
            if e["how"] in ("flip", "trunc"):
                wire = self.tamper(wire, e["how"], e["v"])
            elif e["how"] not in ("genuine", "key"):
                raise MachineryError("no such response forgery: %r" % e["how"])
            incoming = a.Message.decode(wire)
        except MachineryError:
            raise
        except Exception as ex:
            raise MachineryError("could not produce a response with its own Partial IV: %r" % (ex,))
        why = ""
        try:
            plain, _rid = self.judged.unprotect(incoming, rid_s)
            res = "acc"
            if e["auth"] and plain.payload != note.payload:
                self.unexpected.append("event %d: response unprotected to a different payload" % i)
        except oscore.ProtectionInvalid as ex:
            res, why = "rej", type(ex).__name__
        except Exception as ex:
            res, why = "rej", type(ex).__name__
            if e["auth"] or e["how"] == "flip":
                self.unexpected.append("event %d (response, n=%d %s): unprotect raised %r" % (i, e["n"], e["how"], ex))
        return res, why


def run_unprotect(s):
    """Real protected messages from the peer's contexts, unprotected by the judged context sharing the keys."""
    ses = Session(s)
    trace = [start_record(s)]
    for i, ev in enumerate(s["events"]):
        e = norm_event(ev)
        res, why = ses.response(i, e) if e["k"] == "resp" else ses.request(i, e)
        idx, seen = projection(ses.judged.recipient_replay_window, ses.top)
        trace.append(record(s, e, res, idx, seen, why))
    return {"trace": trace, "meta": {"unexpected": ses.unexpected, "echo_exchanges": ses.echo_exchanges, "old_exchanges": ses.old_exchanges}}


def run_schedule(s):
    return run_direct(s) if s["binding"] == "direct" else run_unprotect(s)


def _run(s):
    try:
        return run_schedule(s)
    except Exception:
        import traceback

        return {"error": traceback.format_exc()}


def run_all(scheds):
    if not scheds:
        return []
    _env()  # import + validate once, before forking
    if sum(len(s["events"]) for s in scheds) < 40000:
        return [_run(s) for s in scheds]  # ~0.3 ms per event: cheaper than starting a pool
    with Pool(min(8, os.cpu_count() or 4)) as p:
        return p.map(_run, scheds, chunksize=max(1, len(scheds) // 64))


# -- spec -> code ---------------------------------------------------------------
def ev_of(e):
    return {"k": e["k"], "c": e["c"], "n": e["n"], "auth": bool(e["auth"]), "how": e["how"], "echo": e["echo"], "v": 0}


def exp_of(e):
    return {"res": e["res"], "idx": e["idx"], "seen": sorted(e["seen"])}


def schedules_from_edges(vals):
    out = []
    for v in vals:
        _, w, init, has_echo, hist, e = v
        evs = [ev_of(x) for x in hist] + [ev_of(e)]
        exp = [exp_of(x) for x in hist] + [exp_of(e)]
        out.append(({"W": w, "init": bool(init), "hasEcho": bool(has_echo), "events": evs, "origin": "edge"}, exp))
    return out


def schedules_from_behaviours(behs, origin="sim", top=None):
    out = []
    for beh in behs:
        if not beh:
            continue
        o = beh[0][1]["obs"]
        evs, exp = [], []
        for _label, st in beh[1:]:
            a = st["act"]
            evs.append(ev_of(a))
            exp.append(exp_of(a))
        if evs:
            s = {"W": o["W"], "init": bool(o["init"]), "hasEcho": bool(o["hasEcho"]), "events": evs, "origin": origin}
            if top is not None:
                s["top"] = top
            out.append((s, exp))
    return out


def decorate(s, rng):
    """The edges are enumerated with one representative per class of the model (forgery = bit flip,
    non-fresh Echo = "stale", one sender); the classes' other members are drawn here.  An edge that
    ends in a forged request is closed with the genuine message of that number and its replay:
    the forgery must not have blocked it, and it must be accepted exactly once."""
    evs = []
    for e in s["events"]:
        e = dict(e, v=rng.randint(0, 255))
        if not e["auth"] and rng.random() < 0.75:
            e["how"] = rng.choice(RESP_FORGERIES if e["k"] == "resp" else FORGERIES)
        if e["k"] == "req":
            if e["echo"] == "stale":
                e["echo"] = rng.choice(NONFRESH)
            e["c"] = rng.choice([1, 2])
        evs.append(e)
    last = evs[-1]
    if last["k"] == "req" and not last["auth"]:
        g = dict(last, auth=True, how="genuine")
        evs += [g, dict(g)]
    return dict(s, events=evs)


def compare(exp, trace):
    """First difference between the model's prediction and the recorded trace (the trace may be
    longer than the prediction: closing events are judged by TLC on the trace alone)."""
    if len(exp) > len(trace) - 1:
        return None  # (direct binding drops non-request events; compared by TLC on the recorded trace)
    for i, (x, t) in enumerate(zip(exp, trace[1:])):
        if x["res"] != t["res"]:
            return "event %d (n=%d %s echo=%s): model %s, implementation %s (%s)" % (i, t["n"], t["how"], t["echo"], x["res"], t["res"], t["why"])
        if t["idx"] != -1 and (x["idx"] != t["idx"] or x["seen"] != sorted(t["seen"])):
            return "event %d (n=%d): model window index=%s seen=%s, implementation index=%s seen=%s" % (i, t["n"], x["idx"], x["seen"], t["idx"], sorted(t["seen"]))
    return None


# -- random real-scale schedules ---------------------------------------------------
def _forged(rng, k, c, n, echo):
    return {"k": k, "c": c, "n": n, "auth": False, "how": rng.choice(RESP_FORGERIES if k == "resp" else FORGERIES), "echo": echo, "v": rng.randint(0, 255)}


def _genuine(rng, c, n, echo):
    return {"k": "req", "c": c, "n": n, "auth": True, "how": "genuine", "echo": echo, "v": rng.randint(0, 255)}


def random_schedule(rng, binding):
    W = rng.choice([32, 32, 32, 32, 64, 7, 1, 2, 100, 33])
    init = rng.random() < 0.7 if binding == "unprotect" else True
    has_echo = rng.random() < 0.75  # independent of the start state
    length = rng.randint(20, 70)
    front = rng.choice([0, 0, 1, rng.randint(0, 60)])
    sent = []
    evs = []
    pending_genuine = []
    used_by_resp = set()
    have_init = init
    for _ in range(length):
        if not have_init and rng.random() < 0.6:
            echo = rng.choice(["none", "stale", "none", "fresh", "old", "near"])
        elif not have_init:
            echo = "fresh"
        else:
            echo = rng.choice(["none"] * 8 + ["stale", "fresh", "old", "near"])
        c = rng.choice([1, 1, 2])
        kind = rng.choice(["new", "new", "new", "skip", "jump", "replay", "old", "below", "edge", "genuine", "resp"])
        if kind == "resp" and binding == "unprotect":
            # a (late) response of the peer with its own Partial IV: below, inside or above the window.
            # The peer numbers requests and responses from one counter: never a number a request uses.
            m = max(0, front + rng.choice([-W - 3, -W, -W // 2 - 1, -2, -1, 1, 2, W + 5]))
            if m not in sent and m not in pending_genuine and all(x["n"] != m for x in evs):
                if rng.random() < 0.4:
                    evs.append(_forged(rng, "resp", 1, m, "none"))  # tampered on its way: no effect whatsoever
                    if rng.random() < 0.5:
                        continue
                evs.append({"k": "resp", "c": 1, "n": m, "auth": True, "how": "genuine", "echo": "none", "v": 0})
                used_by_resp.add(m)
                if not have_init and has_echo:
                    have_init = True
                    front = max(front, m)
            continue
        if kind == "genuine" and pending_genuine:
            n = pending_genuine.pop(rng.randrange(len(pending_genuine)))
        elif kind in ("new", "genuine"):
            front += 1
            n = front
        elif kind == "skip":
            front += rng.randint(2, max(2, W // 2 + 1))
            n = front
        elif kind == "jump":
            front += W + rng.randint(0, 40)
            n = front
        elif kind == "replay" and sent:
            n = rng.choice(sent)
        elif kind == "old":
            n = max(0, front - rng.randint(1, max(1, W - 1)))
        elif kind == "below":
            n = max(0, front - W - rng.randint(0, 5))
        else:  # exactly at the window edges
            n = max(0, front - W + rng.choice([-1, 0, 1]))
        if n in used_by_resp:
            continue
        if rng.random() >= 0.25:
            e = _genuine(rng, c, n, echo)
            sent.append(n)
            if echo == "fresh" and has_echo:
                have_init = True
        else:
            e = _forged(rng, "req", c, n, echo)
            pending_genuine.append(n)
        evs.append(e)
    return {
        "W": W,
        "init": init,
        "binding": binding,
        "events": evs,
        "origin": "random",
        "seed": rng.randint(0, 2**31),
        "hasEcho": has_echo,
    }


def forgery_schedule(rng):
    """Directed family 1: a stream of genuine requests (new, skipped, out of order, jumps beyond the
    window), and at EVERY position forged traffic first: a tampered copy of the very message that is
    about to arrive, plus forgeries of every flavour carrying numbers inside (seen and unseen),
    below and above the window, plus forged responses.  Then the genuine message, sometimes its
    replay; at the end every number once more."""
    W = rng.choice([32, 32, 32, 8, 4, 64, 2])
    top = rng.random() < 0.25  # the stream ends next to 2^40-1
    front = rng.randint(0, 40)
    evs, order = [], []
    held = []
    for step in range(rng.randint(8, 16)):
        move = rng.choice(["new", "new", "skip", "hold", "release", "jump"])
        if move == "release" and held:
            n = held.pop(rng.randrange(len(held)))
        elif move == "hold":
            front += 2
            held.append(front - 1)
            n = front
        elif move == "skip":
            front += rng.randint(2, W // 2 + 2)
            n = front
        elif move == "jump":
            front += W + rng.choice([-1, 0, 1, 2, 17])
            n = front
        else:
            front += 1
            n = front
        c = rng.choice([1, 2])
        evs.append(dict(_forged(rng, "req", c, n, "none"), how=rng.choice(["flip", "flip", "trunc"])))  # the copy arrives first
        for _ in range(rng.randint(0, 2)):
            m = max(0, front + rng.choice([-W - 2, -W, -W + 1, -3, -1, 0, 1, 2, W, W + 1, 3 * W]))
            if rng.random() < 0.25:
                evs.append(_forged(rng, "resp", 1, m, "none"))
            else:
                evs.append(_forged(rng, "req", rng.choice([1, 2]), m, rng.choice(["none", "none", "fresh", "stale"])))
        evs.append(_genuine(rng, c, n, "none"))
        order.append((c, n))
        if rng.random() < 0.3:
            evs.append(_genuine(rng, c, n, "none"))
    for c, n in order:
        evs.append(_genuine(rng, c, n, "none"))
    s = {"W": W, "init": True, "hasEcho": rng.random() < 0.5, "binding": "unprotect", "events": evs, "origin": "forgery-family", "seed": rng.randint(0, 2**31)}
    if top:
        shift = TOP - front
        s["top"] = TOP
        s["events"] = [dict(e, n=e["n"] + shift) if e["n"] + shift <= TOP else dict(e, n=TOP) for e in evs]
        # (numbers above the stream's end are clipped to Top: there is nothing above 2^40-1)
    return s


def recovery_schedule(rng):
    """Directed family 2: the window is uninitialised (state lost).  Two senders' requests, forged
    traffic and responses before recovery; Echo values that are stale, from an earlier life time or
    nearly right; the recovery request -- often with a number LOWER than one already rejected, often
    preceded by its own tampered copy --; then its replay, the other sender's recovery attempt below
    and above it, the earlier rejected messages again (same bytes), everything twice."""
    W = rng.choice([32, 32, 8, 4, 2, 1, 64])
    has_echo = rng.random() < 0.85
    base = rng.randint(W + 2, W + 60)
    evs = []
    rejected = []
    for _ in range(rng.randint(2, 7)):  # before recovery
        c = rng.choice([1, 2])
        n = base + rng.randint(-W - 1, W + 3)
        r = rng.random()
        if r < 0.55:
            e = _genuine(rng, c, n, rng.choice(["none", "none", "stale", "old", "near"]))
            rejected.append(e)
        elif r < 0.8:
            e = _forged(rng, "req", c, n, rng.choice(["none", "fresh", "near"]))
        else:
            e = _forged(rng, "resp", 1, n, "none")
        evs.append(e)
    # the recovery request
    c = rng.choice([1, 2])
    if rejected and rng.random() < 0.6:
        r = max(0, min(e["n"] for e in rejected) - rng.randint(1, 3))  # lower than one already rejected
    else:
        r = base + rng.randint(-2, 2)
    if rng.random() < 0.5:
        evs.append(dict(_forged(rng, "req", c, r, "fresh"), how=rng.choice(["flip", "trunc", "piv"])))
    rec = _genuine(rng, c, r, "fresh")
    evs.append(rec)
    tail = [dict(rec)]  # the replayed recovery request
    oc = 3 - c
    tail.append(_genuine(rng, oc, max(0, r - rng.randint(1, W + 1)), "fresh"))  # the other sender: below ...
    tail.append(_genuine(rng, oc, r + rng.randint(1, W + 2), rng.choice(["fresh", "none"])))  # ... and above
    tail += [dict(e) for e in rejected]  # the earlier messages again, same bytes
    tail.append(_genuine(rng, c, r, rng.choice(["none", "old", "stale"])))  # the recovery number without the Echo
    tail.append(_forged(rng, "req", c, r + 1, "fresh"))
    tail.append(_genuine(rng, rng.choice([1, 2]), r + 1, "none"))
    if rng.random() < 0.5:
        tail.append({"k": "resp", "c": 1, "n": r + W + 7, "auth": True, "how": "genuine", "echo": "none", "v": 0})
    rng.shuffle(tail)
    evs += tail
    evs += [dict(e) for e in tail if e["k"] == "req" and e["auth"]]  # and everything once more
    return {"W": W, "init": False, "hasEcho": has_echo, "binding": "unprotect", "events": evs, "origin": "recovery-family", "seed": rng.randint(0, 2**31)}


def sig_of(clause, s, upto, trace=None):
    """clause + configuration + the kind of event at which the clause is false
    (the history that leads there is in the replay file)."""
    start = ("init" if s["init"] else "uninit") + ("" if s.get("hasEcho", True) else "-noecho")
    if trace is not None and 0 < upto < len(trace):
        e = trace[upto]
        what = "%s%s%s->%s" % ("response" if e["k"] == "resp" else "request", "" if e["auth"] else "-forged", "" if e["echo"] == "none" else "-%secho" % e["echo"], e["res"])
    else:
        what = "?"
    return "%s|%s|%s|%s" % (clause, s["binding"], start, what)


SITUATIONS = (
    "forgery genuine_after_forgery replay_of_accepted below_window above_all jump_beyond_window in_window_unseen "
    "uninit_none uninit_stale uninit_old uninit_near uninit_fresh uninit_without_echo_recovery "
    "response_on_initialised_window late_response_below_accepted_requests response_initialises_window "
    # forged and tampered traffic
    "forged_request_flip forged_request_trunc forged_request_key forged_request_ctx forged_request_piv "
    "forged_response_flip forged_response_trunc forged_response_key forged_response_on_uninitialised_window "
    "forged_number_inside_window forged_number_below_window forged_number_above_window "
    "tampered_copy_before_genuine genuine_accepted_after_its_forgery replay_after_forgery_and_genuine "
    "forged_copy_of_recovery_request "
    # Echo recovery under adversarial orderings
    "recovery_accepted recovery_request_replayed recovery_with_number_below_rejected_one rejected_before_recovery_arrives_again "
    "two_senders_before_recovery other_sender_below_recovered_number request_before_recovery "
    # window arithmetic at real sizes
    "slide_by_W_minus_1 slide_by_W slide_by_W_plus_1 slide_by_more slide_within "
    "near_2_40_accepted near_2_40_rejected number_2_40_minus_1_accepted"
).split()


def stats_of(trace, counters, top=None):
    """Which situations of the statement the recorded traces exercised (statistics only)."""
    W = trace[0]["W"]
    init = trace[0]["init"]
    has_echo = trace[0]["hasEcho"]
    acc, forged, tampered = set(), set(), set()
    closed = set()
    floor = 0
    rejected_uninit = []  # (c, n, echo) of authentic requests rejected while uninitialised
    senders_uninit = set()
    recovered_by = None  # (c, n) of the request that initialised the window
    prev_idx = 0 if init else -2
    for e in trace[1:]:
        n = e["n"]
        high = top is not None and n >= top - NEAR
        if e["k"] == "resp":
            if not e["auth"]:
                counters["forged_response_" + e["how"]] += 1
                if not init:
                    counters["forged_response_on_uninitialised_window"] += 1
            elif init:
                counters["response_on_initialised_window"] += 1
                if acc and n < max(acc):
                    counters["late_response_below_accepted_requests"] += 1
            elif has_echo:
                counters["response_initialises_window"] += 1
                init, floor = True, n
            else:
                counters["uninit_without_echo_recovery"] += 1
            prev_idx = e["idx"]
            continue
        if not e["auth"]:
            counters["forgery"] += 1
            counters["forged_request_" + e["how"]] += 1
            forged.add(n)
            if e["how"] in ("flip", "trunc"):
                tampered.add((e["c"], n, e["echo"]))
            if init:
                if n < floor:
                    counters["forged_number_below_window"] += 1
                elif acc and n > max(acc):
                    counters["forged_number_above_window"] += 1
                else:
                    counters["forged_number_inside_window"] += 1
            elif e["echo"] == "fresh" and e["how"] in ("flip", "trunc", "piv"):
                counters["forged_copy_of_recovery_request"] += 1
            prev_idx = e["idx"]
            continue
        if (e["c"], n, e["echo"]) in tampered:
            counters["tampered_copy_before_genuine"] += 1
        if not init:
            counters["uninit_" + e["echo"]] += 1
            counters["request_before_recovery"] += 1
            senders_uninit.add(e["c"])
            if len(senders_uninit) == 2:
                counters["two_senders_before_recovery"] += 1
            if not has_echo:
                counters["uninit_without_echo_recovery"] += 1
            if e["res"] == "acc":
                counters["recovery_accepted"] += 1
                recovered_by = (e["c"], n, e["echo"])
                if any(m > n for _c, m, _e in rejected_uninit):
                    counters["recovery_with_number_below_rejected_one"] += 1
            else:
                rejected_uninit.append((e["c"], n, e["echo"]))
        else:
            if recovered_by == (e["c"], n, e["echo"]):
                counters["recovery_request_replayed"] += 1
            if recovered_by and (e["c"], n, e["echo"]) in rejected_uninit:
                counters["rejected_before_recovery_arrives_again"] += 1
            if recovered_by and e["c"] != recovered_by[0] and e["echo"] == "fresh" and n < recovered_by[1]:
                counters["other_sender_below_recovered_number"] += 1
            if n in acc:
                counters["replay_of_accepted"] += 1
                if n in closed:
                    counters["replay_after_forgery_and_genuine"] += 1
            elif n < floor:
                counters["below_window"] += 1
            elif not acc or n > max(acc):
                counters["above_all"] += 1
                if acc and n - max(acc) > W:
                    counters["jump_beyond_window"] += 1
            else:
                counters["in_window_unseen"] += 1
            if n in forged:
                counters["genuine_after_forgery"] += 1
                if e["res"] == "acc":
                    counters["genuine_accepted_after_its_forgery"] += 1
                    closed.add(n)
        if high:
            counters["near_2_40_accepted" if e["res"] == "acc" else "near_2_40_rejected"] += 1
            if n == top and e["res"] == "acc":
                counters["number_2_40_minus_1_accepted"] += 1
        if e["res"] == "acc":
            if init and W >= 32 and prev_idx >= 0 and e["idx"] >= 0:
                slide = e["idx"] - prev_idx
                if slide > 0:
                    counters["slide_by_W_minus_1" if slide == W - 1 else "slide_by_W" if slide == W else "slide_by_W_plus_1" if slide == W + 1 else "slide_by_more" if slide > W + 1 else "slide_within"] += 1
            floor = n if not init else max(floor, n - W + 1)
            init = True
            acc.add(n)
            forged.discard(n)
        prev_idx = e["idx"]


def _validate_batch(args):
    traces, want_counts = args
    with tlc.Workdir() as wd:
        verdicts, r = oscore_env.validate_traces(wd, "ReplayWindowTrace", TRACE_CFG, traces, timeout=1500)
        counts = {}
        if want_counts:
            for v in tlc.printed_values(r, "COUNT"):
                counts[v[1] - 1] = v[2]
    return verdicts, counts


def validate_and_report(rep, wd, scheds, results, label, clause_counts=None, parallel=1):
    """TLC judges every recorded trace (identical traces once; large sets in several TLC processes side by side)."""
    keys, uniq, index = [], [], {}
    for r in results:
        t = [{k: v for k, v in e.items() if k != "why"} for e in r["trace"]]
        key = json.dumps(t, sort_keys=True)
        if key not in index:
            index[key] = len(uniq)
            uniq.append(t)
        keys.append(index[key])
    nb = max(1, min(parallel, len(uniq) // 500))
    batches = [uniq[i::nb] for i in range(nb)]
    if nb == 1:
        outs = [_validate_batch((batches[0], clause_counts is not None))]
    else:
        from concurrent.futures import ThreadPoolExecutor

        with ThreadPoolExecutor(nb) as ex:
            outs = list(ex.map(_validate_batch, [(b, clause_counts is not None) for b in batches]))
    uv = [None] * len(uniq)
    ucount = [None] * len(uniq)
    for bi, (verdicts, counts) in enumerate(outs):
        for j, v in enumerate(verdicts):
            uv[bi + j * nb] = v
            ucount[bi + j * nb] = counts.get(j)
    if clause_counts is not None:
        for k in keys:  # every execution counts, also the ones whose trace equals another's
            for c, m in (ucount[k] or {}).items():
                clause_counts[c] = clause_counts.get(c, 0) + m
    verdicts = [uv[k] for k in keys]
    ndrift = 0
    for s, res, v in zip(scheds, results, verdicts):
        bad = sorted(c for c in v["bad"] if c.startswith("C12_"))
        for clause in bad:
            at = v["at"][clause]
            rep.violation(
                clause,
                sig_of(clause, s, at, res["trace"]),
                "clause %s false at event %d of a recorded %s execution (W=%d, %s start, %s): %s"
                % (clause, at, s["binding"], s["W"], "initialised" if s["init"] else "uninitialised", s.get("origin", "?"), json.dumps(res["trace"][max(1, at - 3) : at + 1])),
                {"schedule": s, "trace": res["trace"], "firstBad": at},
            )
        if "DRIFT_model" in v["bad"] and not bad:
            ndrift += 1
            if ndrift <= 3:
                rep.add_drift("%s: recorded %s trace is not a behaviour of the ReplayWindow model although no clause is false (W=%d, %s)" % (label, s["binding"], s["W"], s.get("origin", "?")))
    rep.coverage["distinct_traces_judged_by_tlc"] = rep.coverage.get("distinct_traces_judged_by_tlc", 0) + len(uniq)
    return len(results), ndrift


def replay(rep, args):
    data = json.load(open(args.replay))
    s = data["replay"]["schedule"]
    _env()
    res = run_schedule(s)
    with tlc.Workdir() as wd:
        validate_and_report(rep, wd, [s], [res], "replay")
    rep.coverage.update({"states": 0, "transitions": 0, "traces_validated_against_impl": 1, "samples": [res["trace"][:8]], "replayed": args.replay})
    rep.assumptions.append(oscore_env.ASSUMPTION)


def work(rep, args):
    if args.replay:
        return replay(rep, args)
    quick = args.tier == "quick"
    rng = random.Random(args.seed * 104729 + 12)
    oscore, _ = _env()
    for d in oscore_env.tree_deviations():
        rep.add_drift("tree under test deviates from the RFC 8613 Appendix C vectors: " + d)
    nsim = 200 if quick else 4000
    nrand = 200 if quick else 6000
    nbits = 60 if quick else 1200
    nfam = 80 if quick else 2400
    phases = {}
    t_last = [time.time()]

    def phase(name):
        now = time.time()
        phases[name] = round(phases.get(name, 0) + now - t_last[0], 1)
        t_last[0] = now

    with tlc.Workdir() as wd:
        wd.write("RW_mc.cfg", MC_CFG % {"maxlen": 5 if quick else 6, "maxn": 6 if quick else 7})
        bits_runs = [("1, 2, 3, 4", "NumsQuick"), ("8", "NumsSparse")] if quick else [("1, 2, 3, 4", "NumsContiguous"), ("8", "NumsSparse"), ("8", "NumsLow")]
        for i, (ws, nums) in enumerate(bits_runs):
            wd.write("RW_bits%d.cfg" % i, BITS_CFG % {"ws": ws, "nums": nums, "top": TOP})
        import threading

        box = {}
        ncpu = os.cpu_count() or 4

        def run_mc():  # the exhaustive runs proceed while edges and behaviours are generated and driven
            t0 = time.time()
            box["mc"] = tlc.run(wd, "ReplayWindow.tla", "RW_mc.cfg", timeout=1800 if quick else 3400, workers=max(2, ncpu // 2 - 2 if quick else ncpu - 6))
            box["mc_wall"] = round(time.time() - t0, 1)

        def run_bits():
            t0 = time.time()
            box["bits"] = [tlc.run(wd, "ReplayWindowBits.tla", "RW_bits%d.cfg" % i, timeout=1800 if quick else 3400, workers=max(2, ncpu // 8 if quick else ncpu // 4)) for i in range(len(bits_runs))]
            box["bits_wall"] = round(time.time() - t0, 1)

        threads = [threading.Thread(target=run_mc), threading.Thread(target=run_bits)]
        for th in threads:
            th.start()
        # edge enumeration and the two simulations: three single-worker TLC runs side by side
        wd.write("RW_edge.cfg", EDGE_CFG)
        wd.write("RW_sim.cfg", SIM_CFG)
        wd.write("RW_bitsim.cfg", BITS_SIM_CFG % {"maxlen": 48, "top": TOP, "jump": 20})
        simdir, bsimdir = wd.file("sim"), wd.file("bsim")
        os.makedirs(simdir)
        os.makedirs(bsimdir)
        gen = {}

        def run_gen(key, *a, **kw):
            gen[key] = tlc.run(wd, *a, **kw)

        gthreads = [
            threading.Thread(target=run_gen, args=("edges", "ReplayWindow.tla", "RW_edge.cfg"), kwargs=dict(workers=1, timeout=1200)),
            threading.Thread(target=run_gen, args=("sim", "ReplayWindow.tla", "RW_sim.cfg"), kwargs=dict(workers=1, timeout=600, simulate="file=%s/tr,num=%d" % (simdir, nsim), depth=18, seed=args.seed + 1)),
            # arrival sequences for the real window size, from the transcription of the window arithmetic
            threading.Thread(target=run_gen, args=("bsim", "ReplayWindowBits.tla", "RW_bitsim.cfg"), kwargs=dict(workers=1, timeout=900, simulate="file=%s/tr,num=%d" % (bsimdir, nbits), depth=50, seed=args.seed + 7)),
        ]
        for th in gthreads:
            th.start()
        for th in gthreads:
            th.join()
        edges, sim, bsim = gen.get("edges"), gen.get("sim"), gen.get("bsim")
        if edges is None or sim is None or bsim is None:
            raise MachineryError("a TLC generation run did not complete")
        tlc.need_ok_run(edges, "ReplayWindow edge enumeration")
        edge_vals = tlc.printed_values(edges, "EDGE")
        if len(edge_vals) < 1000:
            raise MachineryError("edge enumeration produced only %d edges" % len(edge_vals))
        tlc.need_ok_run(sim, "ReplayWindow simulation")
        behaviours = tlc.read_sim_traces(os.path.join(simdir, "tr"))
        tlc.need_ok_run(bsim, "ReplayWindowBits simulation")
        if bsim.violated:
            raise MachineryError("ReplayWindowBits simulation violates %s (design-level disagreement of the transcribed arithmetic with the statement)\n%s" % (bsim.violated, bsim.out[-3000:]))
        bits_behaviours = tlc.read_sim_traces(os.path.join(bsimdir, "tr"))
        if len(bits_behaviours) < nbits // 2:
            raise MachineryError("ReplayWindowBits simulation produced only %d behaviours" % len(bits_behaviours))
        phase("tlc_edges_and_simulations")

        model = schedules_from_edges(edge_vals)
        if quick:
            # quick: initialised starts: all edges through ReplayWindow directly and a seeded sixth through the
            # (slower) full unprotect; uninitialised starts and authentic responses (never re-implemented:
            # unprotect only): a seeded third; thorough: everything
            sample = set(rng.sample(range(len(model)), len(model) // 6))
            sample_u = set(rng.sample(range(len(model)), len(model) // 3))
        else:
            sample = sample_u = set(range(len(model)))
        model += schedules_from_behaviours(behaviours)
        model += schedules_from_behaviours(bits_behaviours, origin="bits-sim", top=TOP)
        scheds, expected = [], []
        for i, (s, exp) in enumerate(model):
            only_requests = all(e["k"] == "req" for e in s["events"])
            if s["init"] and only_requests:
                scheds.append(dict(s, binding="direct"))
                expected.append(exp)
            forged_resp = s["events"][-1]["k"] == "resp" and not s["events"][-1]["auth"]
            if s["origin"] != "edge" or i in sample or (i in sample_u and (not s["init"] or (not only_requests and not forged_resp))):
                s2 = decorate(s, random.Random(args.seed * 7919 + i)) if s["origin"] == "edge" else s
                scheds.append(dict(s2, binding="unprotect", seed=i))
                expected.append(exp)
        n_model = len(scheds)
        for i in range(nrand):
            scheds.append(random_schedule(rng, "unprotect" if i % 4 else "direct"))
        for i in range(nfam):
            scheds.append(forgery_schedule(rng) if i % 2 else recovery_schedule(rng))
        scheds = [x for x in scheds if x["binding"] == "unprotect" or x["events"]]
        phase("schedules")
        results = run_all(scheds)
        phase("driving_real_code")
        for s, res in zip(scheds, results):
            if "error" in res:
                raise MachineryError("driver failed on schedule %s\n%s" % (json.dumps(s)[:400], res["error"]))
        # spec -> code comparison (DRIFT only; verdicts come from TLC below)
        ndrift_cmp = 0
        for s, exp, res in zip(scheds[:n_model], expected, results[:n_model]):
            d = compare(exp, res["trace"])
            if d:
                ndrift_cmp += 1
                if ndrift_cmp <= 5:
                    rep.add_drift("model behaviour not reproduced by implementation (%s, %s, W=%d, %s): %s" % (s["binding"], s["origin"], s["W"], "init" if s["init"] else "uninit", d))
        unexpected = 0
        for s, res in zip(scheds, results):
            for u in res["meta"].get("unexpected", ()):
                unexpected += 1
                if unexpected <= 5:
                    rep.add_drift("%s binding, W=%d: %s" % (s["binding"], s["W"], u))
        # code -> spec
        clause_counts = {}
        validated, ndrift_tr = validate_and_report(rep, wd, scheds, results, "trace validation", clause_counts, parallel=3)
        phase("tlc_trace_validation")
        for th in threads:
            th.join()
        phase("waiting_for_exhaustive_runs")
        mc = box.get("mc")
        if mc is None:
            raise MachineryError("ReplayWindow model check did not run")
        tlc.need_ok_run(mc, "ReplayWindow model check")
        bits = box.get("bits")
        if not bits or len(bits) != len(bits_runs):
            raise MachineryError("ReplayWindowBits model check did not run")
        cex = []
        if mc.error_trace:
            cex += [dict(x, binding="unprotect", seed=1) for x, _e in schedules_from_behaviours([mc.error_trace])]
        for b in bits:
            tlc.need_ok_run(b, "ReplayWindowBits model check")
            if b.error_trace:
                for x, _e in schedules_from_behaviours([b.error_trace], origin="bits-cex", top=TOP):
                    cex += [dict(x, binding="unprotect", seed=1), dict(x, binding="direct")]
        if cex:
            cres = run_all(cex)
            for s_, r_ in zip(cex, cres):
                if "error" in r_:
                    raise MachineryError("driver failed on counterexample\n%s" % r_["error"])
            validate_and_report(rep, wd, cex, cres, "counterexample")
        model_violated = list(mc.violated) + [v for b in bits for v in b.violated]
        if model_violated:
            rep.notes.append("model check reported %s; counterexample replayed on the implementation" % model_violated)
            if not rep.violations:
                raise MachineryError("the model violates %s but the counterexample does not reproduce on the implementation" % model_violated)
        counters = {k: 0 for k in SITUATIONS}
        noproj = 0
        shapes = set()
        by_origin = {}
        for s, res in zip(scheds, results):
            stats_of(res["trace"], counters, s.get("top"))
            if any(e["idx"] == -1 for e in res["trace"][1:]):
                noproj += 1
            shapes.add(tuple((e["res"], e["how"]) for e in res["trace"][1:]))
            o = by_origin.setdefault(s["origin"] + "/" + s["binding"], [0, 0])
            o[0] += 1
            o[1] += len(res["trace"]) - 1
        never = sorted(k for k, v in counters.items() if v == 0)
        if never and not rep.violations and not noproj:
            raise MachineryError("situations of the statement never exercised: %s" % never)
        if noproj:
            rep.notes.append("window projection (_index/_bitfield) unavailable in %d traces: black-box validation only" % noproj)
        echo_x = sum(r["meta"].get("echo_exchanges", 0) for r in results)
        old_x = sum(r["meta"].get("old_exchanges", 0) for r in results)
        pick = [0, n_model - 1, n_model, len(scheds) - 2, len(scheds) - 1]
        rep.coverage.update(
            {
                "states": mc.distinct + sum(b.distinct for b in bits),
                "transitions": mc.generated + sum(b.generated for b in bits),
                "depth": mc.depth,
                "mc_ReplayWindow": {"states": mc.distinct, "transitions": mc.generated, "depth": mc.depth, "wall_s": box.get("mc_wall")},
                "mc_constants": {"Ws": [1, 2, 3, 4], "MaxN": 6 if quick else 7, "MaxLen": 5 if quick else 6, "start": ["initialised", "uninitialised"], "echo_recovery": ["configured", "None"], "events": ["request (authentic/forged, Echo none/stale/fresh)", "response with own Partial IV (authentic/forged)"]},
                "mc_ReplayWindowBits": [
                    {"Ws": ws, "numbers": nums, "states": b.distinct, "transitions": b.generated, "depth": b.depth, "arrival_sequences": "all (unbounded length)", "invariants": ["NoBad", "Agreement", "BitsAreSeen", "BitsDecideAlike", "BitsIntAlike", "BitsMeanStatement"]}
                    for (ws, nums), b in zip(bits_runs, bits)
                ],
                "mc_ReplayWindowBits_wall_s": box.get("bits_wall"),
                "exhaustive": True,
                "graph_edges": len(edge_vals),
                "graph_states": edges.distinct,
                "schedules_from_graph_edges": sum(1 for s in scheds[:n_model] if s["origin"] == "edge"),
                "schedules_from_simulation": sum(1 for s in scheds[:n_model] if s["origin"] == "sim"),
                "schedules_from_bits_simulation_W32_W64": sum(1 for s in scheds[:n_model] if s["origin"] == "bits-sim"),
                "random_schedules": sum(1 for s in scheds if s["origin"] == "random"),
                "directed_forgery_family": sum(1 for s in scheds if s["origin"] == "forgery-family"),
                "directed_recovery_family": sum(1 for s in scheds if s["origin"] == "recovery-family"),
                "executions_and_events_by_origin": by_origin,
                "traces_validated_against_impl": validated,
                "traces_direct_ReplayWindow": sum(1 for s in scheds if s["binding"] == "direct"),
                "traces_full_unprotect": sum(1 for s in scheds if s["binding"] == "unprotect"),
                "events_total": sum(len(r["trace"]) - 1 for r in results),
                "clause_evaluations_non_vacuous": clause_counts,
                "echo_exchanges_real_4_01": echo_x,
                "echo_exchanges_with_an_earlier_life_time": old_x,
                "model_behaviours_reproduced_exactly": n_model - ndrift_cmp,
                "traces_not_explained_by_model": ndrift_tr,
                "traces_without_state_projection": noproj,
                "situations_exercised": counters,
                "distinct_nontrivial": len(shapes),
                "window_sizes_real_runs": sorted({s["W"] for s in scheds}),
                "phase_wall_s": phases,
                "samples": [{"schedule": scheds[i], "trace": results[i]["trace"][:8]} for i in pick],
                "checker_cmd": "tlc ReplayWindow.tla (Spec exhaustive; EdgeSpec edge enumeration; -simulate) ; tlc ReplayWindowBits.tla (BitsSpec exhaustive; BitsSimSpec -simulate) ; tlc ReplayWindowTrace.tla on recorded traces",
            }
        )
    rep.assumptions += [
        oscore_env.ASSUMPTION,
        "in-memory security contexts (real CanProtect/CanUnprotect/SecurityContextUtils code, nothing persisted) as in tests/test_oscore.py",
        "forgeries: a genuine message with one corrupted ciphertext/tag bit, with its ciphertext cut short, with its Partial IV rewritten, or a message protected under another master secret / another ID context with the same sender ID; AEAD assumed to reject them",
        "exhaustive for W in 1..4, numbers 0..7, <= 6 arrivals (protocol model) and for W in {1,2,3,4,8} over all arrival sequences of a bounded number set (window arithmetic); the real size 32 by TLC-simulated and random runs validated by TLC",
        "numbers next to 2^40-1: TLC integers are 32 bit, so the model's Top (1000000) stands for 2^40-1; the driver translates model numbers within 2^19 of Top (and the recorded window state back); the window arithmetic is translation invariant, which the real runs confirm (no drift)",
        "the peer's senders may use sender sequence number 2^40-1 itself (the library's own sender stops one short of it); two senders sharing the peer's context model two clients of one security context",
        "the ReplayWindow-direct binding only queries is_valid and calls strike_out for authentic valid numbers on an initialised window; the uninitialised state, Echo recovery, responses and the order of checks are driven through the real unprotect() only",
        "when Echo recovery is configured an uninitialised window may be initialised from a response to a request this process sent (unprotect's try_initialize): the monitor follows the code there and treats it like an Echo round trip",
    ]


if __name__ == "__main__":
    sys.exit(runner.main("C12", work))
