"""C07 -- observe client: notifications in freshness order, termination signalled once.

1. TLC checks spec/ObserveClient.tla exhaustively: every sequence of <= MaxArr
   arrivals after the first response (serial numbers mod 16 scaled x 2^20 onto
   the 24-bit space, gaps {0,127,128,129} s, CON/NON, terminating response /
   ICMP error / give-up at every position, late notifications) against the
   clauses of spec/ObserveClientObs.tla.
2. TLC -simulate behaviours become schedules that are executed on the real
   stack through register_callback/register_errback of a plain Request
   (harness/drive.py) and compared event by event (DRIFT on mismatch).
3. Randomised schedules over the full 24-bit space (differences 2^23-1, 2^23,
   2^23+1, wrap-around at 2^24, times around 128 s after the last accepted one,
   same-MID duplicates) on the callback interface, and on the async iterator /
   BlockwiseRequest (harness/observedrive.py: ready and busy consumers,
   back-to-back datagrams).
4. All recorded traces are validated in one batch by TLC against
   spec/ObserveClientTrace.tla, which evaluates the clauses at every step."""

import json
import os
import random
import sys

from harness import tlc, tracecheck, MachineryError, runner

S = 1024  # ticks per second
HALF = 1 << 23
FULL = 1 << 24
TUNING = {"ACK_TIMEOUT": 2.0, "ACK_RANDOM_FACTOR": 1.5, "MAX_RETRANSMIT": 1}

CFG = """SPECIFICATION Spec
CONSTANTS
  MaxArr = %(maxarr)d
  Gaps = {%(gaps)s}
  Serials = {0,1,2,3,4,5,6,7,8,9,10,11,12,13,14,15}
%(extra)s
"""
INVS = "VIEW View\nINVARIANT NoBad\nINVARIANT QuiescentOk\nINVARIANT TokenAgrees\nINVARIANT LastAgrees"


# ---------------------------------------------------------------- running the real code
def run_one(s):
    if "iface" in s:
        from harness import observedrive

        return observedrive.run_safe(s)
    from harness import drive

    return drive.run_safe(s)


def run_all(scheds, procs=16):
    from multiprocessing import Pool

    if not scheds:
        return []
    with Pool(min(procs, os.cpu_count() or 4)) as p:
        return p.map(run_one, scheds, chunksize=max(1, len(scheds) // 64))


# ---------------------------------------------------------------- model behaviours -> schedules
def rx_step(e):
    if e["cls"] == "empty":
        return {"at": e["t"], "do": "rx", "r": 1, "ty": e["ty"], "code": 0, "mid": {"of": 1}}
    s = {"at": e["t"], "do": "rx", "r": 1, "ty": e["ty"], "code": e["code"], "tok": {"of": 1},
         "mid": {"of": 1} if e["mid"] == 300 else e["mid"]}
    if e["obs"] >= 0:
        s["observe"] = e["obs"]
    return s


def behaviour_to_schedule(beh):
    steps, expected = [], []
    for label, st in beh[1:]:
        emit = st.get("emit", [])
        if not emit:
            continue
        e0 = emit[0]
        if e0["k"] == "submit":
            con = emit[1]["ty"] == "CON"
            steps.append({"at": e0["t"], "do": "submit", "q": 1, "r": 1, "con": con, "observe": 0, "f": 0.0})
        elif e0["k"] == "rx":
            steps += [rx_step(e) for e in emit if e["k"] == "rx"]
        elif e0["k"] == "err":
            steps.append({"at": e0["t"], "do": "err", "r": 1})
        else:  # give-up: only time passes
            steps.append({"at": e0["t"], "do": "wait"})
        expected += [project(e) for e in emit]
    return {"tuning": dict(TUNING), "mid0": 300, "tok0": 77, "nremotes": 2, "steps": steps, "horizon": None}, expected


def project(e):
    k = e["k"]
    if k == "tx":
        return (k, e["ty"], e["mid"] if e["cls"] == "empty" else 0, e["cls"])
    if k == "rx":
        return (k, e["ty"], e["obs"], e["code"])
    if k == "notif":
        return (k, e["obs"], e["code"])
    if k == "obsend":
        return (k, "net" if e["cls"] in ("net", "timeout") else e["x"])
    if k == "done":
        return (k, e["cls"], e["code"])
    return (k,)


def compare(expected, real):
    got = [project(e) for e in real if e["k"] in ("submit", "rx", "rxend", "notif", "obsend", "done", "err", "tx")]
    # retransmissions of the request are the message layer's business (C03): keep only its first copy
    out, seen_req = [], False
    for x in got:
        if x[0] == "tx" and x[3] == "req":
            if seen_req:
                continue
            seen_req = True
        out.append(x)
    for i, x in enumerate(expected):
        if i >= len(out):
            return "model predicts %d events, implementation produced %d; first missing %s" % (len(expected), len(out), x)
        if x != out[i]:
            return "event %d: model predicts %s, implementation produced %s" % (i + 1, x, out[i])
    if len(out) > len(expected):
        return "implementation produced %d more events than the model, first %s" % (len(out) - len(expected), out[len(expected)])
    return None


# ---------------------------------------------------------------- random schedules, full 24-bit space
def fresh(v1, t1, v2, t2):
    """Generator-side aim only (where the boundaries are); never used as the oracle."""
    return (v1 < v2 and v2 - v1 < HALF) or (v1 > v2 and v1 - v2 > HALF) or t2 > t1 + 128 * S


def next_value(rng, seen, gv1):
    ref = rng.choice([gv1, gv1, rng.choice(seen), 0, FULL - 1, HALF])
    d = rng.choice([0, 1, -1, 2, -2, HALF - 1, HALF, HALF + 1, -(HALF - 1), -HALF, -(HALF + 1),
                    rng.randint(-40, 40), rng.randint(0, FULL - 1)])
    return (ref + d) % FULL


def next_time(rng, now, gt1):
    if rng.random() < 0.45:
        t = gt1 + 128 * S + rng.choice([-1, 0, 1, -S, S])
        if t >= now:
            return t
    return now + rng.choice([0, 0, 1, 7, S, 5 * S, 127 * S, 128 * S - 1, 128 * S, 128 * S + 1, 129 * S, rng.randint(0, 300 * S)])


def random_arrivals(rng, n, lossy=False, ended=False, t0=16):
    """-> (Observe value of the first response, later arrivals {t, ty, obs|None, code, mid} | {t, err})"""
    t = t0
    v0 = rng.choice([0, 1, FULL - 1, FULL - 2, HALF, HALF - 1, rng.randint(0, FULL - 1)])
    gv1, gt1, seen = v0, t, [v0]
    out = []
    mid = 9000
    for i in range(n):
        mid += 1
        ty = rng.choice(["CON", "NON"])
        if ended:
            t = t + rng.choice([0, 1, S, 129 * S])
            late = rng.random() < 0.8
            out.append({"t": t, "ty": ty, "obs": next_value(rng, seen, gv1) if late else None, "code": 69 if late else 132, "mid": mid})
            continue
        t = next_time(rng, t, gt1)
        roll = rng.random()
        if roll < 0.12:
            out.append({"t": t, "ty": ty, "obs": None, "code": rng.choice([69, 132, 160, 68]), "mid": mid})
            ended = True
        elif roll < 0.16:
            out.append({"t": t, "err": True})
            ended = True
        else:
            v = next_value(rng, seen, gv1)
            seen.append(v)
            out.append({"t": t, "ty": ty, "obs": v, "code": rng.choice([69, 69, 67]), "mid": mid})
            if fresh(gv1, gt1, v, t):
                gv1, gt1 = v, t
            if not lossy and rng.random() < 0.12:
                out.append(dict(out[-1]))  # the same datagram again (same message ID), same instant
    return v0, out


EMPTY_ACK = {"at": 16, "do": "rx", "r": 1, "ty": "ACK", "code": 0, "mid": {"of": 1}}


def opening_steps(con, first):
    """A CON request's exchange is closed by an empty ACK before a separate response
    (a response that overtakes a lost ACK is the message layer's subject)."""
    return ([dict(EMPTY_ACK)] if con and first["ty"] != "ACK" else []) + [first]


def arr_to_rx(a):
    s = {"at": a["t"], "do": "rx", "r": 1, "ty": a["ty"], "code": a["code"], "tok": {"of": 1}, "mid": a["mid"]}
    if a["obs"] is not None:
        s["observe"] = a["obs"]
    return s


def random_cb_schedule(rng):
    con = rng.random() < 0.6
    steps = [{"at": 8, "do": "submit", "q": 1, "r": 1, "con": con, "observe": 0, "f": 0.0}]
    opening = rng.random()
    fty = rng.choice(["ACK", "CON", "NON"] if con else ["NON", "CON"])
    first = {"at": 16, "do": "rx", "r": 1, "ty": fty, "code": 69, "tok": {"of": 1}, "mid": {"of": 1} if fty == "ACK" else 9000}
    if opening < 0.06:  # transport failure before any response
        steps.append({"at": 16, "do": "err", "r": 1})
        v0, arr = random_arrivals(rng, rng.randint(0, 2), ended=True)
    elif opening < 0.10 and con:  # nobody answers: the request gives up after 6 s
        steps.append({"at": 7000, "do": "wait"})
        v0, arr = random_arrivals(rng, rng.randint(0, 2), ended=True, t0=7000)
    elif opening < 0.18:  # first response without Observe option
        first["code"] = rng.choice([69, 132])
        steps += opening_steps(con, first)
        v0, arr = random_arrivals(rng, rng.randint(0, 3), ended=True)
    else:
        v0, arr = random_arrivals(rng, rng.randint(1, 12 if rng.random() < 0.3 else 6))
        first["observe"] = v0
        steps += opening_steps(con, first)
    for a in arr:
        steps.append({"at": a["t"], "do": "err", "r": 1} if a.get("err") else arr_to_rx(a))
    return {"tuning": dict(TUNING), "mid0": rng.randint(0, 65535), "tok0": rng.choice([0, 255, 65535, rng.randint(0, 65535)]),
            "nremotes": 2, "steps": steps, "horizon": None}


def random_lossy_schedule(rng):
    iface = rng.choice(["iter", "iter", "bwiter", "bwiter", "bwcb"])
    con = rng.random() < 0.6
    opening = rng.random()
    v0, arr = random_arrivals(rng, rng.randint(1, 8) if opening >= 0.12 else rng.randint(0, 2), lossy=True, ended=opening < 0.12)
    fty = rng.choice(["ACK", "CON", "NON"] if con else ["NON", "CON"])
    first = {"at": 16, "do": "rx", "ty": fty, "code": 69, "tok": {"of": 1}, "mid": {"of": 1} if fty == "ACK" else 9000}
    steps = []
    if opening < 0.06:
        steps.append({"at": 16, "do": "err"})
    elif opening < 0.12:
        first["code"] = rng.choice([69, 132])
        steps += opening_steps(con, first)
    else:
        first["observe"] = v0
        steps += opening_steps(con, first)
    for a in arr:
        if a.get("err"):
            steps.append({"at": a["t"], "do": "err"})
            continue
        rx = arr_to_rx(a)
        prev = steps[-1]
        if prev["do"] in ("rx", "burst") and prev["at"] == rx["at"] and rng.random() < 0.7:
            # already in the socket buffer when the previous one is read
            if prev["do"] == "rx":
                steps[-1] = {"at": prev["at"], "do": "burst", "rx": [prev, rx]}
            else:
                prev["rx"].append(rx)
        else:
            steps.append(rx)
    return {"iface": iface, "con": con, "start": rng.choice(["early", "resp", "resp"]),
            "delay": 0 if iface == "bwcb" else rng.choice([0, 0, 0, 1, 40, 3 * S, 200 * S]), "tuning": dict(TUNING),
            "mid0": rng.randint(0, 65535), "tok0": rng.randint(0, 65535), "steps": steps, "horizon": None}


# ---------------------------------------------------------------- directed schedules (always run)
def directed_cb():
    """Exact boundaries of the rule in the full 24-bit space, around three reference values."""
    out = []
    for x in (0, 5, HALF, FULL - 3):
        for d, gap in ((HALF - 1, 1), (HALF, 1), (HALF + 1, 1), (-(HALF - 1), 1), (-HALF, 1), (-(HALF + 1), 1), (0, 1), (1, 0), (-1, 0),
                       (-1, 128 * S - 1), (-1, 128 * S), (-1, 128 * S + 1), (0, 128 * S), (0, 128 * S + 1)):
            steps = [{"at": 8, "do": "submit", "q": 1, "r": 1, "con": False, "observe": 0, "f": 0.0},
                     {"at": 16, "do": "rx", "r": 1, "ty": "NON", "code": 69, "tok": {"of": 1}, "mid": 9000, "observe": x},
                     # a stale one in between must not move (v1, t1)
                     {"at": 16, "do": "rx", "r": 1, "ty": "NON", "code": 69, "tok": {"of": 1}, "mid": 9001, "observe": (x - 2) % FULL},
                     {"at": 16 + gap, "do": "rx", "r": 1, "ty": "CON", "code": 69, "tok": {"of": 1}, "mid": 9002, "observe": (x + d) % FULL},
                     {"at": 16 + gap + 1, "do": "rx", "r": 1, "ty": "NON", "code": 69, "tok": {"of": 1}, "mid": 9003, "observe": (x + d + 1) % FULL}]
            out.append({"tuning": dict(TUNING), "mid0": 300, "tok0": 77, "nremotes": 2, "steps": steps, "horizon": None})
    return out


def directed_lossy():
    out = []
    first = {"at": 16, "do": "rx", "ty": "NON", "code": 69, "tok": {"of": 1}, "mid": 9000, "observe": 5}
    n6 = {"at": 2 * S, "do": "rx", "ty": "CON", "code": 69, "tok": {"of": 1}, "mid": 9001, "observe": 6}
    n7 = {"at": 3 * S, "do": "rx", "ty": "NON", "code": 69, "tok": {"of": 1}, "mid": 9002, "observe": 7}
    fin = {"at": 4 * S, "do": "rx", "ty": "CON", "code": 132, "tok": {"of": 1}, "mid": 9003}
    plain = {"at": 16, "do": "rx", "ty": "NON", "code": 69, "tok": {"of": 1}, "mid": 9000}
    def at(spec, t):
        return dict(spec, at=t)
    shapes = [
        ([first, n6, n7, fin], 0),                                             # ready consumer
        ([first, n6, n7, fin], 2 * S + 512),                                   # busy while 7 and the final response arrive
        ([{"at": 16, "do": "burst", "rx": [first, at(fin, 16)]}], 0),          # final response right behind the first one
        ([{"at": 16, "do": "burst", "rx": [first, at(n6, 16), at(fin, 16)]}], 0),
        ([first, {"at": 2 * S, "do": "burst", "rx": [n6, at(n7, 2 * S), at(fin, 2 * S)]}], 0),
        ([first, n6, {"at": 3 * S, "do": "err"}], 0),
        ([first, n6, {"at": 3 * S, "do": "err"}], 2 * S + 512),
        ([{"at": 16, "do": "err"}], 0),
        ([plain, at(n6, 2 * S)], 0),
    ]
    for iface in ("iter", "bwiter", "bwcb"):
        for start in ("early", "resp"):
            for steps, delay in shapes:
                if iface == "bwcb" and (delay or start == "early"):
                    continue
                out.append({"iface": iface, "con": False, "start": start, "delay": delay, "tuning": dict(TUNING),
                            "mid0": 300, "tok0": 77, "steps": json.loads(json.dumps(steps)), "horizon": None})
    return out


# ---------------------------------------------------------------- signatures, statistics
def iface_of(sched):
    return sched.get("iface", "cb")


def scenario(sched, events, pos):
    """Normalised shape of the history up to the failing event (1-based pos)."""
    phase, signalled, prev_rx_t, burst = "wait", "none", None, False
    for e in events[:pos]:
        k = e["k"]
        if k == "rx" and e["cls"] == "resp" and e["q"]:
            if phase == "wait":
                phase = "live" if e["obs"] >= 0 else "over:notobs"
            elif phase == "live" and e["obs"] < 0:
                phase = "over:final"
                burst = prev_rx_t == e["t"]
            prev_rx_t = e["t"]
        elif k == "err" and phase in ("wait", "live"):
            phase = "over:net-before-response" if phase == "wait" else "over:net"
        elif k == "done" and phase == "wait" and e["cls"] in ("net", "timeout"):
            phase = "over:net-before-response"
        elif k == "obsend" and signalled == "none":
            signalled = e["x"]
    tag = "%s|%s|signalled=%s" % (iface_of(sched), phase, signalled)
    if "iface" in sched and phase == "over:final":
        tag += "|" + ("consumer-busy" if sched.get("delay") else "back-to-back" if burst else "consumer-ready")
    return tag


def stats(traces):
    c = {"arrivals": 0, "handed_over": 0, "handed_over_by_128s_rule_only": 0, "not_handed_over": 0,
         "difference_exactly_2^23": 0, "wrap_around_accepts": 0, "gap_exactly_128s": 0, "ends": {}, "late_con_rst": 0}
    for tr in traces:
        v1 = t1 = None
        over = False
        pending = None
        for e in tr:
            if e["k"] == "rx" and e["cls"] == "resp" and e["q"]:
                if over:
                    continue
                if e["obs"] < 0:
                    over = True
                    continue
                if v1 is None:
                    v1, t1 = e["obs"], e["t"]
                    continue
                c["arrivals"] += 1
                pending = e
                if abs(e["obs"] - v1) == HALF:
                    c["difference_exactly_2^23"] += 1
                if e["t"] == t1 + 128 * S:
                    c["gap_exactly_128s"] += 1
            elif e["k"] == "notif" and pending is not None and e["obs"] == pending["obs"] and e["obs"] >= 0:
                c["handed_over"] += 1
                v2, t2 = pending["obs"], pending["t"]
                serial = (v1 < v2 and v2 - v1 < HALF) or (v1 > v2 and v1 - v2 > HALF)
                if not serial:
                    c["handed_over_by_128s_rule_only"] += 1
                elif v1 > v2:
                    c["wrap_around_accepts"] += 1
                v1, t1 = v2, t2
                pending = None
            elif e["k"] == "obsend":
                c["ends"][e["x"]] = c["ends"].get(e["x"], 0) + 1
                over = True
            elif e["k"] == "err":
                over = True
            elif e["k"] == "tx" and e["ty"] == "RST":
                c["late_con_rst"] += 1
    c["not_handed_over"] = c["arrivals"] - c["handed_over"]
    return c


def judge(rep, wd, scheds, results):
    for s, res in zip(scheds, results):
        if "error" in res:
            raise MachineryError("driver failed on schedule %s\n%s" % (json.dumps(s)[:400], res["error"]))
    traces = [r["events"] for r in results]
    verdicts, _ = tracecheck.validate(wd, "ObserveClientTrace", "ObserveClientTrace.cfg.tmpl", {}, traces)
    bad = set()
    for i, v in enumerate(verdicts):
        for full in sorted(v["bad"]):
            clause = full.split("/")[0]
            pos = v["at"][full]
            e = traces[i][pos - 1]
            bad.add(i)
            rep.violation(
                clause,
                "%s|%s" % (full, scenario(scheds[i], traces[i], pos)),
                "clause %s false at event %d (%s t=%s obs=%s x=%s) of a recorded execution of %d events on interface %s"
                % (full, pos, e["k"], e["t"], e["obs"], e["x"] or e["cls"], len(traces[i]), iface_of(scheds[i])),
                {"schedule": scheds[i], "events": traces[i], "meta": results[i]["meta"]},
            )
    return traces, bad


def work(rep, args):
    quick = args.tier == "quick"
    rng = random.Random(args.seed * 7919 + 7)
    with tlc.Workdir() as wd:
        if args.replay:
            data = json.load(open(args.replay))
            s = data["replay"]["schedule"]
            res = run_all([s])
            traces, bad = judge(rep, wd, [s], res)
            try:
                prev = json.load(open(os.path.join(runner.EVIDENCE_DIR, "C07.json")))
                rep.coverage.update(prev.get("coverage", {}))
                rep.assumptions += prev.get("assumptions", [])
            except (OSError, ValueError):
                rep.coverage.update({"states": 0, "transitions": 0, "traces_validated_against_impl": 1, "samples": [s]})
            rep.coverage["last_replay"] = {"file": args.replay, "clauses_false": sorted({v.clause for v in rep.violations})}
            return

        consts = dict(maxarr=5 if quick else 8, gaps="0, 127, 128, 129")
        nsim = 300 if quick else 4000
        ncb = 700 if quick else 12000
        nlossy = 500 if quick else 8000

        wd.write("OC_run.cfg", CFG % dict(consts, extra=INVS))
        mc = tlc.run(wd, "ObserveClient.tla", "OC_run.cfg", timeout=900)
        tlc.need_ok_run(mc, "ObserveClient model check")
        if mc.violated:
            raise MachineryError("the ObserveClient model itself violates %s:\n%s" % (mc.violated, mc.out[-1500:]))

        wd.write("OC_sim.cfg", CFG % dict(maxarr=6, gaps=consts["gaps"], extra=""))
        simdir = wd.file("sim")
        os.makedirs(simdir)
        sim = tlc.run(wd, "ObserveClient.tla", "OC_sim.cfg", workers=1, timeout=600,
                      simulate="file=%s/tr,num=%d" % (simdir, nsim), depth=10, seed=args.seed + 1)
        tlc.need_ok_run(sim, "ObserveClient simulation")
        behaviours = tlc.read_sim_traces(os.path.join(simdir, "tr"))
        model = [behaviour_to_schedule(b) for b in behaviours]
        model = [(s, e) for s, e in model if s["steps"]]
        if not model:
            raise MachineryError("TLC simulation produced no behaviours")

        cb = directed_cb() + [random_cb_schedule(rng) for _ in range(ncb)]
        lossy = directed_lossy() + [random_lossy_schedule(rng) for _ in range(nlossy)]
        scheds = [s for s, _ in model] + cb + lossy
        results = run_all(scheds)
        traces, bad = judge(rep, wd, scheds, results)

        ndrift = 0
        for i, (s, exp) in enumerate(model):
            d = compare(exp, results[i]["events"])
            if d:
                ndrift += 1
                if i not in bad:  # a violated clause already explains the difference
                    rep.add_drift("model behaviour not reproduced by implementation: " + d)

        lossy_traces = traces[len(model) + len(cb):]
        per_iface = {}
        for s in lossy:
            per_iface[s["iface"]] = per_iface.get(s["iface"], 0) + 1
        st = stats(traces[: len(model) + len(cb)])
        if not rep.violations:
            for key in ("handed_over_by_128s_rule_only", "difference_exactly_2^23", "wrap_around_accepts", "gap_exactly_128s", "not_handed_over", "late_con_rst"):
                if not st[key]:
                    raise MachineryError("vacuous run: no case of %s among %d recorded arrivals" % (key, st["arrivals"]))
        rep.coverage.update(
            {
                "states": mc.distinct,
                "transitions": mc.generated,
                "depth": mc.depth,
                "mc_constants": consts,
                "exhaustive": True,
                "traces_validated_against_impl": len(traces),
                "schedules_from_model_behaviours": len(model),
                "model_behaviours_reproduced_exactly": len(model) - ndrift,
                "schedules_callback_interface_full_24bit": len(cb),
                "schedules_lossy_interfaces": per_iface,
                "lossy_consumer_busy": sum(1 for s in lossy if s["delay"]),
                "lossy_back_to_back_bursts": sum(1 for s in lossy for x in s["steps"] if x["do"] == "burst"),
                "callback_interface_statistics": st,
                "iterator_items_seen": sum(1 for t in lossy_traces for e in t if e["k"] == "notif"),
                "traces_with_a_false_clause": len(bad),
                "samples": [
                    {"schedule": model[0][0], "events": [project(e) for e in traces[0]][:16]},
                    {"schedule": cb[0], "events": [project(e) for e in traces[len(model)]][:16]},
                    {"schedule": lossy[0], "events": [project(e) for e in lossy_traces[0]][:16]},
                ],
                "checker_cmd": "tlc ObserveClient.tla (exhaustive + -simulate); tlc ObserveClientTrace.tla on recorded traces",
            }
        )
        rep.assumptions += [
            "virtual-time event loop (aiocoap.protocol.time redirected to it) and fake UDP socket stand in for the OS",
            "notifications carry fresh message IDs; datagram duplicates (same message ID) are injected at the same instant only, where the message layer's deduplication and the freshness rule agree",
            "non-2.xx responses never carry an Observe option; Observe values stay below 2^24",
            "on the iterator / BlockwiseRequest only what a latest-value queue can guarantee is demanded: items are an in-order subsequence of the RFC-accepted arrivals, the latest one comes out while the observation lives, a final response comes out before the end, one end, nothing after it",
            "application-side cancellation and context shutdown during an observation are outside the statement",
        ]


if __name__ == "__main__":
    sys.exit(runner.main("C07", work))
