"""C07 -- observe client: notifications in freshness order, termination signalled once.

1. TLC checks spec/ObserveClient.tla exhaustively in two configurations: the plain
   Request (every sequence of <= MaxArr arrivals after the first response: serial
   numbers mod 16 scaled x 2^20 onto the 24-bit space, gaps {0,127,128,129} s,
   CON/NON, 2.xx codes, terminating response / ICMP error / give-up at every
   position, late notifications) and the BlockwiseRequest layer on top of it
   (block-wise notification bodies being completed while more arrives), against
   the clauses of spec/ObserveClientObs.tla.
2. TLC -simulate behaviours of both become schedules that are executed on the real
   stack (harness/drive.py callbacks of a plain Request; harness/observedrive.py
   callbacks of a BlockwiseRequest with a peer that answers the block requests)
   and compared event by event (DRIFT on mismatch).
3. Directed and randomised schedules over the full 24-bit space (differences
   2^23-1, 2^23, 2^23+1, wrap-around at 2^24, times around 128 s after the last
   accepted one, same-MID duplicates, codes 2.01..2.05, other requests and a second
   observation next to the live one, token counter crossing 2^8 / 2^16 and coming
   round) on the callback interface, and on the async iterator / BlockwiseRequest
   (ready and busy consumers, late registration, back-to-back datagrams, block-wise
   notification bodies answered at once / late / after the next arrivals).
4. All recorded traces are validated in one batch by TLC against
   spec/ObserveClientTrace.tla, which evaluates the clauses at every step; loop
   exceptions and logged errors of the executions are reported as DRIFT."""

import json
import os
import random
import sys
from concurrent.futures import ThreadPoolExecutor

from harness import tlc, tracecheck, MachineryError, runner

S = 1024  # ticks per second
HALF = 1 << 23
FULL = 1 << 24
TUNING = {"ACK_TIMEOUT": 2.0, "ACK_RANDOM_FACTOR": 1.5, "MAX_RETRANSMIT": 1}

CFG = """SPECIFICATION Spec
CONSTANTS
  MaxArr = %(maxarr)d
  Gaps = {%(gaps)s}
  Serials = {%(serials)s}
  NCodes = {%(ncodes)s}
  B2 = {%(b2)s}
  Iface = "%(iface)s"
%(extra)s
"""
INVS = "VIEW View\nINVARIANT NoBad\nINVARIANT QuiescentOk\nINVARIANT TokenAgrees\nINVARIANT LastAgrees\nINVARIANT EndAgrees"
ALL16 = ", ".join(str(i) for i in range(16))


def cb_consts(maxarr, ncodes):
    return dict(maxarr=maxarr, gaps="0, 127, 128, 129", serials=ALL16, ncodes=ncodes, b2="FALSE", iface="cb")


def bw_consts(maxarr, ncodes):
    # the layer above Request._run: order and overwriting, not the arithmetic (serials with differences 1, 7, 8, 9)
    return dict(maxarr=maxarr, gaps="0, 129", serials="0, 1, 8, 9", ncodes=ncodes, b2="FALSE, TRUE", iface="bwcb")


# ---------------------------------------------------------------- running the real code
def run_one(s):
    if "iface" in s:
        from harness import observedrive

        return observedrive.run_safe(s)
    from harness import drive

    return drive.run_safe(s)


def run_all(scheds, procs=16):
    from multiprocessing import Pool

    if not scheds:
        return []
    with Pool(min(procs, os.cpu_count() or 4)) as p:
        return p.map(run_one, scheds, chunksize=max(1, len(scheds) // 64))


# ---------------------------------------------------------------- model behaviours -> schedules
def rx_step(e):
    if e["cls"] == "empty":
        return {"at": e["t"], "do": "rx", "r": 1, "ty": e["ty"], "code": 0, "mid": {"of": 1}}
    s = {"at": e["t"], "do": "rx", "r": 1, "ty": e["ty"], "code": e["code"], "tok": {"of": 1},
         "mid": {"of": 1} if e["mid"] == 300 else e["mid"]}
    if e["obs"] >= 0:
        s["observe"] = e["obs"]
    return s


def behaviour_to_schedule(beh):
    """-> (schedule, expected events).  Behaviours of the BlockwiseRequest configuration become
    observedrive schedules (callbacks on the outer observation); the answers to the client's block
    requests become the reactive peer's plan (delay = model time between request and answer)."""
    steps, expected, fetch = [], [], []
    bw, con, t_req = False, False, None
    for label, st in beh[1:]:
        emit = st.get("emit", [])
        if not emit:
            continue
        e0 = emit[0]
        if e0["k"] == "submit":
            con = emit[1]["ty"] == "CON"
            bw = e0["x"] == "bwcb"
            steps.append({"at": e0["t"], "do": "submit", "q": 1, "r": 1, "con": con, "observe": 0, "f": 0.0})
        elif e0["k"] == "rx" and e0["q"] == 0 and e0["cls"] == "resp":
            fetch[-1] = {"delay": e0["t"] - t_req, "more": False, "plen": 10, "ty": e0["ty"]}
        elif e0["k"] == "rx":
            for e in emit:
                if e["k"] == "rx":
                    x = rx_step(e)
                    if e["x"] == "b2":
                        x["b2"], x["plen"] = [0, True, 0], 16
                    steps.append(x)
        elif e0["k"] == "err":
            steps.append({"at": e0["t"], "do": "err", "r": 1})
        else:  # give-up: only time passes
            steps.append({"at": e0["t"], "do": "wait"})
        for e in emit:
            if e["k"] == "tx" and e["cls"] == "req" and e["q"] == 0:
                t_req = e["t"]
                fetch.append(None)  # stays unanswered if the behaviour never completes it (ICMP error, or cut)
        expected += [project(e) for e in emit]
    if bw:
        for x in steps:
            x.pop("r", None)
        return {"iface": "bwcb", "con": con, "start": "resp", "delay": 0, "tuning": dict(TUNING), "mid0": 300, "tok0": 77,
                "steps": steps[1:] or [{"at": 8, "do": "wait"}], "fetch": fetch,
                # a behaviour that stops while a block is outstanding is cut there (the request would give up 6 s later)
                "horizon": 0 if beh[-1][1].get("fetch") else None}, expected
    return {"tuning": dict(TUNING), "mid0": 300, "tok0": 77, "nremotes": 2, "steps": steps, "horizon": None}, expected


def project(e):
    k = e["k"]
    if k == "tx":
        return (k, e["ty"], e["mid"] if e["cls"] == "empty" else 0, e["cls"])
    if k == "rx":
        return (k, e["ty"], e["obs"], e["code"])
    if k == "notif":
        return (k, e["obs"], e["code"])
    if k == "obsend":
        return (k, "net" if e["cls"] in ("net", "timeout") else e["x"])
    if k == "done":
        return (k, e["cls"], e["code"])
    return (k,)


def compare(expected, real):
    # retransmissions of a request are the message layer's business (C03): keep only its first copy
    out, seen = [], set()
    for e in real:
        if e["k"] not in ("submit", "rx", "rxend", "notif", "obsend", "done", "err", "tx"):
            continue
        if e["k"] == "tx" and e["cls"] == "req":
            if e["mid"] in seen:
                continue
            seen.add(e["mid"])
        out.append(project(e))
    for i, x in enumerate(expected):
        if i >= len(out):
            return "model predicts %d events, implementation produced %d; first missing %s" % (len(expected), len(out), x)
        if x != out[i]:
            return "event %d: model predicts %s, implementation produced %s" % (i + 1, x, out[i])
    if len(out) > len(expected):
        return "implementation produced %d more events than the model, first %s" % (len(out) - len(expected), out[len(expected)])
    return None


# ---------------------------------------------------------------- random schedules, full 24-bit space
def fresh(v1, t1, v2, t2):
    """Generator-side aim only (where the boundaries are); never used as the oracle."""
    return (v1 < v2 and v2 - v1 < HALF) or (v1 > v2 and v1 - v2 > HALF) or t2 > t1 + 128 * S


def next_value(rng, seen, gv1):
    ref = rng.choice([gv1, gv1, rng.choice(seen), 0, FULL - 1, HALF])
    d = rng.choice([0, 1, -1, 2, -2, HALF - 1, HALF, HALF + 1, -(HALF - 1), -HALF, -(HALF + 1),
                    rng.randint(-40, 40), rng.randint(0, FULL - 1)])
    return (ref + d) % FULL


def next_time(rng, now, gt1):
    if rng.random() < 0.45:
        t = gt1 + 128 * S + rng.choice([-1, 0, 1, -S, S])
        if t >= now:
            return t
    return now + rng.choice([0, 0, 1, 7, S, 5 * S, 127 * S, 128 * S - 1, 128 * S, 128 * S + 1, 129 * S, rng.randint(0, 300 * S)])


SUCCESS = [65, 66, 67, 68, 69]  # every 2.xx response may carry an Observe option (2.01 ... 2.05)


def ncode(rng):
    return rng.choice([69, 69, 67, 65, 66, 68])


def next_time_close(rng, now):
    return now + rng.choice([0, 0, 1, 7, 300, S])


def random_arrivals(rng, n, lossy=False, ended=False, t0=16, b2prob=0.0):
    """-> (Observe value of the first response, later arrivals {t, ty, obs|None, code, mid[, b2]} | {t, err});
    after an arrival that announces further blocks (b2) the next ones follow closely, so that they
    meet the completion of its body"""
    t = t0
    close = 0
    v0 = rng.choice([0, 1, FULL - 1, FULL - 2, HALF, HALF - 1, rng.randint(0, FULL - 1)])
    gv1, gt1, seen = v0, t, [v0]
    out = []
    mid = 9000
    for i in range(n):
        mid += 1
        ty = rng.choice(["CON", "NON"])
        if ended:
            t = t + rng.choice([0, 1, S, 129 * S])
            late = rng.random() < 0.8
            out.append({"t": t, "ty": ty, "obs": next_value(rng, seen, gv1) if late else None, "code": 69 if late else 132, "mid": mid})
            continue
        t = next_time_close(rng, t) if close else next_time(rng, t, gt1)
        close = max(0, close - 1)
        roll = rng.random()
        if roll < 0.12:
            out.append({"t": t, "ty": ty, "obs": None, "code": rng.choice([69, 132, 160, 68]), "mid": mid})
            ended = True
        elif roll < 0.16:
            out.append({"t": t, "err": True})
            ended = True
        else:
            v = next_value(rng, seen, gv1)
            seen.append(v)
            out.append({"t": t, "ty": ty, "obs": v, "code": ncode(rng), "mid": mid})
            if rng.random() < b2prob:
                out[-1]["b2"] = True
                close = 2
            if fresh(gv1, gt1, v, t):
                gv1, gt1 = v, t
            if not lossy and rng.random() < 0.12:
                out.append(dict(out[-1]))  # the same datagram again (same message ID), same instant
    return v0, out


EMPTY_ACK = {"at": 16, "do": "rx", "r": 1, "ty": "ACK", "code": 0, "mid": {"of": 1}}


def opening_steps(con, first):
    """A CON request's exchange is closed by an empty ACK before a separate response
    (a response that overtakes a lost ACK is the message layer's subject)."""
    return ([dict(EMPTY_ACK)] if con and first["ty"] != "ACK" else []) + [first]


def arr_to_rx(a):
    s = {"at": a["t"], "do": "rx", "r": 1, "ty": a["ty"], "code": a["code"], "tok": {"of": 1}, "mid": a["mid"]}
    if a["obs"] is not None:
        s["observe"] = a["obs"]
    if a.get("b2"):
        s["b2"] = [0, True, 0]  # block 0 of 16 bytes, more to come
        s["plen"] = 16
    return s


def tok0_choice(rng):
    """The token counter starts just below a power of 256 in most runs, so that a few requests cross it."""
    return rng.choice([65535 - rng.randint(0, 3), 255 - rng.randint(0, 3), 65535 - rng.randint(0, 3), 0, rng.randint(0, 65535)])


def side_requests_cb(rng, steps, t_end):
    """Further requests on the same context to the same endpoint next to the observation (drive.py):
    plain ones that are answered at once, or a second observation."""
    trig = []
    q = 1
    for _ in range(rng.randint(1, 3)):
        q += 1
        at = rng.choice([9, 12, 20, rng.randint(9, max(10, t_end)), t_end + 5])
        con = rng.random() < 0.5
        steps.append({"at": at, "do": "submit", "q": q, "r": 1, "con": con, "f": 0.0})
        rx = {"r": 1, "ty": "ACK" if con else "NON", "code": 69, "tok": {"of": q}, "mid": {"of": q} if con else 9600 + q}
        trig.append({"on": {"q": q, "copy": 1}, "delay": rng.choice([1, 3, 40]), "rx": rx})
    if rng.random() < 0.35:
        # a second observation (NON) that lives next to the first one: established, one notification
        q += 1
        steps.append({"at": 9, "do": "submit", "q": q, "r": 1, "con": False, "observe": 0, "f": 0.0})
        trig.append({"on": {"q": q, "copy": 1}, "delay": 2, "rx": {"r": 1, "ty": "NON", "code": ncode(rng), "tok": {"of": q}, "mid": 9700, "observe": 100}})
        trig.append({"on": {"q": q, "copy": 1}, "delay": 4, "rx": {"r": 1, "ty": "NON", "code": ncode(rng), "tok": {"of": q}, "mid": 9701, "observe": 101}})
    steps.sort(key=lambda x: x["at"])  # stable: equal instants keep their order
    return trig


def random_cb_schedule(rng):
    con = rng.random() < 0.6
    steps = [{"at": 8, "do": "submit", "q": 1, "r": 1, "con": con, "observe": 0, "f": 0.0}]
    opening = rng.random()
    fty = rng.choice(["ACK", "CON", "NON"] if con else ["NON", "CON"])
    first = {"at": 16, "do": "rx", "r": 1, "ty": fty, "code": ncode(rng), "tok": {"of": 1}, "mid": {"of": 1} if fty == "ACK" else 9000}
    triggers = []
    if opening < 0.06:  # transport failure before any response
        steps.append({"at": 16, "do": "err", "r": 1})
        v0, arr = random_arrivals(rng, rng.randint(0, 2), ended=True)
    elif opening < 0.10 and con:  # nobody answers: the request gives up after 6 s
        steps.append({"at": 7000, "do": "wait"})
        v0, arr = random_arrivals(rng, rng.randint(0, 2), ended=True, t0=7000)
    elif opening < 0.18:  # first response without Observe option
        first["code"] = rng.choice([69, 132])
        steps += opening_steps(con, first)
        v0, arr = random_arrivals(rng, rng.randint(0, 3), ended=True)
    else:
        v0, arr = random_arrivals(rng, rng.randint(1, 12 if rng.random() < 0.3 else 6))
        first["observe"] = v0
        steps += opening_steps(con, first)
    for a in arr:
        steps.append({"at": a["t"], "do": "err", "r": 1} if a.get("err") else arr_to_rx(a))
    if opening >= 0.18 and rng.random() < 0.3:
        triggers = side_requests_cb(rng, steps, steps[-1]["at"])
    return {"tuning": dict(TUNING), "mid0": rng.randint(0, 65535), "tok0": tok0_choice(rng),
            "nremotes": 2, "steps": steps, "triggers": triggers, "horizon": None}


def fetch_plans(rng, n=6):
    """How the peer answers the client's requests for further blocks: at once / late / possibly after the next
    arrivals (which follow within 0..1 s) -- always before the request would give up (6 s)."""
    out = []
    for _ in range(n):
        more = rng.random() < 0.25
        out.append({"delay": rng.choice([1, 5, 300, 1500, 3000]), "more": more, "plen": 16 if more else rng.randint(1, 16),
                    "ty": rng.choice(["ACK", "ACK", "NON", "CON"])})
    return out


def side_requests_lossy(rng, steps):
    """Other requests on the same context while the observation lives / after it, optionally after a long
    row of short-lived requests (burn: their tokens were reserved and released) that brings the token
    counter to a multiple of 2^8 or 2^16 away from the observation's token."""
    t_end = steps[-1]["at"]
    at = rng.choice([20, 20, rng.randint(17, max(18, t_end)), t_end + 3])
    k = rng.randint(1, 3)
    extra = []
    roll = rng.random()
    if roll < 0.5:
        extra.append({"at": at, "do": "burn", "n": (65536 if roll < 0.3 else 256) - rng.randint(1, k)})
    for j in range(k):
        con = rng.random() < 0.5
        extra.append({"at": at + j, "do": "submit", "q": 2 + j, "con": con,
                      "reply": {"delay": rng.choice([1, 3, 40]), "ty": rng.choice(["ACK", "NON", "CON"]), "code": 69}})
    steps += extra
    steps.sort(key=lambda x: x["at"])


def random_lossy_schedule(rng):
    iface = rng.choice(["iter", "iter", "bwiter", "bwiter", "bwcb", "cb"])
    bw = iface in ("bwiter", "bwcb")
    con = rng.random() < 0.6
    opening = rng.random()
    v0, arr = random_arrivals(rng, rng.randint(1, 8) if opening >= 0.12 else rng.randint(0, 2), lossy=True, ended=opening < 0.12,
                              b2prob=0.3 if bw and rng.random() < 0.5 else 0.0)
    fty = rng.choice(["ACK", "CON", "NON"] if con else ["NON", "CON"])
    first = {"at": 16, "do": "rx", "ty": fty, "code": ncode(rng), "tok": {"of": 1}, "mid": {"of": 1} if fty == "ACK" else 9000}
    steps = []
    if opening < 0.06:
        steps.append({"at": 16, "do": "err"})
    elif opening < 0.12:
        first["code"] = rng.choice([69, 132])
        steps += opening_steps(con, first)
    else:
        first["observe"] = v0
        if bw and rng.random() < 0.08:
            first["b2"], first["plen"] = [0, True, 0], 16  # the first response itself is block-wise
        steps += opening_steps(con, first)
    for a in arr:
        if a.get("err"):
            steps.append({"at": a["t"], "do": "err"})
            continue
        rx = arr_to_rx(a)
        prev = steps[-1]
        if prev["do"] in ("rx", "burst") and prev["at"] == rx["at"] and rng.random() < 0.7:
            # already in the socket buffer when the previous one is read
            if prev["do"] == "rx":
                steps[-1] = {"at": prev["at"], "do": "burst", "rx": [prev, rx]}
            else:
                prev["rx"].append(rx)
        else:
            steps.append(rx)
    if opening >= 0.12 and rng.random() < (0.6 if iface == "cb" else 0.25):
        side_requests_lossy(rng, steps)
    start = rng.choice(["early", "resp", "resp", "late"])
    return {"iface": iface, "con": con, "start": start, "start_delay": rng.choice([1, 600, 3 * S, 130 * S]),
            "delay": 0 if iface in ("bwcb", "cb") else rng.choice([0, 0, 0, 1, 40, 3 * S, 200 * S]), "tuning": dict(TUNING),
            "mid0": rng.randint(0, 65535), "tok0": tok0_choice(rng), "steps": steps, "fetch": fetch_plans(rng), "horizon": None}


# ---------------------------------------------------------------- directed schedules (always run)
def directed_cb():
    """Exact boundaries of the rule in the full 24-bit space, around three reference values."""
    out = []
    for x in (0, 5, HALF, FULL - 3):
        for d, gap in ((HALF - 1, 1), (HALF, 1), (HALF + 1, 1), (-(HALF - 1), 1), (-HALF, 1), (-(HALF + 1), 1), (0, 1), (1, 0), (-1, 0),
                       (-1, 128 * S - 1), (-1, 128 * S), (-1, 128 * S + 1), (0, 128 * S), (0, 128 * S + 1)):
            steps = [{"at": 8, "do": "submit", "q": 1, "r": 1, "con": False, "observe": 0, "f": 0.0},
                     {"at": 16, "do": "rx", "r": 1, "ty": "NON", "code": 69, "tok": {"of": 1}, "mid": 9000, "observe": x},
                     # a stale one in between must not move (v1, t1)
                     {"at": 16, "do": "rx", "r": 1, "ty": "NON", "code": 69, "tok": {"of": 1}, "mid": 9001, "observe": (x - 2) % FULL},
                     {"at": 16 + gap, "do": "rx", "r": 1, "ty": "CON", "code": 69, "tok": {"of": 1}, "mid": 9002, "observe": (x + d) % FULL},
                     {"at": 16 + gap + 1, "do": "rx", "r": 1, "ty": "NON", "code": 69, "tok": {"of": 1}, "mid": 9003, "observe": (x + d + 1) % FULL}]
            out.append({"tuning": dict(TUNING), "mid0": 300, "tok0": 77, "nremotes": 2, "steps": steps, "horizon": None})
    sub = {"at": 8, "do": "submit", "q": 1, "r": 1, "con": False, "observe": 0, "f": 0.0}
    def n(at, v, code=69, q=1, mid=None, ty="NON"):
        return {"at": at, "do": "rx", "r": 1, "ty": ty, "code": code, "tok": {"of": q}, "mid": mid if mid is not None else 9000 + v + 50 * q, "observe": v}
    # every success code may carry an Observe option: 2.04 first, 2.01 / 2.02 / 2.03 / 2.05 notifications
    out.append({"tuning": dict(TUNING), "mid0": 300, "tok0": 77, "nremotes": 2, "horizon": None,
                "steps": [sub, n(16, 5, 68), n(2 * S, 6, 65), n(3 * S, 7, 66, ty="CON"), n(4 * S, 8, 67), n(5 * S, 9, 69)]})
    # other requests next to the live observation (token counter crossing 2^8 / 2^16), then a notification
    for tok0 in (253, 65533, 65535, 1000):
        side = [{"at": S + j, "do": "submit", "q": 2 + j, "r": 1, "con": bool(j % 2), "f": 0.0} for j in range(3)]
        trig = [{"on": {"q": 2 + j, "copy": 1}, "delay": 3, "rx": {"r": 1, "ty": "ACK" if j % 2 else "NON", "code": 69, "tok": {"of": 2 + j},
                                                                    "mid": {"of": 2 + j} if j % 2 else 9600 + j}} for j in range(3)]
        out.append({"tuning": dict(TUNING), "mid0": 300, "tok0": tok0, "nremotes": 2, "horizon": None, "triggers": trig,
                    "steps": [sub, n(16, 5), n(100, 6)] + side + [n(3 * S, 7), n(4 * S, 8, ty="CON")]})
    # two observations to one endpoint: both live on, both are told a transport failure
    sub2 = dict(sub, q=2, at=9)
    for tail in ([{"at": 3 * S, "do": "err", "r": 1}], [n(3 * S, 7), n(3 * S + 1, 103, q=2)]):
        out.append({"tuning": dict(TUNING), "mid0": 300, "tok0": 77, "nremotes": 2, "horizon": None,
                    "steps": [sub, sub2, n(16, 5), n(17, 100, q=2), n(100, 6), n(101, 101, q=2)] + tail})
    return out


def directed_lossy():
    out = []
    first = {"at": 16, "do": "rx", "ty": "NON", "code": 69, "tok": {"of": 1}, "mid": 9000, "observe": 5}
    n6 = {"at": 2 * S, "do": "rx", "ty": "CON", "code": 69, "tok": {"of": 1}, "mid": 9001, "observe": 6}
    n7 = {"at": 3 * S, "do": "rx", "ty": "NON", "code": 69, "tok": {"of": 1}, "mid": 9002, "observe": 7}
    fin = {"at": 4 * S, "do": "rx", "ty": "CON", "code": 132, "tok": {"of": 1}, "mid": 9003}
    plain = {"at": 16, "do": "rx", "ty": "NON", "code": 69, "tok": {"of": 1}, "mid": 9000}
    def at(spec, t):
        return dict(spec, at=t)
    shapes = [
        ([first, n6, n7, fin], 0),                                             # ready consumer
        ([first, n6, n7, fin], 2 * S + 512),                                   # busy while 7 and the final response arrive
        ([{"at": 16, "do": "burst", "rx": [first, at(fin, 16)]}], 0),          # final response right behind the first one
        ([{"at": 16, "do": "burst", "rx": [first, at(n6, 16), at(fin, 16)]}], 0),
        ([first, {"at": 2 * S, "do": "burst", "rx": [n6, at(n7, 2 * S), at(fin, 2 * S)]}], 0),
        ([first, n6, {"at": 3 * S, "do": "err"}], 0),
        ([first, n6, {"at": 3 * S, "do": "err"}], 2 * S + 512),
        ([{"at": 16, "do": "err"}], 0),
        ([plain, at(n6, 2 * S)], 0),
    ]
    for iface in ("iter", "bwiter", "bwcb"):
        for start in ("early", "resp"):
            for steps, delay in shapes:
                if iface == "bwcb" and (delay or start == "early"):
                    continue
                out.append({"iface": iface, "con": False, "start": start, "delay": delay, "tuning": dict(TUNING),
                            "mid0": 300, "tok0": 77, "steps": json.loads(json.dumps(steps)), "horizon": None})

    def mk(iface, steps, **kw):
        d = {"iface": iface, "con": False, "start": "resp", "delay": 0, "tuning": dict(TUNING), "mid0": 300, "tok0": 77,
             "steps": json.loads(json.dumps(steps)), "horizon": None}
        d.update(kw)
        out.append(d)

    # block-wise notification bodies: what arrives while the next block of 6 is outstanding
    b6 = dict(n6, b2=[0, True, 0], plen=16)
    b7 = dict(at(n7, 2 * S + 100), b2=[0, True, 0], plen=16)
    n8 = {"at": 2 * S + 200, "do": "rx", "ty": "NON", "code": 69, "tok": {"of": 1}, "mid": 9004, "observe": 8}
    late = [{"delay": 500, "more": False, "plen": 10}]
    for iface in ("bwiter", "bwcb"):
        for con in (False, True):
            op = opening_steps(con, dict(first, ty="NON"))
            for o in op:
                o.pop("r", None)
            mk(iface, op + [b6, at(n7, 2 * S + 100)], fetch=late, con=con)                      # a fresher one
            mk(iface, op + [b6, at(n7, 2 * S + 100), at(n8, 2 * S + 200)], fetch=late, con=con)   # two: only the latest survives
            mk(iface, op + [b6, at(fin, 2 * S + 100)], fetch=late, con=con)                     # the terminating response
            mk(iface, op + [b6, {"at": 2 * S + 100, "do": "err"}], fetch=late, con=con)         # transport failure
            mk(iface, op + [b6, b7, n8], fetch=[{"delay": 500, "more": True, "plen": 16}, {"delay": 300, "more": False, "plen": 3}] + late, con=con)
            mk(iface, op + [b6, at(n7, 3 * S)], fetch=[{"delay": 5, "more": False, "plen": 10}], con=con)   # completed in time
        mk(iface, [dict(first, b2=[0, True, 0], plen=16), at(n6, 100), at(n7, 200)], fetch=late)    # block-wise first response
        mk(iface, [dict(first, b2=[0, True, 0], plen=16), at(fin, 100)], fetch=late)
    # every success code may carry an Observe option
    codes = [dict(first, code=68), dict(n6, code=65), dict(n7, code=66), dict(at(n8, 3 * S + 5), code=69)]
    for iface in ("cb", "iter", "bwiter", "bwcb"):
        mk(iface, codes)
    # late registration: what arrived before the iteration started comes out through the replay
    for iface in ("iter", "bwiter"):
        mk(iface, [first, at(n6, 100), at(n7, 3 * S)], start="late", start_delay=S)
        mk(iface, [first, at(n6, 100), at(n7, 200)], start="late", start_delay=S)
        mk(iface, [first, at(n6, 100), at(fin, 200)], start="late", start_delay=S)
        mk(iface, [{"at": 16, "do": "burst", "rx": [first, at(n6, 16)]}], start="resp")
    # other requests while the observation lives, the token counter crossing 2^8 / 2^16 and coming round
    for iface in ("cb", "iter", "bwcb"):
        for wrap, tok0 in ((65536, 65533), (256, 253), (65536, 65535), (65536, 40000)):
            for back in (1, 2):
                side = [{"at": S + j, "do": "submit", "q": 2 + j, "con": bool(j % 2), "reply": {"delay": 3, "ty": "ACK", "code": 69}} for j in range(3)]
                mk(iface, [first, at(n6, 100), {"at": S, "do": "burn", "n": wrap - back}] + side + [at(n7, 3 * S)], tok0=tok0)
    return out


def directed_big_wrap():
    """Thorough tier: the token counter is taken once around 2^24 (16.7 million reservations)."""
    first = {"at": 16, "do": "rx", "ty": "NON", "code": 69, "tok": {"of": 1}, "mid": 9000, "observe": 5}
    n7 = {"at": 3 * S, "do": "rx", "ty": "NON", "code": 69, "tok": {"of": 1}, "mid": 9002, "observe": 7}
    side = [{"at": S + j, "do": "submit", "q": 2 + j, "con": False, "reply": {"delay": 3, "ty": "NON", "code": 69}} for j in range(3)]
    return [{"iface": "cb", "con": False, "start": "resp", "delay": 0, "tuning": dict(TUNING), "mid0": 300, "tok0": 65534,
             "steps": [first, {"at": S, "do": "burn", "n": (1 << 24) - 2}] + side + [n7], "horizon": None}]


# ---------------------------------------------------------------- signatures, statistics
def iface_of(sched):
    return sched.get("iface", "cb")


def scenario(sched, events, pos):
    """Normalised shape of the history up to the failing event (1-based pos)."""
    phase, signalled, prev_rx_t, burst = "wait", "none", None, False
    for e in events[:pos]:
        k = e["k"]
        if k == "rx" and e["cls"] == "resp" and e["q"]:
            if phase == "wait":
                phase = "live" if e["obs"] >= 0 else "over:notobs"
            elif phase == "live" and e["obs"] < 0:
                phase = "over:final"
                burst = prev_rx_t == e["t"]
            prev_rx_t = e["t"]
        elif k == "err" and phase in ("wait", "live"):
            phase = "over:net-before-response" if phase == "wait" else "over:net"
        elif k == "done" and phase == "wait" and e["cls"] in ("net", "timeout"):
            phase = "over:net-before-response"
        elif k == "obsend" and signalled == "none":
            signalled = e["x"]
    tag = "%s|%s|signalled=%s" % (iface_of(sched), phase, signalled)
    if "iface" in sched and phase == "over:final":
        tag += "|" + ("consumer-busy" if sched.get("delay") else "back-to-back" if burst else "consumer-ready")
    return tag


def stats(traces):
    c = {"arrivals": 0, "handed_over": 0, "handed_over_by_128s_rule_only": 0, "not_handed_over": 0,
         "difference_exactly_2^23": 0, "wrap_around_accepts": 0, "gap_exactly_128s": 0, "ends": {}, "late_con_rst": 0}
    for tr in traces:
        v1 = t1 = None
        over = False
        pending = None
        for e in tr:
            if e["k"] == "rx" and e["cls"] == "resp" and e["q"]:
                if over:
                    continue
                if e["obs"] < 0:
                    over = True
                    continue
                if v1 is None:
                    v1, t1 = e["obs"], e["t"]
                    continue
                c["arrivals"] += 1
                pending = e
                if abs(e["obs"] - v1) == HALF:
                    c["difference_exactly_2^23"] += 1
                if e["t"] == t1 + 128 * S:
                    c["gap_exactly_128s"] += 1
            elif e["k"] == "notif" and pending is not None and e["obs"] == pending["obs"] and e["obs"] >= 0:
                c["handed_over"] += 1
                v2, t2 = pending["obs"], pending["t"]
                serial = (v1 < v2 and v2 - v1 < HALF) or (v1 > v2 and v1 - v2 > HALF)
                if not serial:
                    c["handed_over_by_128s_rule_only"] += 1
                elif v1 > v2:
                    c["wrap_around_accepts"] += 1
                v1, t1 = v2, t2
                pending = None
            elif e["k"] == "obsend":
                c["ends"][e["x"]] = c["ends"].get(e["x"], 0) + 1
                over = True
            elif e["k"] == "err":
                over = True
            elif e["k"] == "tx" and e["ty"] == "RST":
                c["late_con_rst"] += 1
    c["not_handed_over"] = c["arrivals"] - c["handed_over"]
    return c


def judge(rep, wd, scheds, results):
    for s, res in zip(scheds, results):
        if "error" in res:
            raise MachineryError("driver failed on schedule %s\n%s" % (json.dumps(s)[:400], res["error"]))
    traces = [r["events"] for r in results]
    verdicts, _ = tracecheck.validate(wd, "ObserveClientTrace", "ObserveClientTrace.cfg.tmpl", {}, traces)
    bad = set()
    for i, v in enumerate(verdicts):
        for full in sorted(v["bad"]):
            clause = full.split("/")[0]
            pos = v["at"][full]
            e = traces[i][pos - 1]
            bad.add(i)
            rep.violation(
                clause,
                "%s|%s" % (full, scenario(scheds[i], traces[i], pos)),
                "clause %s false at event %d (%s t=%s obs=%s x=%s) of a recorded execution of %d events on interface %s"
                % (full, pos, e["k"], e["t"], e["obs"], e["x"] or e["cls"], len(traces[i]), iface_of(scheds[i])),
                {"schedule": scheds[i], "events": traces[i], "meta": results[i]["meta"]},
            )
    # the clauses do not speak about exceptions escaping into the event loop or ERROR-level log records; they are
    # not what the library does on a healthy run either: reported (DRIFT), grouped by text
    noise = {}
    for i, res in enumerate(results):
        for txt in res["meta"].get("loop_exceptions", []) + res["meta"].get("log_errors", []):
            noise.setdefault(str(txt)[:140], []).append(i)
    for txt, where in sorted(noise.items()):
        if not all(i in bad for i in where):
            rep.add_drift("loop exception / logged error in %d recorded execution(s) (first on interface %s): %s"
                          % (len(where), iface_of(scheds[where[0]]), txt))
    return traces, bad


def work(rep, args):
    quick = args.tier == "quick"
    rng = random.Random(args.seed * 7919 + 7)
    with tlc.Workdir() as wd:
        if args.replay:
            data = json.load(open(args.replay))
            s = data["replay"]["schedule"]
            res = run_all([s])
            traces, bad = judge(rep, wd, [s], res)
            try:
                prev = json.load(open(os.path.join(runner.EVIDENCE_DIR, "C07.json")))
                rep.coverage.update(prev.get("coverage", {}))
                rep.assumptions += prev.get("assumptions", [])
            except (OSError, ValueError):
                rep.coverage.update({"states": 0, "transitions": 0, "traces_validated_against_impl": 1, "samples": [s]})
            rep.coverage["last_replay"] = {"file": args.replay, "clauses_false": sorted({v.clause for v in rep.violations})}
            return

        ncodes = "68, 69" if quick else "65, 66, 67, 68, 69"
        consts = cb_consts(5 if quick else 7, ncodes)
        consts_bw = bw_consts(3 if quick else 4, "68, 69")
        nsim = 240 if quick else 3000
        nsim_bw = 120 if quick else 1500
        ncb = 700 if quick else 12000
        nlossy = 560 if quick else 9000

        # four TLC runs side by side: exhaustive and -simulate, for the plain Request and for BlockwiseRequest
        wd.write("OC_cb.cfg", CFG % dict(consts, extra=INVS))
        wd.write("OC_bw.cfg", CFG % dict(consts_bw, extra=INVS))
        wd.write("OC_simcb.cfg", CFG % dict(cb_consts(6, "65, 66, 67, 68, 69"), extra=""))
        wd.write("OC_simbw.cfg", CFG % dict(bw_consts(5, "65, 68, 69"), extra=""))
        for d in ("simcb", "simbw"):
            os.makedirs(wd.file(d))
        jobs = {
            "cb": lambda: tlc.run(wd, "ObserveClient.tla", "OC_cb.cfg", timeout=1500),
            "bw": lambda: tlc.run(wd, "ObserveClient.tla", "OC_bw.cfg", timeout=1500),
            "simcb": lambda: tlc.run(wd, "ObserveClient.tla", "OC_simcb.cfg", workers=1, timeout=900,
                                     simulate="file=%s/tr,num=%d" % (wd.file("simcb"), nsim), depth=10, seed=args.seed + 1),
            "simbw": lambda: tlc.run(wd, "ObserveClient.tla", "OC_simbw.cfg", workers=1, timeout=900,
                                     simulate="file=%s/tr,num=%d" % (wd.file("simbw"), nsim_bw), depth=14, seed=args.seed + 2),
        }
        with ThreadPoolExecutor(4) as ex:
            futs = {k: ex.submit(f) for k, f in jobs.items()}
            tl = {k: f.result() for k, f in futs.items()}
        for k, r in tl.items():
            tlc.need_ok_run(r, "ObserveClient " + k)
            if r.violated:
                raise MachineryError("the ObserveClient model (%s) itself violates %s:\n%s" % (k, r.violated, r.out[-1500:]))
        mc, mcbw = tl["cb"], tl["bw"]
        behaviours = tlc.read_sim_traces(os.path.join(wd.file("simcb"), "tr")) + tlc.read_sim_traces(os.path.join(wd.file("simbw"), "tr"))
        model = [behaviour_to_schedule(b) for b in behaviours]
        model = [(s, e) for s, e in model if e]
        if not model:
            raise MachineryError("TLC simulation produced no behaviours")

        cb = directed_cb() + [random_cb_schedule(rng) for _ in range(ncb)]
        lossy = directed_lossy() + ([] if quick else directed_big_wrap()) + [random_lossy_schedule(rng) for _ in range(nlossy)]
        scheds = [s for s, _ in model] + cb + lossy
        results = run_all(scheds)
        traces, bad = judge(rep, wd, scheds, results)

        ndrift = 0
        for i, (s, exp) in enumerate(model):
            d = compare(exp, results[i]["events"])
            if d:
                ndrift += 1
                if i not in bad:  # a violated clause already explains the difference
                    rep.add_drift("model behaviour not reproduced by implementation: " + d)

        lossy_traces = traces[len(model) + len(cb):]
        per_iface = {}
        for s in lossy:
            per_iface[s["iface"]] = per_iface.get(s["iface"], 0) + 1
        st = stats([t for s_, t in zip(scheds, traces) if iface_of(s_) == "cb"])
        if not rep.violations:
            for key in ("handed_over_by_128s_rule_only", "difference_exactly_2^23", "wrap_around_accepts", "gap_exactly_128s", "not_handed_over", "late_con_rst"):
                if not st[key]:
                    raise MachineryError("vacuous run: no case of %s among %d recorded arrivals" % (key, st["arrivals"]))
        rep.coverage.update(
            {
                "states": mc.distinct + mcbw.distinct,
                "transitions": mc.generated + mcbw.generated,
                "depth": max(mc.depth, mcbw.depth),
                "mc_plain_request": dict(consts, states=mc.distinct, transitions=mc.generated, depth=mc.depth),
                "mc_blockwise_request": dict(consts_bw, states=mcbw.distinct, transitions=mcbw.generated, depth=mcbw.depth),
                "exhaustive": True,
                "traces_validated_against_impl": len(traces),
                "schedules_from_model_behaviours": len(model),
                "schedules_from_blockwise_model_behaviours": sum(1 for s_, _ in model if "iface" in s_),
                "model_behaviours_reproduced_exactly": len(model) - ndrift,
                "schedules_callback_interface_full_24bit": len(cb),
                "schedules_lossy_interfaces": per_iface,
                "lossy_consumer_busy": sum(1 for s in lossy if s["delay"]),
                "lossy_back_to_back_bursts": sum(1 for s in lossy for x in s["steps"] if x["do"] == "burst"),
                "lossy_late_registration": sum(1 for s in lossy if s.get("start") == "late"),
                "schedules_with_blockwise_notifications": sum(1 for s in lossy if any(x.get("b2") for st_ in s["steps"] for x in (st_.get("rx", [st_]) if st_["do"] == "burst" else [st_]))),
                "block_requests_answered": sum(r["meta"].get("block_fetches_answered", 0) for r in results),
                "schedules_with_other_requests": sum(1 for s in scheds if sum(1 for x in s["steps"] if x["do"] == "submit") > ("iface" not in s)),
                "schedules_crossing_token_2^16_or_2^8": sum(1 for s in scheds if any(x["do"] == "burn" for x in s["steps"])),
                "tokens_reserved_and_released": sum(r["meta"].get("tokens_burned", 0) for r in results),
                "notification_codes_seen": sorted({e["code"] for t in traces for e in t if e["k"] == "notif" and e["obs"] >= 0}),
                "callback_interface_statistics": st,
                "iterator_items_seen": sum(1 for t in lossy_traces for e in t if e["k"] == "notif"),
                "traces_with_a_false_clause": len(bad),
                "samples": [
                    {"schedule": model[0][0], "events": [project(e) for e in traces[0]][:16]},
                    {"schedule": cb[0], "events": [project(e) for e in traces[len(model)]][:16]},
                    {"schedule": lossy[0], "events": [project(e) for e in lossy_traces[0]][:16]},
                ],
                "checker_cmd": "tlc ObserveClient.tla (exhaustive + -simulate); tlc ObserveClientTrace.tla on recorded traces",
            }
        )
        rep.assumptions += [
            "virtual-time event loop (aiocoap.protocol.time redirected to it) and fake UDP socket stand in for the OS",
            "notifications carry fresh message IDs; datagram duplicates (same message ID) are injected at the same instant only, where the message layer's deduplication and the freshness rule agree",
            "non-2.xx responses never carry an Observe option; Observe values stay below 2^24; every 2.xx code (2.01..2.05) may carry one",
            "other requests next to a live observation: up to 3 per schedule, plus 2^16 (2^8) minus a few token reservations through TokenManager.next_token (thorough: once 2^24 - 2) standing for that many short-lived requests; a token allocator that hands the observation's token out again only after more than that many requests, or only in an order not of this shape, is not detected",
            "the peer answers every request for a further block of a block-wise notification within 3 s (before the request would give up); every other request on the context is answered",
            "on the iterator / BlockwiseRequest only what a latest-value queue can guarantee is demanded: items are an in-order subsequence of the RFC-accepted arrivals, the latest one comes out while the observation lives, a final response comes out before the end, one end, nothing after it",
            "application-side cancellation and context shutdown during an observation are outside the statement",
        ]


if __name__ == "__main__":
    sys.exit(runner.main("C07", work))
