"""C13 mutation catalogue: (property, name, [(file, old, new)])."""

OS = "aiocoap/oscore.py"

MUTATIONS = [
    (
        "C13",
        "persist-one-too-late",
        [(OS, "        if self.sender_sequence_number > self.sequence_number_persisted:\n", "        if self.sender_sequence_number > self.sequence_number_persisted + 1:\n")],
    ),
    (
        "C13",
        "store-bound-before-advancing-it",
        [
            (OS, "            self.sequence_number_persisted += self.sequence_number_chunksize\n\n", "\n"),
            (
                OS,
                "            self._store()\n\n            # The = case would only happen",
                "            self._store()\n            self.sequence_number_persisted += self.sequence_number_chunksize\n\n            # The = case would only happen",
            ),
        ],
    ),
    (
        "C13",
        "load-resumes-one-below",
        [(OS, '            self.sender_sequence_number = int(sequence["next-to-send"])\n', '            self.sender_sequence_number = max(0, int(sequence["next-to-send"]) - 1)\n')],
    ),
    (
        "C13",
        "window-change-not-stored",
        [(OS, "            self.replay_window_persisted = False\n            self._store()\n", "            self.replay_window_persisted = False\n")],
    ),
    ("C13", "max-seqno-test-removed", [(OS, "        if retval >= MAX_SEQNO:\n", "        if False:\n")]),
    (
        "C13",
        "unknown-window-loaded-as-empty",
        [
            (
                OS,
                "                # Echo recovery\n                self.replay_window_persisted = False\n",
                "                # Echo recovery\n                self.recipient_replay_window.initialize_empty()\n                self.replay_window_persisted = False\n",
            )
        ],
    ),
    (
        "C13",
        "clean-stop-stores-empty-window",
        [(OS, '            data["received"] = self.recipient_replay_window.persist()\n', '            data["received"] = {"index": 0, "bitfield": 0}\n')],
    ),
    (
        # independently seeded change C13-seed3: a fast path of ReplayWindow.strike_out for numbers beyond
        # index + 2*size - 2 that loses the strike_out_callback (= _replay_window_changed: "unknown" on disk)
        "C13",
        "strike-out-past-window-skips-callback",
        [
            (
                OS,
                "        if overshoot > 0:\n"
                "            self._index += overshoot\n"
                "            self._bitfield >>= overshoot\n"
                '        assert self.is_valid(number), "Sequence number was not valid before strike-out"\n'
                "        self._bitfield |= 1 << (number - self._index)\n"
                "\n"
                "        self.strike_out_callback()\n",
                "        if overshoot >= self._size:\n"
                "            # Jumped past the whole window: nothing of the old state survives\n"
                "            self._index = number - self._size + 1\n"
                "            self._bitfield = 1 << (self._size - 1)\n"
                "        else:\n"
                "            if overshoot > 0:\n"
                "                self._index += overshoot\n"
                "                self._bitfield >>= overshoot\n"
                "            assert self.is_valid(number), (\n"
                '                "Sequence number was not valid before strike-out"\n'
                "            )\n"
                "            self._bitfield |= 1 << (number - self._index)\n"
                "\n"
                "            self.strike_out_callback()\n",
            )
        ],
    ),
    # white-box adversary (notes/adversary/C13_miss1.md, C13_miss2.md): the other direction of the context
    ("C13", "adv-plain-response-initialises-lost-window", [("@patch", "notes/adversary/C13_miss1.diff", 3)]),
    ("C13", "adv-echo-error-reuses-request-nonce", [("@patch", "notes/adversary/C13_miss2.diff", 3)]),
    (
        "C13",
        "exhaustion-wraps-around",
        [(OS, '            raise ContextUnavailable("Sequence number too large, context is exhausted.")\n', "            self.sender_sequence_number = retval = 0\n")],
    ),
]

CONTROLS = [
    # safe: a response with a partial IV of its own no longer recovers an unknown window (no progress, no harm)
    (
        "C13",
        "response-piv-does-not-recover-window",
        [(OS, "                if seqno is not None:\n                    self.recipient_replay_window.initialize_from_freshlyseen(seqno)\n", "                pass\n")],
    ),
    # wasteful but safe: no response ever re-uses the request's nonce, each takes a number of the context's own
    ("C13", "responses-never-reuse-request-nonce", [(OS, "                    can_reuse_nonce=replay_error is None,\n", "                    can_reuse_nonce=False,\n")]),
    # the fast path of C13-seed3 done right: same window state, callback kept
    (
        "C13",
        "strike-out-past-window-fast-path-keeps-callback",
        [
            (
                OS,
                "        if overshoot > 0:\n"
                "            self._index += overshoot\n"
                "            self._bitfield >>= overshoot\n"
                '        assert self.is_valid(number), "Sequence number was not valid before strike-out"\n'
                "        self._bitfield |= 1 << (number - self._index)\n",
                "        if overshoot >= self._size:\n"
                "            self._index = number - self._size + 1\n"
                "            self._bitfield = 0\n"
                "        elif overshoot > 0:\n"
                "            self._index += overshoot\n"
                "            self._bitfield >>= overshoot\n"
                '        assert self.is_valid(number), "Sequence number was not valid before strike-out"\n'
                "        self._bitfield |= 1 << (number - self._index)\n",
            )
        ],
    ),
    # wasteful but safe: the clean stop keeps the chunk bound instead of the exact next number
    ("C13", "clean-stop-keeps-chunk-bound", [(OS, "        self.sequence_number_persisted = self.sender_sequence_number\n        self._store()\n", "        self._store()\n")]),
    # safe: a clean stop that does not vouch for the window forces an Echo round trip after the restart
    ("C13", "clean-stop-stores-unknown-window", [(OS, "        self.replay_window_persisted = True\n        self.sequence_number_persisted = self.sender_sequence_number\n", "        self.sequence_number_persisted = self.sender_sequence_number\n")]),
    # different, still admissible chunk growth
    ("C13", "chunk-grows-by-three", [(OS, "                self.sequence_number_chunksize * 2, self.sequence_number_chunksize_limit\n", "                self.sequence_number_chunksize * 3, self.sequence_number_chunksize_limit\n")]),
]
