"""C05 mutation catalogue: (property, name, [(file, old, new)]).

The pinned tree violates C05 by itself (notes/C05.md: a final Block2 block sent
out of sequence in answer to the complete request is returned as the whole
body), which would make every mutation look "caught" and every control a
"false alarm".  As long as /repo does not contain the repair, every entry
first applies the proposed repair and then its own change; the control
"proposed-fix-only" shows that the repaired tree is silent."""

PR = "aiocoap/protocol.py"
MSG = "aiocoap/message.py"
OT = "aiocoap/optiontypes.py"

_FIX = [
    (
        PR,
        "        if (\n            initial_response.opt.block2 is None\n            or initial_response.opt.block2.more is False\n        ):\n"
        "            initial_response.opt.block2 = None\n            return initial_response\n",
        "        if initial_response.opt.block2 is None:\n            return initial_response\n\n"
        "        # The first block must be the one that was asked for (block 0 unless\n"
        "        # the request itself carried a Block2 option): a final block sent out\n"
        "        # of sequence must not be passed on as if it were the complete body.\n"
        "        requested_block2 = request_to_repeat.opt.block2\n"
        "        expected_start = requested_block2.start if requested_block2 is not None else 0\n"
        "        if initial_response.opt.block2.start != expected_start:\n"
        '            log.error("Error assembling blockwise response (unexpected first block)")\n'
        "            raise error.UnexpectedBlock2()\n\n"
        "        if initial_response.opt.block2.more is False:\n"
        "            initial_response.opt.block2 = None\n            return initial_response\n",
    ),
]


def _fix():
    """Only the repair the tree does not have yet."""
    out = []
    for f, old, new in _FIX:
        src = open("/repo/" + f).read()
        if src.count(old) == 1 and new not in src:
            out.append((f, old, new))
    return out


FIX = _fix()

MUTATIONS = [
    ("C05", "cursor-not-scaled-on-size-reduction", FIX + [(PR, "                block_cursor *= 2\n", "                block_cursor += 1\n")]),
    ("C05", "more-flag-set-on-final-block", FIX + [(MSG, "        more = True if end < len(self.payload) else False\n", "        more = True if end <= len(self.payload) else False\n")]),
    ("C05", "etag-comparison-removed", FIX + [(MSG, "        if next_block.opt.etag != self.opt.etag:\n", "        if False:\n")]),
    ("C05", "block1-number-mismatch-unchecked", FIX + [(PR, "            if block1.block_number != current_block1.opt.block1.block_number:\n", "            if False:\n")]),
    ("C05", "more-at-end-of-body-unchecked", FIX + [(PR, "                if block1.more or blockresponse.code == CONTINUE:\n", "                if False:\n")]),
    ("C05", "block2-offset-check-removed", FIX + [(MSG, "        if block2.start != len(self.payload):\n            # Does not need", "        if False:\n            # Does not need")]),
    ("C05", "reduced-to-shifts-one-too-far", FIX + [(OT, "                min(self.size_exponent, 6) - maximum_exponent\n            )", "                min(self.size_exponent, 6) - maximum_exponent + 1\n            )")]),
    ("C05", "block1-size-reduction-ignored", FIX + [(PR, "            while block1.size_exponent < size_exp:\n", "            while False and block1.size_exponent < size_exp:\n")]),
    ("C05", "response-block-prepended", FIX + [(MSG, "        self.payload += next_block.payload\n        self.opt.block2 = block2\n", "        self.payload = next_block.payload + self.payload\n        self.opt.block2 = block2\n")]),
    # seeded/C05-seed2: a successful acknowledgement with the more-flag cleared on a block that is not the last one
    # (a server that enacts every block on its own) is taken as the final response; caught only with the
    # stateless / mixed acknowledgement styles of the reference server
    (
        "C05",
        "intermediate-block1-ack-taken-as-final",
        FIX + [(PR,
                "            else:\n                if not blockresponse.code.is_successful():\n                    break\n"
                "                else:\n                    # ignoring (discarding) the successful intermediate result, waiting for a final one\n"
                "                    continue\n",
                "            elif blockresponse.code != CONTINUE:\n                # final response ahead of the end of the body\n                break\n")],
    ),
    # seeded/C05-seed3: is_valid_for_payload_size collapsed to "payloadsize % size == 0" for non-final blocks: a Block2
    # follow-up block with M=1 and no payload is accepted and the same block asked for again (for ever if the server
    # keeps doing it); caught only with the b2empty fault (once / repeated) of the reference server
    (
        "C05",
        "empty-nonfinal-block2-accepted",
        FIX + [(OT,
                "            if self.is_bert:\n                if self.more:\n                    return payloadsize % 1024 == 0\n                return True\n"
                "            else:\n                if self.more:\n                    return payloadsize == self.size\n                else:\n"
                "                    return payloadsize <= self.size\n",
                "            if not self.is_bert and payloadsize > self.size:\n                return False\n"
                "            return not self.more or payloadsize % self.size == 0\n")],
    ),
    ("C05", "extract-block-start-at-half-size", FIX + [(MSG, "            size = 2 ** (size_exp + 4)\n            start = number * size\n", "            size = 2 ** (size_exp + 4)\n            start = number << (size_exp + 3)\n")]),
]

# changes found by a white-box adversary (notes/adversary/C05_miss*.md); silent when found, caught since the ETag
# status of both representations is chosen independently, wrong block numbers have a direction (b1numlo, b2numlo,
# b2prev) and clause C05_SameRequest looks at method and options of every request
A = "notes/adversary/"
MUTATIONS += [
    ("C05", "adv-etag-compared-only-when-both-present", FIX + [("@patch", A + "C05_miss1.diff", 3)]),
    ("C05", "adv-block2-number-too-low-appended", FIX + [("@patch", A + "C05_miss2.diff", 3)]),
    ("C05", "adv-block1-ack-number-too-low-accepted", FIX + [("@patch", A + "C05_miss2b.diff", 3)]),
    ("C05", "adv-block2-followups-sent-as-get", FIX + [("@patch", A + "C05_miss3.diff", 3)]),
    ("C05", "adv-block2-followups-drop-query", FIX + [("@patch", A + "C05_miss3b.diff", 3)]),
]

CONTROLS = [
    ("C05", "proposed-fix-only", FIX + [(PR, "        # FIXME this can probably be deduplicated against BlockwiseRequest\n", "        # (this can probably be deduplicated against BlockwiseRequest)\n")]),
    # a payload of exactly one block is sent with Block1 (0, last, szx) instead of unfragmented: different on the
    # wire, every clause still holds (the model does not predict it: DRIFT only)
    ("C05", "exact-block-size-payload-sent-as-single-block", FIX + [(PR, "                or len(app_request.payload) > fragmentation_threshold\n", "                or len(app_request.payload) >= fragmentation_threshold\n")]),
    # size exponent 6 through the BERT branch: 1024 * (1124 // 1024) is the same block size
    ("C05", "szx6-through-bert-arithmetic", FIX + [(MSG, "        if size_exp == 7:\n            start = number * 1024\n", "        if size_exp >= 6:\n            start = number * 1024\n")]),
]

# ---- second extension (notes/C05.md): error responses in mid-transfer, ETag on some blocks / shrinking representation,
# concurrent transfers, lossy networks, Block1 + Block2 combined, servers that answer above the requested size
TM = "aiocoap/tokenmanager.py"
MM = "aiocoap/messagemanager.py"
MUTATIONS += [
    # an error response (4.xx / 5.xx, also the 4.00 of a representation that shrank) to a Block2 continuation request:
    # the blocks assembled so far are returned under the 2.xx of the first block -> a truncated body presented as success
    ("C05", "error-to-block2-followup-returns-partial-body", FIX + [(PR,
        "accepting single response.\"\n                )\n                return last_response\n",
        "accepting single response.\"\n                )\n                return assembled_response\n")]),
    # the diagnostic payload of an error response is dropped on the way to the caller
    ("C05", "error-response-payload-dropped", FIX + [(PR,
        "        if initial_response.opt.block2 is None:\n            return initial_response\n",
        "        if initial_response.opt.block2 is None:\n            if not initial_response.code.is_successful():\n"
        "                initial_response.payload = b\"\"\n            return initial_response\n")]),
    # the token source hands out the same token again while it is in use: concurrent transfers (and late duplicates)
    # get each other's responses or starve
    ("C05", "token-handed-out-twice", FIX + [(TM, "        self._token = (self._token + 1) % (2**64)\n", "        self._token = (self._token + 0) % (2**64)\n")]),
    # the Block1 cursor lives in the class instead of the running transfer: concurrent uploads move each other's cursor
    ("C05", "block1-cursor-shared-between-transfers", FIX + [
        (PR, "        block_cursor = 0\n\n        while True:\n", "        block_cursor = 0\n        cls._cursor = 0\n\n        while True:\n"),
        (PR, "            blockresponse = await blockrequest.response\n\n            # store for future blocks",
             "            blockresponse = await blockrequest.response\n            block_cursor = cls._cursor\n\n            # store for future blocks"),
        (PR, "            while block1.size_exponent < size_exp:\n                block_cursor *= 2\n                size_exp -= 1\n",
             "            while block1.size_exponent < size_exp:\n                block_cursor *= 2\n                size_exp -= 1\n            cls._cursor = block_cursor\n"),
    ]),
    # a lost datagram is never retransmitted: the transfer neither completes nor fails
    ("C05", "lost-block-never-retransmitted", FIX + [(MM, "            self._retransmit(message, timeout, retransmission_counter)\n", "            pass\n")]),
    # Block1 + Block2 combined: the continuation requests after an upload still carry the Block1 option of the last block
    ("C05", "block2-followups-keep-block1-option", FIX + [(MSG, "            block2=blockopt,\n            block1=None,\n", "            block2=blockopt,\n")]),
    # a server that names a larger Block1 size than the client used is followed upwards
    ("C05", "block1-size-grows-with-the-server", FIX + [(PR,
        "            while block1.size_exponent < size_exp:\n                block_cursor *= 2\n                size_exp -= 1\n",
        "            while block1.size_exponent < size_exp:\n                block_cursor *= 2\n                size_exp -= 1\n"
        "            while block1.size_exponent > size_exp and block_cursor % 2 == 0:\n                block_cursor //= 2\n                size_exp += 1\n")]),
    # seeded/C05-seed4: contiguity of a Block2 block tested on block numbers (floor division) instead of byte offsets: a
    # "restart bigger" answer (larger size exponent, NUM = floor(offset / larger size)) is appended -> duplicated bytes
    ("C05", "seed4-block2-contiguity-by-block-number", FIX + [("@patch", "seeded/C05-seed4/patch.diff", 2)]),
]

CONTROLS += [
    # admissible reactions where the statement leaves the choice:
    # a server answering above the requested Block2 size is refused (error instead of following it)
    ("C05", "server-size-growth-refused", FIX + [(MSG,
        "        if block2.start != len(self.payload):\n            # Does not need",
        "        if block2.size_exponent > self.opt.block2.size_exponent:\n            raise error.UnexpectedBlock2(\"Block size grew\")\n"
        "        if block2.start != len(self.payload):\n            # Does not need")]),
    # an error response to a Block2 continuation request ends the request with an exception instead of being returned
    ("C05", "error-to-block2-followup-raised", FIX + [(PR,
        "            if last_response.opt.block2 is None:\n                log.warning(\n",
        "            if last_response.opt.block2 is None and not last_response.code.is_successful():\n"
        "                raise error.UnexpectedBlock2(\"error response in mid-transfer\")\n"
        "            if last_response.opt.block2 is None:\n                log.warning(\n")]),
]
