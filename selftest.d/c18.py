TM = "aiocoap/tokenmanager.py"
MM = "aiocoap/messagemanager.py"

MUTATIONS = [
    ("C18", "shutdown-does-not-fail-outgoing", [(TM, "            request = self.outgoing_requests.pop(key)\n            request.add_exception(error.LibraryShutdown())", "            request = self.outgoing_requests.pop(key)")]),
    ("C18", "retransmission-timers-not-cancelled", [(MM, "            # and its shutdown will take care of these things\n            cancellable.cancel()", "            # and its shutdown will take care of these things\n            pass")]),
    ("C18", "request-after-shutdown-not-short-circuited", [(TM, "        if self.outgoing_requests is None:\n            request.add_exception(error.LibraryShutdown())\n            return\n", "        if self.outgoing_requests is None:\n            self.outgoing_requests = {}\n")]),
    ("C18", "empty-ack-timers-left-armed", [(MM, "        for _mid, empty_ack_timeout in self._piggyback_opportunities.values():\n            empty_ack_timeout.cancel()\n", "        for _mid, empty_ack_timeout in self._piggyback_opportunities.values():\n            pass\n")]),
    ("C18", "handlers-not-cancelled", [(TM, "            (_, stop) = self.incoming_requests.pop(key)\n            # This cancels them, not sending anything.", "            (_, stop) = self.incoming_requests.pop(key)\n            stop = lambda: None\n            # This cancels them, not sending anything.")]),
]

CONTROLS = [
    ("C18", "shutdown-order-of-tables", [(TM, "        while self.incoming_requests:\n            key = next(iter(self.incoming_requests.keys()))", "        while self.incoming_requests:\n            key = list(self.incoming_requests.keys())[-1]")]),
]
