"""Mutation catalogue for C19 (file server containment): (property, name, [(file, old, new)]).

Every anchor exists both in the pinned tree and in a tree that carries the
proposed fix of request_to_localpath (notes/C19.md), so the catalogue keeps
working after the fix has been committed."""

FS = "aiocoap/cli/fileserver.py"

MUTATIONS = [
    # request_to_localpath lets ".." through: GET ("..", "a") reads the root's sibling
    ("C19", "dotdot-test-removed", [(FS, 'p in (".", "..")', 'p in (".",)')]),
    # ... lets embedded slashes through: GET ("../a",) reads the root's sibling
    ("C19", "slash-test-removed", [(FS, '"/" in p or p in', "p in")]),
    # DELETE works although the server was started without --write
    ("C19", "delete-ignores-write-flag", [(FS, "    async def render_delete(self, request):\n        if not self.write:\n            return aiocoap.Message(code=codes.FORBIDDEN)\n", "    async def render_delete(self, request):\n")]),
    # PUT likewise
    ("C19", "put-ignores-write-flag", [(FS, "    async def render_put(self, request):\n        if not self.write:\n            return aiocoap.Message(code=codes.FORBIDDEN)\n", "    async def render_put(self, request):\n")]),
    # block read starts one byte late
    ("C19", "block-read-offset-off-by-one", [(FS, "f.seek(block_in.start)", "f.seek(block_in.start + 1)")]),
    # 'more' also set when the file ends exactly at the block boundary
    ("C19", "block-more-flag->=", [(FS, "len(data) > block_in.size, block_in.size_exponent", "len(data) >= block_in.size, block_in.size_exponent")]),
    # PUT spools next to the root instead of next to the target (no net change of the tree, seen only by the interception)
    ("C19", "put-spool-file-beside-root", [(FS, "tempfile.NamedTemporaryFile(dir=path.parent, delete=False)", "tempfile.NamedTemporaryFile(dir=self.root.parent, delete=False)")]),
]

# found by a white-box adversary (notes/adversary/C19_miss*.md); silent before the sibling `srv2`, the decorated
# dot components / judged NUL paths and the full method domain were added
MUTATIONS += [
    # containment decided by a string prefix: ("..", "srv2", "a") passes `normpath(local).startswith(str(root))`
    ("C19", "adv-string-prefix-containment", [("@patch", "notes/adversary/C19_miss1.diff", 3)]),
    # NUL bytes removed after the component filter: "..\0" becomes ".."
    ("C19", "adv-nul-stripped-after-filter", [("@patch", "notes/adversary/C19_miss2.diff", 3)]),
    # a new render_ipatch that writes without looking at the write flag
    ("C19", "adv-ipatch-writes-without-write-permission", [("@patch", "notes/adversary/C19_miss3.diff", 3)]),
]

CONTROLS = [
    # refused paths answered 4.04 instead of 4.00: still an error response
    ("C19", "invalid-path-answered-4.04", [(FS, "class InvalidPathError(error.ConstructionRenderableError):\n    code = codes.BAD_REQUEST", "class InvalidPathError(error.ConstructionRenderableError):\n    code = codes.NOT_FOUND")]),
    # reads one byte more than needed to decide 'more': same blocks, same flags
    ("C19", "block-read-ahead-two-bytes", [(FS, "data = f.read(block_in.size + 1)", "data = f.read(block_in.size + 2)")]),
    # ETag also covers the inode number
    ("C19", "etag-includes-inode", [(FS, "data = (stat.st_mtime_ns, stat.st_ctime_ns, stat.st_size)", "data = (stat.st_mtime_ns, stat.st_ctime_ns, stat.st_size, stat.st_ino)")]),
]
