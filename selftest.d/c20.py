"""Mutation catalogue for bin/selftest, property C20 (resource directory):
(property, name, [(file, old, new)])."""

RD = "aiocoap/cli/rd.py"

MUTATIONS = [
    ("C20", "constant-location", [(RD, "            if path not in self._by_path:\n                return path", "            if True:\n                return path")]),
    ("C20", "reregistration-allocates-new-location", [(RD, "            path = oldreg.path[len(self.entity_prefix) :]\n", "            path = self._new_pathtail()\n")]),
    ("C20", "update-does-not-refresh-lifetime", [(RD, "            else:\n                self.refresh_timeout()\n", "            else:\n                pass\n")]),
    ("C20", "delete-leaves-key-index-populated", [(RD, "            del self._by_key[key]\n", "            pass\n")]),
    ("C20", "grace-period-not-applied", [(RD, "            delay = self.lt + self.grace_period\n", "            delay = self.lt\n")]),
    ("C20", "put-keeps-old-links", [(RD, "        self._update_params(request)\n        self.reg.links = links\n", "        self._update_params(request)\n")]),
    ("C20", "lt-of-update-ignored", [(RD, "                actual_change = True\n                self.lt = set_lt\n", "                actual_change = True\n                self.lt = set_lt if is_initial else self.lt\n")]),
    ("C20", "expired-registration-stays", [(RD, "                await asyncio.sleep(delay)\n                callback()\n", "                await asyncio.sleep(delay)\n")]),
    ("C20", "update-base-not-following-source", [(RD, "            if not self.base_is_explicit and (is_initial or self.base != network_base):", "            if not self.base_is_explicit and is_initial:")]),
    # -- lookup filters and paging, link resolution, simple registration, long lifetimes
    ("C20", "revert-9c0403a-only-last-criterion-applied", [("@patch", "selftest.d/c20_revert_9c0403a.diff", 2)]),
    ("C20", "wildcard-matches-anywhere", [(RD, "                    def matches(x, start=search_value[:-1]):\n                        return x.startswith(start)\n                else:\n\n                    def matches(x, search_value=search_value):\n                        return x == search_value\n\n                if search_key in (\"if\", \"rt\"):\n\n                    def matches(x, original_matches=matches):\n                        return any(original_matches(v) for v in x.split())\n\n                # evaluated eagerly",
                                           "                    def matches(x, start=search_value[:-1]):\n                        return start in x\n                else:\n\n                    def matches(x, search_value=search_value):\n                        return x == search_value\n\n                if search_key in (\"if\", \"rt\"):\n\n                    def matches(x, original_matches=matches):\n                        return any(original_matches(v) for v in x.split())\n\n                # evaluated eagerly")]),
    ("C20", "page-offset-off-by-one", [(RD, "            candidates = candidates[int(page) * int(count) :]", "            candidates = candidates[int(page) * int(count) + (1 if int(page) else 0) :]")]),
    ("C20", "count-returns-one-more", [(RD, "            candidates = candidates[: int(count)]", "            candidates = candidates[: int(count) + 1]")]),
    ("C20", "resource-lookup-ignores-endpoint-parameters", [(RD, "                    if _link_matches(c, search_key, matches)\n                    or (\n                        search_key in e.registration_parameters", "                    if _link_matches(c, search_key, matches)\n                    or (\n                        False and search_key in e.registration_parameters")]),
    ("C20", "links-resolved-against-authority-only", [(RD, "                href = urljoin(self.base, link.href)\n", "                href = urljoin(urljoin(self.base, \"/\"), link.href)\n")]),
    ("C20", "adv-simple-registration-before-fetch", [("@patch", "notes/adversary/C20_miss1.diff", 3)]),
    ("C20", "adv-explicit-anchor-dropped", [("@patch", "notes/adversary/C20_miss2.diff", 3)]),
    ("C20", "adv-lifetime-capped-at-one-day", [("@patch", "notes/adversary/C20_miss3.diff", 3)]),
    ("C20", "endpoint-name-compared-case-insensitively", [(RD, "        key = (ep, d)\n", "        key = (ep.lower(), d)\n")]),
]

CONTROLS = [
    ("C20", "rename-key-index-dict", [
        (RD, "        self._by_key = {}  # key -> Registration\n", "        self._registrations_by_key = {}  # key -> Registration\n"),
        (RD, "            oldreg = self._by_key[key]\n", "            oldreg = self._registrations_by_key[key]\n"),
        (RD, "            del self._by_key[key]\n", "            del self._registrations_by_key[key]\n"),
        (RD, "        self._by_key[key] = reg\n", "        self._registrations_by_key[key] = reg\n"),
        (RD, "        return self._by_key.values()\n", "        return self._registrations_by_key.values()\n"),
    ]),
    ("C20", "other-location-names", [(RD, '            path = (str(i), "")\n', '            path = ("r%d" % (i + 6), "")\n')]),
    ("C20", "endpoint-lookup-lists-newest-first", [(RD, "        candidates = self.common_rd.get_endpoints()\n", "        candidates = reversed(list(self.common_rd.get_endpoints()))\n")]),
    ("C20", "needless-anchor-kept-in-resource-lookup", [(RD, "            if dict(link.attr_pairs)[\"anchor\"] == urljoin(link.href, \"/\")\n", "            if False\n")]),
]
