"""Mutation catalogue for bin/selftest, property C20 (resource directory):
(property, name, [(file, old, new)])."""

RD = "aiocoap/cli/rd.py"

MUTATIONS = [
    ("C20", "constant-location", [(RD, "            if path not in self._by_path:\n                return path", "            if True:\n                return path")]),
    ("C20", "reregistration-allocates-new-location", [(RD, "            path = oldreg.path[len(self.entity_prefix) :]\n", "            path = self._new_pathtail()\n")]),
    ("C20", "update-does-not-refresh-lifetime", [(RD, "            else:\n                self.refresh_timeout()\n", "            else:\n                pass\n")]),
    ("C20", "delete-leaves-key-index-populated", [(RD, "            del self._by_key[key]\n", "            pass\n")]),
    ("C20", "grace-period-not-applied", [(RD, "            delay = self.lt + self.grace_period\n", "            delay = self.lt\n")]),
    ("C20", "put-keeps-old-links", [(RD, "        self._update_params(request)\n        self.reg.links = links\n", "        self._update_params(request)\n")]),
    ("C20", "lt-of-update-ignored", [(RD, "                actual_change = True\n                self.lt = set_lt\n", "                actual_change = True\n                self.lt = set_lt if is_initial else self.lt\n")]),
    ("C20", "expired-registration-stays", [(RD, "                await asyncio.sleep(delay)\n                callback()\n", "                await asyncio.sleep(delay)\n")]),
    ("C20", "update-base-not-following-source", [(RD, "            if not self.base_is_explicit and (is_initial or self.base != network_base):", "            if not self.base_is_explicit and is_initial:")]),
]

CONTROLS = [
    ("C20", "rename-key-index-dict", [
        (RD, "        self._by_key = {}  # key -> Registration\n", "        self._registrations_by_key = {}  # key -> Registration\n"),
        (RD, "            oldreg = self._by_key[key]\n", "            oldreg = self._registrations_by_key[key]\n"),
        (RD, "            del self._by_key[key]\n", "            del self._registrations_by_key[key]\n"),
        (RD, "        self._by_key[key] = reg\n", "        self._registrations_by_key[key] = reg\n"),
        (RD, "        return self._by_key.values()\n", "        return self._registrations_by_key.values()\n"),
    ]),
    ("C20", "other-location-names", [(RD, '            path = (str(i), "")\n', '            path = ("r%d" % (i + 6), "")\n')]),
    ("C20", "endpoint-lookup-lists-newest-first", [(RD, "        candidates = self.common_rd.get_endpoints()\n", "        candidates = reversed(list(self.common_rd.get_endpoints()))\n")]),
]
