"""Round 4 of blind seeded changes that the quick tier missed when they came in (seeded/<id>/meta.json has the
story); each is kept as a stored-diff mutation so that the closed gap stays closed."""
S = "seeded/"
MUTATIONS = [
    ("C10", "seed4-no-response-mask-covers-lower-classes", [("@patch", S + "C10-seed4/patch.diff", 2)]),
    ("C04", "seed4-transport-error-clears-dedup-table", [("@patch", S + "C04-seed4/patch.diff", 2)]),
    ("C02", "seed4-incoming-request-voids-held-back-request", [("@patch", S + "C02-seed4/patch.diff", 2)]),
    ("C14", "seed4-incoming-request-voids-held-back-request", [("@patch", S + "C02-seed4/patch.diff", 2)]),
    ("C18", "seed4-token-manager-guard-removed", [("@patch", S + "C18-seed4/patch.diff", 2)]),
    ("C14", "seed4-add-exchange-resets-backlog", [("@patch", S + "C14-seed4/patch.diff", 2)]),
    ("C03", "seed4-unmatched-piggyback-keeps-exchange", [("@patch", S + "C03-seed4/patch.diff", 2)]),
]
CONTROLS = []
