"""Mutation catalogue for bin/selftest, property C17 (Site routing / discovery):
(property, name, [(file, old, new)]); `old' occurs exactly once in `file'."""

R = "aiocoap/resource.py"

MUTATIONS = [
    # routing --------------------------------------------------------------------------
    (
        "C17",
        "shortest-prefix-instead-of-longest",
        [
            (
                R,
                "        while path:\n            if path in self._subsites:\n",
                "        for n in range(1, len(request.opt.uri_path)):\n"
                "            if request.opt.uri_path[:n] in self._subsites:\n"
                "                path = request.opt.uri_path[:n]\n"
                "                remainder = list(request.opt.uri_path[n:])\n"
                "                break\n"
                "        while path:\n            if path in self._subsites:\n",
            )
        ],
    ),
    (
        "C17",
        "nested-sites-before-exact-resources",
        [
            (
                R,
                "        if request.opt.uri_path in self._resources:\n",
                "        if request.opt.uri_path in self._resources and not any(\n"
                "            request.opt.uri_path[:n] in self._subsites for n in range(1, len(request.opt.uri_path))\n"
                "        ):\n",
            )
        ],
    ),
    (
        "C17",
        "remove-resource-leaves-entry",
        [(R, "            del self._resources[tuple(path)]\n", "            self._resources[tuple(path)]\n")],
    ),
    (
        "C17",
        "trailing-slash-remainder-not-normalised",
        [(R, '                if remainder == [""]:\n', "                if False:\n")],
    ),
    (
        "C17",
        "only-immediate-parent-prefix-tried",
        # gives up after the longest candidate prefix instead of walking down to shorter ones
        [(R, "            remainder.insert(0, path[-1])\n            path = path[:-1]\n", "            break\n")],
    ),
    (
        "C17",
        "original-path-lost-below-first-level",
        [
            (
                R,
                "                stripped = request.copy(uri_path=remainder)\n                stripped._original_request_path = original_request_path\n",
                "                stripped = request.copy(uri_path=remainder)\n                stripped._original_request_path = request.opt.uri_path\n",
            )
        ],
    ),
    (
        "C17",
        "matched-part-not-stripped",
        [
            (
                R,
                "                stripped = request.copy(uri_path=remainder)\n",
                "                stripped = request.copy(uri_path=remainder if res.__class__ is Site else request.opt.uri_path)\n",
            )
        ],
    ),
    # discovery ------------------------------------------------------------------------
    (
        "C17",
        "nested-links-dropped-from-listing",
        [(R, "        for path, resource in self._subsites.items():\n            if hasattr(resource, \"get_resources_as_linkheader\"):", "        for path, resource in ():\n            if hasattr(resource, \"get_resources_as_linkheader\"):")],
    ),
    (
        "C17",
        "nested-links-without-mount-prefix",
        [(R, 'Link("/" + "/".join(path) + link.href, link.attr_pairs)', "Link(link.href, link.attr_pairs)")],
    ),
    (
        "C17",
        "hidden-resources-listed",
        [(R, "            if details is None:\n                continue\n", "            if details is None:\n                details = {}\n")],
    ),
    (
        "C17",
        "filter-prefix-test-is-substring",
        [(R, "                    return x.startswith(v[:-1])\n", "                    return v[:-1] in x\n")],
    ),
    (
        "C17",
        "filter-exact-test-is-prefix",
        [(R, "                    return x == v\n", "                    return x.startswith(v)\n")],
    ),
    (
        "C17",
        "multi-valued-attributes-not-split",
        [(R, '.split(" ")', '.split(",")')],
    ),
]

# found by a white-box adversary (notes/adversary/C17_miss*.md): silent when found, caught since the
# extensions described in notes/C17.md ("Extensions after the adversary round")
A = "notes/adversary/"
MUTATIONS += [
    ("C17", "adv-single-valued-attributes-split-at-spaces", [("@patch", A + "C17_miss1.diff", 3)]),
    ("C17", "adv-undescribed-resources-not-listed", [("@patch", A + "C17_miss2.diff", 3)]),
    ("C17", "adv-uri-host-dropped-below-first-level", [("@patch", A + "C17_miss3.diff", 3)]),
    ("C17", "adv-filter-comparison-case-folded", [("@patch", A + "C17_miss4.diff", 3)]),
    ("C17", "adv-nested-listing-only-for-site-instances", [("@patch", A + "C17_miss5.diff", 3)]),
    ("C17", "adv-put-delete-to-unknown-path-405", [("@patch", A + "C17_miss6.diff", 3)]),
    ("C17", "adv-prefix-route-memo-not-cleared-on-add", [("@patch", A + "C17_miss7.diff", 3)]),
]

CONTROLS = [
    # same routing decision, remainder built without list.insert
    (
        "C17",
        "remainder-built-by-concatenation",
        [(R, "            remainder.insert(0, path[-1])\n", "            remainder = [path[-1]] + remainder\n")],
    ),
    # the order of the links is not part of the statement
    (
        "C17",
        "listing-in-reverse-order",
        [(R, "        return LinkFormat(links)\n", "        return LinkFormat(links[::-1])\n")],
    ),
    # resources looked up with .get instead of `in' + index
    (
        "C17",
        "exact-lookup-via-get",
        [
            (
                R,
                "            return self._resources[request.opt.uri_path], stripped\n",
                "            return self._resources.get(request.opt.uri_path), stripped\n",
            )
        ],
    ),
]
