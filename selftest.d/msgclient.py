"""Mutation catalogue for bin/selftest: (property, name, [(file, old, new)])."""

MM = "aiocoap/messagemanager.py"
TM = "aiocoap/tokenmanager.py"

MUTATIONS = [
    ("C03", "timeout*=1.5", [(MM, "            timeout *= 2\n", "            timeout *= 1.5\n")]),
    ("C03", "retransmit-counter-<=", [(MM, "if retransmission_counter < message.transport_tuning.MAX_RETRANSMIT:", "if retransmission_counter <= message.transport_tuning.MAX_RETRANSMIT:")]),
    ("C03", "ack-matched-by-mid-only", [(MM, """        key = (message.remote, message.mid)

        if key not in self._active_exchanges:
            # Before turning""", """        key = (message.remote, message.mid)
        for k in self._active_exchanges:
            if k[1] == message.mid:
                key = k

        if key not in self._active_exchanges:
            # Before turning""")]),
    ("C03", "initial-timeout-from-zero", [(MM, "        timeout = random.uniform(\n            message.transport_tuning.ACK_TIMEOUT,\n", "        timeout = random.uniform(\n            message.transport_tuning.ACK_TIMEOUT / 2,\n")]),
    ("C03", "rst-does-not-fail-request", [(MM, "        if message.mtype is RST:\n            messageerror_monitor()\n", "        if message.mtype is RST:\n            pass\n")]),
    ("C03", "giveup-not-propagated", [(MM, "            self.token_manager.dispatch_error(\n                error.ConRetransmitsExceeded(\"Retransmissions exceeded\"), message.remote\n            )", "            pass")]),
    ("C03", "default-tuning-used", [(MM, "        if retransmission_counter < message.transport_tuning.MAX_RETRANSMIT:", "        if retransmission_counter < 4:")]),
    ("C14", "backlog-pop-last", [(MM, "self._backlogs[remote].pop(0)", "self._backlogs[remote].pop()")]),
    ("C14", "con-sent-despite-backlog", [(MM, "        if message.mtype == CON and message.remote in self._backlogs:", "        if message.mtype == CON and message.remote in self._backlogs and len(self._backlogs[message.remote]) < 1:")]),
    ("C14", "no-continue-after-rst", [(MM, "        self.log.debug(\"Exchange removed, message ID: %d.\", message.mid)\n\n        self._continue_backlog(message.remote)", "        self.log.debug(\"Exchange removed, message ID: %d.\", message.mid)\n\n        if message.mtype is not RST:\n            self._continue_backlog(message.remote)\n        elif not self._backlogs.get(message.remote):\n            self._backlogs.pop(message.remote, None)")]),
    ("C14", "giveup-forgets-queued", [(MM, "            self.token_manager.dispatch_error(\n                error.ConRetransmitsExceeded(\"Retransmissions exceeded\"), message.remote\n            )", "            messageerror_monitor()")]),
]

CONTROLS = [
    ("C03", "initial-timeout-midpoint", [(MM, "        timeout = random.uniform(\n            message.transport_tuning.ACK_TIMEOUT,\n            message.transport_tuning.ACK_TIMEOUT\n            * message.transport_tuning.ACK_RANDOM_FACTOR,\n        )", "        timeout = (random.uniform(\n            message.transport_tuning.ACK_TIMEOUT,\n            message.transport_tuning.ACK_TIMEOUT\n            * message.transport_tuning.ACK_RANDOM_FACTOR,\n        ) + message.transport_tuning.ACK_TIMEOUT * (1 + message.transport_tuning.ACK_RANDOM_FACTOR) / 2) / 2")]),
    ("C14", "mids-allocated-downwards", [(MM, "self.message_id = 0xFFFF & (1 + self.message_id)", "self.message_id = 0xFFFF & (self.message_id - 1)")]),
]
