"""C07 mutation catalogue: (property, name, [(file, old, new)]).

The pinned tree violates C07 by itself (notes/C07.md: transport failure before
the first response signalled as NotObservable; final response lost behind the
iterator).  That would make every mutation look "caught" and every control a
"false alarm", so as long as /repo lacks the repairs every entry first applies
the proposed repairs (notes/C07-proposed-fix.patch) and then its own change;
the control "proposed-fix-only" shows that the repaired tree is silent."""

P = "aiocoap/protocol.py"
TM = "aiocoap/tokenmanager.py"
CO = "aiocoap/numbers/constants.py"

_FIX = [
    # transport failure before the first response is a network error, not "not observable"
    (
        P,
        "        if first_event.is_last:\n            self.observation.error(error.NotObservable())\n            return\n",
        "        if first_event.exception is not None:\n            # no response at all: the observation fails the way the request did\n"
        "            self.observation.error(first_event.exception)\n            return\n\n"
        "        if first_event.is_last:\n            self.observation.error(error.NotObservable())\n            return\n",
    ),
    # the end of the observation does not overwrite the latest unfetched item
    (
        P,
        "            self._future = asyncio.get_running_loop().create_future()\n\n        def push(self, item):",
        "            self._future = asyncio.get_running_loop().create_future()\n            self._pending_error = None\n\n        def push(self, item):",
    ),
    (
        P,
        "        def push_err(self, e):\n            if self._future.done():\n                self._future = asyncio.get_running_loop().create_future()\n            self._future.set_exception(e)\n",
        "        def push_err(self, e):\n            if self._future.done():\n                self._pending_error = e\n            else:\n                self._future.set_exception(e)\n",
    ),
    (
        P,
        "                if f is self._future:\n                    self._future = asyncio.get_running_loop().create_future()\n                return result\n",
        "                if f is self._future:\n                    self._future = asyncio.get_running_loop().create_future()\n"
        "                    if self._pending_error is not None:\n                        self._future.set_exception(self._pending_error)\n"
        "                        self._pending_error = None\n                return result\n",
    ),
    # a registration after the end is still told the latest response
    (
        P,
        "        if self.cancelled:\n            return\n\n        self.callbacks.append(callback)\n",
        "        if self.cancelled:\n            if self._latest_response is not None:\n                callback(self._latest_response)\n            return\n\n"
        "        self.callbacks.append(callback)\n",
    ),
]


def _fix():
    """Only the repairs the tree does not have yet."""
    out = []
    for f, old, new in _FIX:
        src = open("/repo/" + f).read()
        if src.count(old) == 1 and new not in src:
            out.append((f, old, new))
    return out


FIX = _fix()

MUTATIONS = [
    ("C07", "half-range-2^24-in-forward-comparison", FIX + [(P, "(v1 < v2 and v2 - v1 < 2**23)", "(v1 < v2 and v2 - v1 < 2**24)")]),
    ("C07", "wrap-comparison-not-strict", FIX + [(P, "or (v1 > v2 and v1 - v2 > 2**23)", "or (v1 > v2 and v1 - v2 >= 2**23)")]),
    ("C07", "128s-disjunct-removed", FIX + [(P, "                    or (\n                        t2\n                        > t1\n", "                    or (\n                        False and t2\n                        > t1\n")]),
    ("C07", "128s-not-strict", FIX + [(P, "                        t2\n                        > t1\n", "                        t2\n                        >= t1\n")]),
    ("C07", "v1-t1-not-updated-on-delivery", FIX + [(P, "                    t1 = t2\n                    v1 = v2\n", "                    pass\n")]),
    ("C07", "t1-updated-by-stale-arrivals", FIX + [(P, "                if is_recent:\n                    t1 = t2\n", "                t1 = t2\n                if is_recent:\n                    pass\n")]),
    ("C07", "no-cancellation-after-final-response", FIX + [(P, "            if next_event.is_last:\n                self.observation.error(error.ObservationCancelled())\n                return\n", "            if next_event.is_last:\n                return\n")]),
    ("C07", "final-response-not-handed-over", FIX + [(P, "                # the terminal message is always the last\n                is_recent = True\n", "                # the terminal message is always the last\n                is_recent = False\n")]),
    ("C07", "tokenmanager-final-always", FIX + [(TM, "        final = not (\n            request.request.opt.observe == 0 and response.opt.observe is not None\n        )\n", "        final = True\n")]),
    ("C07", "tokenmanager-final-never", FIX + [(TM, "        final = not (\n            request.request.opt.observe == 0 and response.opt.observe is not None\n        )\n", "        final = False\n")]),
    ("C07", "not-observable-not-signalled", FIX + [(P, "            self.observation.error(error.NotObservable())\n            return\n", "            return\n")]),
    ("C07", "network-error-during-observation-swallowed", FIX + [(P, "                self.observation.error(next_event.exception)\n", "                pass\n")]),
    ("C07", "token-kept-after-the-end", FIX + [(TM, "        if final:\n            self.outgoing_requests.pop(key)\n", "        if final:\n            pass\n"), (TM, "            functools.partial(self.outgoing_requests.pop, key, None)\n", "            lambda: None\n")]),
    ("C07", "iterator-keeps-oldest-instead-of-latest", FIX + [(P, "                # we don't care whether we overwrite anything, this is a lossy queue as observe is lossy\n                self._future = asyncio.get_running_loop().create_future()\n", "                return\n")]),
]

CONTROLS = [
    ("C07", "proposed-fix-only", FIX) if FIX else ("C07", "reset-time-as-float", [(CO, "    OBSERVATION_RESET_TIME = 128\n", "    OBSERVATION_RESET_TIME = 128.0\n")]),
    ("C07", "freshness-rule-written-differently", FIX + [(P, "(v1 < v2 and v2 - v1 < 2**23)", "(v2 > v1 and v2 - v1 <= 2**23 - 1)")]),
    ("C07", "reset-time-128-as-expression", FIX + [(CO, "    OBSERVATION_RESET_TIME = 128\n", "    OBSERVATION_RESET_TIME = 2**7\n")]),
]
