"""C07 mutation catalogue: (property, name, [(file, old, new)] | [("@patch", stored diff, -p level)]).

The three defects the check found on the pinned tree (notes/C07.md, D1-D3) are repaired in /repo; their
reverts are mutations here.  The `adv-*` entries are the changes a white-box adversary found unreported
(notes/adversary/C07_miss*.md); they are caught since block-wise notification bodies, every 2.xx code,
other requests next to the observation and a token counter coming round are part of the schedules."""

P = "aiocoap/protocol.py"
TM = "aiocoap/tokenmanager.py"
CO = "aiocoap/numbers/constants.py"
A = "notes/adversary/"
FIX = []

MUTATIONS = [
    ("C07", "half-range-2^24-in-forward-comparison", FIX + [(P, "(v1 < v2 and v2 - v1 < 2**23)", "(v1 < v2 and v2 - v1 < 2**24)")]),
    ("C07", "wrap-comparison-not-strict", FIX + [(P, "or (v1 > v2 and v1 - v2 > 2**23)", "or (v1 > v2 and v1 - v2 >= 2**23)")]),
    ("C07", "128s-disjunct-removed", FIX + [(P, "                    or (\n                        t2\n                        > t1\n", "                    or (\n                        False and t2\n                        > t1\n")]),
    ("C07", "128s-not-strict", FIX + [(P, "                        t2\n                        > t1\n", "                        t2\n                        >= t1\n")]),
    ("C07", "v1-t1-not-updated-on-delivery", FIX + [(P, "                    t1 = t2\n                    v1 = v2\n", "                    pass\n")]),
    ("C07", "t1-updated-by-stale-arrivals", FIX + [(P, "                if is_recent:\n                    t1 = t2\n", "                t1 = t2\n                if is_recent:\n                    pass\n")]),
    ("C07", "no-cancellation-after-final-response", FIX + [(P, "            if next_event.is_last:\n                self.observation.error(error.ObservationCancelled())\n                return\n", "            if next_event.is_last:\n                return\n")]),
    ("C07", "final-response-not-handed-over", FIX + [(P, "                # the terminal message is always the last\n                is_recent = True\n", "                # the terminal message is always the last\n                is_recent = False\n")]),
    ("C07", "tokenmanager-final-always", FIX + [(TM, "        final = not (\n            request.request.opt.observe == 0 and response.opt.observe is not None\n        )\n", "        final = True\n")]),
    ("C07", "tokenmanager-final-never", FIX + [(TM, "        final = not (\n            request.request.opt.observe == 0 and response.opt.observe is not None\n        )\n", "        final = False\n")]),
    ("C07", "not-observable-not-signalled", FIX + [(P, "            self.observation.error(error.NotObservable())\n            return\n", "            return\n")]),
    ("C07", "network-error-during-observation-swallowed", FIX + [(P, "                self.observation.error(next_event.exception)\n", "                pass\n")]),
    ("C07", "token-kept-after-the-end", FIX + [(TM, "        if final:\n            self.outgoing_requests.pop(key)\n", "        if final:\n            pass\n"), (TM, "            functools.partial(self.outgoing_requests.pop, key, None)\n", "            lambda: None\n")]),
    ("C07", "request-failure-signalled-as-not-observable", [(P, "        if first_event.exception is not None:\n", "        if first_event.exception is not None and False:\n")]),
    ("C07", "end-overwrites-unfetched-final-response", [(P, "                self._pending_error = e\n            else:\n                self._future.set_exception(e)\n", "                self._future = asyncio.get_running_loop().create_future()\n            self._future.set_exception(e)\n")]),
    ("C07", "late-registration-after-end-not-told-latest", [(P, "            if self._latest_response is not None:\n                callback(self._latest_response)\n            return\n", "            return\n")]),
    ("C07", "late-registration-on-live-observation-not-told-latest", [(P, "        self.callbacks.append(callback)\n        if self._latest_response is not None:\n            callback(self._latest_response)\n", "        self.callbacks.append(callback)\n")]),
    ("C07", "adv-blockwise-notification-completed-in-background", [("@patch", A + "C07_miss1.diff", 3)]),
    ("C07", "adv-only-2.05-and-2.03-keep-the-observation", [("@patch", A + "C07_miss2.diff", 3)]),
    ("C07", "adv-token-counter-wraps-at-2^16", [("@patch", A + "C07_miss3.diff", 3)]),
    ("C07", "token-counter-wraps-at-2^8", [(TM, "        self._token = (self._token + 1) % (2**64)\n", "        self._token = (self._token + 1) % (2**8)\n")]),
    ("C07", "iterator-keeps-oldest-instead-of-latest", FIX + [(P, "                # we don't care whether we overwrite anything, this is a lossy queue as observe is lossy\n                self._future = asyncio.get_running_loop().create_future()\n", "                return\n")]),
]

CONTROLS = [
    ("C07", "reset-time-as-float", [(CO, "    OBSERVATION_RESET_TIME = 128\n", "    OBSERVATION_RESET_TIME = 128.0\n")]),
    ("C07", "freshness-rule-written-differently", [(P, "(v1 < v2 and v2 - v1 < 2**23)", "(v2 > v1 and v2 - v1 <= 2**23 - 1)")]),
    ("C07", "token-counter-counts-by-three", [(TM, "        self._token = (self._token + 1) % (2**64)\n", "        self._token = (self._token + 3) % (2**64)\n")]),
]
