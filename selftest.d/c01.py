"""Mutation catalogue for bin/selftest, property C01 (datagram codec):
(property, name, [(file, old, new)]).

The pinned tree violates C01 by itself (notes/C01.md: UnicodeDecodeError from
string options, ValueError for a delta/length of exactly 65804), so a mutation
on top of it would be "caught" for the wrong reason and a control could never
stay silent.  As long as /repo still contains those two defects, every entry
below is therefore prefixed with the two proposed minimal repairs; once /repo
is repaired the prefix disappears by itself (the anchors are looked up in the
current /repo text when this file is loaded)."""

import os

OPT = "aiocoap/options.py"
OTY = "aiocoap/optiontypes.py"
MSG = "aiocoap/message.py"
UDP = "aiocoap/transports/udp6.py"

_FIX_EXT = (OPT, "    elif value >= 269 and value < 65804:\n", "    elif value >= 269 and value <= 65804:\n")
_FIX_UTF8 = (
    OPT,
    "            option = option_number.create_option(decode=rawdata[:length])\n",
    "            try:\n"
    "                option = option_number.create_option(decode=rawdata[:length])\n"
    "            except ValueError as e:\n"
    '                raise UnparsableMessage("Option value not valid for its format") from e\n',
)


def _needed():
    try:
        opt = open(os.path.join("/repo", OPT)).read()
        oty = open(os.path.join("/repo", OTY)).read()
    except OSError:
        return []
    fixes = []
    if opt.count(_FIX_EXT[1]) == 1:
        fixes.append(_FIX_EXT)
    if opt.count(_FIX_UTF8[1]) == 1 and "except ValueError" not in opt and "UnicodeDecodeError" not in opt + oty:
        fixes.append(_FIX_UTF8)
    return fixes


FIX = _needed()
_UNI = (OTY, "import collections\n", "import collections\nimport unicodedata\n")

MUTATIONS = [
    # writer: 269 squeezed into the one-byte extension
    ("C01", "ext13-upper-bound-inclusive", FIX + [(OPT, "    elif value >= 13 and value < 269:\n", "    elif value >= 13 and value <= 269:\n")]),
    # reader: one-byte extension offset
    ("C01", "read-ext13-offset-12", FIX + [(OPT, "        return (rawdata[0] + 13, rawdata[1:])\n", "        return (rawdata[0] + 12, rawdata[1:])\n")]),
    # payload marker written although the payload is empty
    ("C01", "marker-without-payload", FIX + [(MSG, "        if len(self.payload) > 0:\n            rawdata += bytes([0xFF])\n", "        if self.payload is not None:\n            rawdata += bytes([0xFF])\n")]),
    # token length read from three bits only
    ("C01", "tkl-mask-0x07", FIX + [(MSG, "        token_length = vttkl & 0x0F\n", "        token_length = vttkl & 0x07\n")]),
    # delta always computed from zero
    ("C01", "delta-base-not-advanced", FIX + [(OPT, "            current_opt_num = option.number\n", "            pass\n")]),
    # uint zero serialised as one zero byte
    ("C01", "uint-zero-one-byte", FIX + [(OTY, "    return value.to_bytes((value.bit_length() + 7) // 8, \"big\")\n", "    return value.to_bytes(max(1, (value.bit_length() + 7) // 8), \"big\")\n")]),
    # message ID read little-endian
    ("C01", "mid-little-endian-on-decode", FIX + [(MSG, '            (vttkl, code, mid) = struct.unpack("!BBH", rawdata[:4])\n', '            (vttkl, code, mid) = struct.unpack("<BBH", rawdata[:4])\n')]),
    # the UDP receive path no longer catches the parser's error class
    ("C01", "udp6-catches-other-error-class", FIX + [(UDP, "        except error.UnparsableMessage:\n            self.log.warning(\"Ignoring unparsable message from %s\", address)\n", "        except error.BadRequest:\n            self.log.warning(\"Ignoring unparsable message from %s\", address)\n")]),
    # seeded/C01-seed3: string options normalised to NFC when serialised
    ("C01", "string-option-nfc-on-encode", FIX + [_UNI, (OTY, '        rawdata = self.value.encode("utf-8")\n', '        rawdata = unicodedata.normalize("NFC", self.value).encode("utf-8")\n')]),
    # ... decomposed instead
    ("C01", "string-option-nfd-on-encode", FIX + [_UNI, (OTY, '        rawdata = self.value.encode("utf-8")\n', '        rawdata = unicodedata.normalize("NFD", self.value).encode("utf-8")\n')]),
    # ... compatibility-composed when parsed
    ("C01", "string-option-nfkc-on-decode", FIX + [_UNI, (OTY, '        self.value = rawdata.decode("utf-8")\n', '        self.value = unicodedata.normalize("NFKC", rawdata.decode("utf-8"))\n')]),
    # found by the white-box adversary (notes/adversary/C01_miss*.md), stored diffs:
    # Max-Age with the default value 60 left out when serialising
    ("C01", "adv-max-age-default-elided", FIX + [("@patch", "notes/adversary/C01_miss1.diff", 3)]),
    # bare LF in string options rewritten to CR LF when serialising
    ("C01", "adv-string-lf-to-crlf-on-encode", FIX + [("@patch", "notes/adversary/C01_miss2.diff", 3)]),
    # Location-Path "." / ".." refused as unparsable
    ("C01", "adv-location-path-dot-segments-rejected", FIX + [("@patch", "notes/adversary/C01_miss3.diff", 3)]),
    # Uri-Path / Uri-Query percent-decoded when parsed
    ("C01", "adv-uri-path-query-percent-decoded", FIX + [("@patch", "notes/adversary/C01_miss3_variant_percent_decoding.diff", 3)]),
    # short datagrams: the struct error is no longer translated
    ("C01", "short-datagram-struct-error-escapes", FIX + [(MSG, "        except struct.error:\n            raise error.UnparsableMessage(\"Incoming message too short for CoAP\")\n", "        except struct.error:\n            raise\n")]),
]

CONTROLS = [
    # pure refactoring of the range tests
    ("C01", "ext-ranges-rewritten", FIX + [(OPT, "    if value >= 0 and value < 13:\n        return (value, b\"\")\n    elif value >= 13 and value < 269:\n", "    if 0 <= value <= 12:\n        return (value, b\"\")\n    elif 13 <= value <= 268:\n")]),
    # behaviour changes, property does not: a reserved nibble 15 is read as the
    # number 15 instead of being rejected -- a format error may be parsed
    # leniently as long as the resulting message round-trips
    ("C01", "nibble15-read-leniently", FIX + [(OPT, "        raise UnparsableMessage(\"Option contained partial payload marker.\")\n", "        return (value, rawdata)\n")]),
    # same for the version field: other versions are parsed like version 1
    ("C01", "version-not-checked", FIX + [(MSG, "        if version != 1:\n", "        if version != 1 and False:\n")]),
]
