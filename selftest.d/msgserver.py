MM = "aiocoap/messagemanager.py"
TM = "aiocoap/tokenmanager.py"

MUTATIONS = [
    ("C04", "dedup-key-mid-only", [(MM, "        key = (message.remote, message.mid)\n        if key in self._recent_messages:\n            if message.mtype is CON:", "        key = (None, message.mid)\n        if key in self._recent_messages:\n            if message.mtype is CON:")]),
    ("C04", "store-reply-noop", [(MM, "        key = (message.remote, message.mid)\n        if key in self._recent_messages:\n            self._recent_messages[key] = message\n", "        key = (message.remote, message.mid)\n        if key in self._recent_messages:\n            pass\n")]),
    ("C04", "store-any-outgoing-message", [(MM, "        if message.mtype is not ACK:\n", "        if False:\n")]),
    ("C04", "expiry-after-transmit-span", [(MM, "                message.transport_tuning.EXCHANGE_LIFETIME,\n                functools.partial(self._recent_messages.pop, key),", "                message.transport_tuning.MAX_TRANSMIT_SPAN,\n                functools.partial(self._recent_messages.pop, key),")]),
    ("C04", "non-not-deduplicated", [(MM, "        if message.code.is_request():\n            # Responses don't get deduplication", "        if message.code.is_request() and message.mtype is CON:\n            # Responses don't get deduplication")]),
    ("C10", "ping-answered-with-ack", [(MM, "        rst = Message(_mtype=RST, _mid=message.mid, code=EMPTY, payload=b\"\")\n        rst.remote = message.remote.as_response_address()\n        # not going via send_message because that would strip the mid, and we\n        # already know that it can go straight to the wire", "        rst = Message(_mtype=ACK, _mid=message.mid, code=EMPTY, payload=b\"\")\n        rst.remote = message.remote.as_response_address()\n        # not going via send_message because that would strip the mid, and we\n        # already know that it can go straight to the wire")]),
    ("C10", "rst-for-unmatched-non", [(MM, "                if message.mtype == CON and not message.remote.is_multicast_locally:", "                if message.mtype in (CON, NON) and not message.remote.is_multicast_locally:")]),
    ("C10", "non-request-answered-con", [(MM, "                            if (\n                                message.request is not None\n                                and message.request.mtype is NON\n                            ):\n                                message.mtype = NON", "                            if (\n                                message.request is not None\n                                and message.request.mtype is NON\n                            ):\n                                message.mtype = CON")]),
    ("C10", "no-response-mask-shifted", [(MM, "                1 << message.code.class_ - 1\n", "                1 << message.code.class_\n")]),
    ("C10", "rst-for-multicast-local", [(MM, "                if message.mtype == CON and not message.remote.is_multicast_locally:", "                if message.mtype == CON:")]),
    ("C10", "no-response-drops-ack-too", [(MM, "                if no_response:\n                    new_message = Message(code=EMPTY, mid=mid, mtype=ACK)\n                    new_message.remote = message.remote.as_response_address()\n                    message = new_message", "                if no_response:\n                    return")]),
    ("C10", "empty-ack-delay-doubled", [(MM, "                request.transport_tuning.EMPTY_ACK_DELAY,\n                on_timeout,", "                request.transport_tuning.EMPTY_ACK_DELAY * 2,\n                on_timeout,")]),
]

MUTATIONS += [
    ("C10", "con-to-multicast-allowed", [(MM, "                if message.remote.is_multicast:\n                    message.mtype = NON\n", "                if False:\n                    message.mtype = NON\n"), (MM, "        if message.mtype == CON and message.remote.is_multicast:\n            raise error.ConToMulticast\n", "")]),
]

CONTROLS = [
    ("C04", "empty-ack-via-helper-rename", [(MM, "        self.log.debug(\"Sending empty ACK: %s\", reason)", "        self.log.debug(\"Sending an empty ACK: %s\", reason)")]),
    ("C10", "store-also-rst", [(MM, "        if message.mtype is not ACK:\n", "        if message.mtype not in (ACK, RST):\n")]),
]
