TM = "aiocoap/tokenmanager.py"
MM = "aiocoap/messagemanager.py"

MUTATIONS = [
    ("C02", "response-matched-by-token-only", [(TM, "        if key not in self.outgoing_requests:\n            # maybe it was a multicast...\n            key = (response.token, None)\n", "        if key not in self.outgoing_requests:\n            # maybe it was a multicast...\n            key = (response.token, None)\n            for k in self.outgoing_requests:\n                if k[0] == response.token:\n                    key = k\n")]),
    ("C02", "final-response-not-popped", [(TM, "        if final:\n            self.outgoing_requests.pop(key)\n", "        if final:\n            pass\n"), (TM, "            functools.partial(self.outgoing_requests.pop, key, None)\n", "            lambda: None\n")]),
    ("C02", "next-token-constant", [(TM, "        self._token = (self._token + 1) % (2**64)\n", "        self._token = (self._token + 0) % (2**64)\n")]),
    ("C02", "icmp-error-does-not-fail-requests", [(TM, "            if request_remote == remote:\n                stoppers.append(", "            if request_remote == remote and False:\n                stoppers.append(")]),
    ("C02", "no-rst-for-unknown-con-response", [(MM, "                if message.mtype == CON and not message.remote.is_multicast_locally:\n                    self.log.info(\"Response not recognized - sending RST.\")", "                if message.mtype == CON and message.remote.is_multicast_locally:\n                    self.log.info(\"Response not recognized - sending RST.\")")]),
    ("C02", "shutdown-leaves-requests-pending", [(TM, "            request = self.outgoing_requests.pop(key)\n            request.add_exception(error.LibraryShutdown())", "            request = self.outgoing_requests.pop(key)")]),
]

CONTROLS = [
    ("C02", "token-allocator-counts-by-three", [(TM, "        self._token = (self._token + 1) % (2**64)\n", "        self._token = (self._token + 3) % (2**64)\n")]),
]
