"""Changes found by white-box adversaries (sub-agents that read the checks and looked for what they do not
report; notes/adversary/*.md explain each).  All were silent when found and are caught since the extensions
described in DESIGN.md 12.5."""
A = "notes/adversary/"
MUTATIONS = [
    ("C03", "adv-giveup-with-non-timeout-class", [("@patch", A + "msgclient_miss1.diff", 3)]),
    ("C14", "adv-response-timeout-forgets-held-back-requests", [("@patch", A + "msgclient_miss2.diff", 3)]),
    ("C03", "adv-backoff-clamped-at-max-latency", [("@patch", A + "msgclient_miss3.diff", 3)]),
    ("C03", "adv-wrong-token-ack-does-not-acknowledge", [("@patch", A + "msgclient_miss4.diff", 3)]),
    ("C04", "adv-endpoints-differing-in-port-merged", [("@patch", A + "msgserver_miss1.diff", 3)]),
    ("C10", "adv-explicit-con-to-multicast", [("@patch", A + "msgserver_miss2.diff", 3)]),
    ("C04", "adv-dedup-table-capped", [("@patch", A + "msgserver_miss3.diff", 3)]),
    ("C10", "adv-con-response-to-multicast-request-reset", [("@patch", A + "msgserver_miss4.diff", 3)]),
    ("C10", "adv-reset-clears-whole-backlog", [("@patch", A + "msgserver_miss5.diff", 3)]),
    ("C02", "adv-one-byte-tokens-reused", [("@patch", A + "C02_miss1.diff", 3)]),
    ("C02", "adv-giveup-drops-backlog-silently", [("@patch", A + "C02_miss2.diff", 3)]),
    ("C02", "adv-forged-empty-ack-by-message-id-alone", [("@patch", A + "C02_miss3.diff", 3)]),
]
MUTATIONS += [
    ("C09", "adv-diagnostic-payload-dropped", [("@patch", A + "C09_miss1.diff", 3)]),
    ("C09", "adv-unassigned-request-code-500", [("@patch", A + "C09_miss2.diff", 3)]),
    ("C09", "adv-slow-handler-cut-at-exchange-lifetime", [("@patch", A + "C09_miss3.diff", 3)]),
    # (C09_miss4.diff removed the `is None` guard that fix 3ed899d has since turned into an isinstance test)
    ("C09", "adv-error-renderer-result-unchecked", [("aiocoap/pipe.py", "                if not isinstance(msg, Message):\n", "                if False:\n")]),
    ("C09", "adv-response-wrapping-error-relayed", [("@patch", A + "C09_miss5.diff", 3)]),
]
MUTATIONS += [
    ("C06", "adv-blockwise-key-without-port", [("@patch", A + "C06_miss1.diff", 3)]),
    ("C06", "adv-block-key-ignores-request-tag", [("@patch", A + "C06_miss2.diff", 3)]),
    ("C06", "adv-timeoutdict-kept-alive-by-other-keys", [("@patch", A + "C06_miss3.diff", 3)]),
    ("C06", "adv-blockwise-state-shared-across-resources", [("@patch", A + "C06_miss4.diff", 3)]),
    ("C06", "adv-plain-get-keeps-stale-rendering", [("@patch", A + "C06_miss5.diff", 3)]),
]
MUTATIONS += [
    ("C18", "adv-shutdown-without-timeout-bound", [("@patch", A + "C18_miss1.diff", 3)]),
    ("C18", "adv-iterated-observation-ends-silently-at-shutdown", [("@patch", A + "C18_miss2.diff", 3)]),
]
CONTROLS = []
