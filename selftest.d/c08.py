"""C08 mutation catalogue: (property, name, [(file, old, new)]).

The pinned tree violates C08 by itself (notes/C08.md: notifications queued
behind an unacknowledged one are sent after their registration has ended; one
Message object shared by all observers), which would make every mutation look
"caught" and every control a "false alarm".  (Both repairs are in /repo since
8bfd0a2 / 6aa6151; FIX is empty then.)  As long as /repo does not contain
the repairs, every entry therefore first applies the proposed repairs
(notes/C08-proposed-fix.patch) and then its own change; the control
"proposed-fix-only" shows that the repaired tree is silent."""

IF = "aiocoap/interfaces.py"
PR = "aiocoap/protocol.py"
RS = "aiocoap/resource.py"
TM = "aiocoap/tokenmanager.py"
MM = "aiocoap/messagemanager.py"

_FIX = [
    (
        MM,
        "        if message.mtype is RST:\n            messageerror_monitor()\n",
        "        if message.mtype is RST:\n"
        "            # Whatever the rejected message's sender still has waiting for this\n"
        "            # remote (eg. further notifications of the observation that is\n"
        "            # being cancelled right now) must not be sent either\n"
        "            self._backlogs[message.remote] = [\n"
        "                (m, monitor)\n"
        "                for (m, monitor) in self._backlogs.get(message.remote, [])\n"
        "                if monitor is not messageerror_monitor\n"
        "            ]\n"
        "            messageerror_monitor()\n",
    ),
    (
        MM,
        '        responder if one exists."""\n\n        if request.mtype == CON:\n',
        '        responder if one exists."""\n\n'
        "        if request.remote in self._backlogs:\n"
        "            # A new request on a token voids whatever responses to the earlier\n"
        "            # request on that token are still waiting for their turn (eg.\n"
        "            # notifications of an observation that this request replaces or\n"
        "            # cancels)\n"
        "            self._backlogs[request.remote] = [\n"
        "                (m, monitor)\n"
        "                for (m, monitor) in self._backlogs[request.remote]\n"
        "                if not (m.code.is_response() and m.token == request.token)\n"
        "            ]\n\n"
        "        if request.mtype == CON:\n",
    ),
    (
        IF,
        "                if response is None:\n                    response = await self.render(pipe.request)\n",
        "                if response is None:\n                    response = await self.render(pipe.request)\n"
        "                else:\n"
        "                    # The same message may have been handed to several\n"
        "                    # observations (ObservableResource.updated_state does);\n"
        "                    # token, remote, message ID and Observe number are set per\n"
        "                    # observation\n"
        "                    response = response.copy()\n",
    ),
]


def _fix():
    """Only the repairs the tree does not have yet."""
    out = []
    for f, old, new in _FIX:
        try:
            src = open("/repo/" + f).read()
        except OSError:
            continue
        if src.count(old) == 1 and new not in src:
            out.append((f, old, new))
    return out


FIX = _fix()

MUTATIONS = [
    ("C08", "observe-number-not-incremented", FIX + [(IF, "                    next_observation_number += 1\n", "                    next_observation_number += 0\n")]),
    ("C08", "finally-cancellation-removed", FIX + [(IF, "        finally:\n            servobs._cancellation_callback()\n", "        finally:\n            pass\n")]),
    ("C08", "rst-does-not-call-error-monitor", FIX + [(MM, "        if message.mtype is RST:\n", "        if message.mtype is RST and False:\n")]),
    ("C08", "new-request-on-token-does-not-stop-old-pipe", FIX + [(TM, "            (pipe, stop) = self.incoming_requests.pop(key)\n            stop()\n", "            (pipe, stop) = self.incoming_requests.pop(key)\n")]),
    ("C08", "trigger-keeps-oldest-drops-newest", FIX + [(PR, "        if self._trigger.done():\n            # we don't care whether we overwrite anything, this is a lossy queue as observe is lossy\n            self._trigger = asyncio.get_running_loop().create_future()\n", "        if self._trigger.done():\n            return\n")]),
    ("C08", "con-timeout-not-dispatched", FIX + [(MM, "            self.token_manager.dispatch_error(\n                error.ConRetransmitsExceeded(\"Retransmissions exceeded\"), message.remote\n            )\n", "            pass\n")]),
    ("C08", "transport-error-spares-incoming", FIX + [(TM, "            if remote == _r:\n                stoppers.append(stopper)\n", "            if remote == _r and False:\n                stoppers.append(stopper)\n")]),
    ("C08", "unsuccessful-notification-not-final", FIX + [(IF, "                is_last = servobs._late_deregister or not response.code.is_successful()\n", "                is_last = servobs._late_deregister\n")]),
    ("C08", "is-last-ignored", FIX + [(PR, "        if is_last:\n            self._late_deregister = True\n", "        if is_last and False:\n            self._late_deregister = True\n")]),
    ("C08", "observer-set-not-shrunk", FIX + [(RS, "            self._observations.remove(serverobservation)\n", "            pass\n")]),
    # seeded change C08-seed1: the trigger slot is re-armed only after the rendering, so a state change that
    # arrives while render() is suspended is overwritten and forgotten
    (
        "C08",
        "trigger-rearmed-after-render",
        FIX
        + [
            (IF, "                response = servobs._trigger.result()\n                servobs._trigger = asyncio.get_running_loop().create_future()\n",
             "                response = servobs._trigger.result()\n"),
            (IF, "                # If block2 were to happen here, we'd store the full response\n                # here, and pick out block2:0.\n\n                is_last =",
             "                servobs._trigger = asyncio.get_running_loop().create_future()\n\n                is_last ="),
        ],
    ),
    # white-box adversary round (notes/adversary/C08_miss{1,2,3}.md, C08_caught.md A, B, G1)
    ("C08", "backlog-bounded-dropping-the-newest", FIX + [(MM, '            self.log.debug("Message to %s put into backlog", message.remote)\n',
                                                           '            if len(self._backlogs[message.remote]) >= 16:\n                return\n            self.log.debug("Message to %s put into backlog", message.remote)\n')]),
    ("C08", "rst-stops-all-registrations-of-the-endpoint", FIX + [(MM, '            messageerror_monitor()\n        self.log.debug("Exchange removed',
                                                                   '            messageerror_monitor()\n            self.token_manager.dispatch_error(error.MessageError(), message.remote)\n        self.log.debug("Exchange removed')]),
    ("C08", "new-request-voids-all-queued-responses-of-the-endpoint", FIX + [(MM, "                if not (m.code.is_response() and m.token == request.token)\n",
                                                                              "                if not m.code.is_response()\n")]),
    ("C08", "trigger-slot-cleared-after-first-response", FIX + [(IF, "            pipe.add_response(first_response, is_last=False)\n",
                                                                 "            pipe.add_response(first_response, is_last=False)\n            if servobs._trigger.done():\n                servobs._trigger = asyncio.get_running_loop().create_future()\n")]),
    ("C08", "rst-drops-whole-backlog-of-the-endpoint", FIX + [(MM, "                if monitor is not messageerror_monitor\n", "                if False\n")]),
    ("C08", "error-of-one-remote-stops-all-observers", FIX + [(TM, "            if remote == _r:\n                stoppers.append(stopper)\n",
                                                               "            if True:\n                stoppers.append(stopper)\n")]),
    ("C08", "shutdown-leaves-observations", FIX + [(TM, "            (_, stop) = self.incoming_requests.pop(key)\n            # This cancels them, not sending anything.", "            (_, stop) = self.incoming_requests.pop(key)\n            stop = lambda: None\n            # This cancels them, not sending anything.")]),
]

CONTROLS = [
    ("C08", "proposed-fix-only", FIX),
    ("C08", "observe-numbers-step-two", FIX + [(IF, "                    next_observation_number += 1\n", "                    next_observation_number += 2\n")]),
    ("C08", "updated-state-iterates-a-copy", FIX + [(RS, "        for o in self._observations:\n", "        for o in list(self._observations):\n")]),
]
