"""C08 mutation catalogue: (property, name, [(file, old, new)]).

The pinned tree violates C08 by itself (notes/C08.md: notifications queued
behind an unacknowledged one are sent after their registration has ended; one
Message object shared by all observers), which would make every mutation look
"caught" and every control a "false alarm".  (Both repairs are in /repo since
8bfd0a2 / 6aa6151; FIX is empty then.)  As long as /repo does not contain
the repairs, every entry therefore first applies the proposed repairs
(notes/C08-proposed-fix.patch) and then its own change; the control
"proposed-fix-only" shows that the repaired tree is silent."""

IF = "aiocoap/interfaces.py"
PR = "aiocoap/protocol.py"
RS = "aiocoap/resource.py"
TM = "aiocoap/tokenmanager.py"
MM = "aiocoap/messagemanager.py"

_FIX = [
    (
        MM,
        "        if message.mtype is RST:\n            messageerror_monitor()\n",
        "        if message.mtype is RST:\n"
        "            # Whatever the rejected message's sender still has waiting for this\n"
        "            # remote (eg. further notifications of the observation that is\n"
        "            # being cancelled right now) must not be sent either\n"
        "            self._backlogs[message.remote] = [\n"
        "                (m, monitor)\n"
        "                for (m, monitor) in self._backlogs.get(message.remote, [])\n"
        "                if monitor is not messageerror_monitor\n"
        "            ]\n"
        "            messageerror_monitor()\n",
    ),
    (
        MM,
        '        responder if one exists."""\n\n        if request.mtype == CON:\n',
        '        responder if one exists."""\n\n'
        "        if request.remote in self._backlogs:\n"
        "            # A new request on a token voids whatever responses to the earlier\n"
        "            # request on that token are still waiting for their turn (eg.\n"
        "            # notifications of an observation that this request replaces or\n"
        "            # cancels)\n"
        "            self._backlogs[request.remote] = [\n"
        "                (m, monitor)\n"
        "                for (m, monitor) in self._backlogs[request.remote]\n"
        "                if not (m.code.is_response() and m.token == request.token)\n"
        "            ]\n\n"
        "        if request.mtype == CON:\n",
    ),
    (
        IF,
        "                if response is None:\n                    response = await self.render(pipe.request)\n",
        "                if response is None:\n                    response = await self.render(pipe.request)\n"
        "                else:\n"
        "                    # The same message may have been handed to several\n"
        "                    # observations (ObservableResource.updated_state does);\n"
        "                    # token, remote, message ID and Observe number are set per\n"
        "                    # observation\n"
        "                    response = response.copy()\n",
    ),
]


# A Reset answering a NON notification is ignored by the tree (notes/C08.md, D3: a KNOWN FINDING, /repo stays
# as it is; notes/C08-proposed-fix-rst-to-non.patch is the repair below as a diff): the message manager would
# remember the NON responses it sent for NON_LIFETIME and treat a Reset carrying such a message ID like a
# Reset to a confirmable message.  The entries of the catalogue run on the tree as it is (the known finding
# prints KNOWN-FINDING lines, which do not count); only the entries about this repair apply it first.
_FIX_RSTNON = [
    (MM, "from .numbers.codes import EMPTY\n", "from .numbers.codes import EMPTY\nfrom .numbers.constants import TransportTuning\n"),
    (
        MM,
        "        #: Maps pending remote/token combinations to the MID a response can be\n",
        "        #: Recently sent NON responses whose sender wants to hear of their\n"
        "        #: rejection: (remote, message-id): (messageerror_monitor, time sent),\n"
        "        #: kept for NON_LIFETIME, oldest first\n"
        "        self._recent_non_responses: Dict[\n"
        "            Tuple[EndpointAddress, int], Tuple[Callable[[], None], float]\n"
        "        ] = {}\n\n"
        "        #: Maps pending remote/token combinations to the MID a response can be\n",
    ),
    (
        MM,
        "        if key not in self._active_exchanges:\n            # Before turning this up to a warning,",
        "        if (\n"
        "            key not in self._active_exchanges\n"
        "            and message.mtype is RST\n"
        "            and key in self._recent_non_responses\n"
        "        ):\n"
        "            # The peer rejects a non-confirmable response (eg. a notification\n"
        "            # of an observation it does not know about any more): the sender\n"
        "            # learns of it just like for a confirmable one, and what it still\n"
        "            # has waiting for that remote is not sent either\n"
        "            messageerror_monitor, _ = self._recent_non_responses.pop(key)\n"
        "            if message.remote in self._backlogs:\n"
        "                self._backlogs[message.remote] = [\n"
        "                    (m, monitor)\n"
        "                    for (m, monitor) in self._backlogs[message.remote]\n"
        "                    if monitor is not messageerror_monitor\n"
        "                ]\n"
        "            messageerror_monitor()\n"
        "            return\n\n"
        "        if key not in self._active_exchanges:\n            # Before turning this up to a warning,",
    ),
    (
        MM,
        "            self._add_exchange(message, messageerror_monitor)\n\n        self._store_response_for_duplicates(message)\n",
        "            self._add_exchange(message, messageerror_monitor)\n"
        "        elif (\n"
        "            message.mtype is NON\n"
        "            and messageerror_monitor is not None\n"
        "            and message.code.is_response()\n"
        "        ):\n"
        "            self._remember_non_response(message, messageerror_monitor)\n\n"
        "        self._store_response_for_duplicates(message)\n",
    ),
    (
        MM,
        "    def _send_via_transport(self, message):\n",
        "    def _remember_non_response(self, message, messageerror_monitor):\n"
        '        """Keep the monitor of a NON response around for as long as a Reset\n'
        "        answering it may arrive (NON_LIFETIME), so that the sender hears of\n"
        '        the rejection."""\n\n'
        "        tuning = TransportTuning()\n"
        "        non_lifetime = tuning.MAX_TRANSMIT_SPAN + tuning.MAX_LATENCY\n"
        "        now = self.loop.time()\n"
        "        for key in list(self._recent_non_responses):\n"
        "            if self._recent_non_responses[key][1] + non_lifetime > now:\n"
        "                break\n"
        "            del self._recent_non_responses[key]\n"
        "        key = (message.remote, message.mid)\n"
        "        self._recent_non_responses.pop(key, None)\n"
        "        self._recent_non_responses[key] = (messageerror_monitor, now)\n\n"
        "    def _send_via_transport(self, message):\n",
    ),
]


def _fix():
    """Only the repairs the tree does not have yet."""
    out = []
    for f, old, new in _FIX:
        try:
            src = open("/repo/" + f).read()
        except OSError:
            continue
        if src.count(old) == 1 and new not in src:
            out.append((f, old, new))
    return out


def _fix_rstnon():
    """The Reset-to-NON repair as a whole, if the tree's message manager shows no trace of any such thing."""
    try:
        src = open("/repo/" + MM).read()
    except OSError:
        return []
    if all(src.count(old) == 1 for _f, old, _n in _FIX_RSTNON) and "_recent_non" not in src:
        return list(_FIX_RSTNON)
    return []


FIX_RSTNON = _fix_rstnon()
FIX = _fix()

MUTATIONS = [
    ("C08", "observe-number-not-incremented", FIX + [(IF, "                    next_observation_number += 1\n", "                    next_observation_number += 0\n")]),
    ("C08", "finally-cancellation-removed", FIX + [(IF, "        finally:\n            servobs._cancellation_callback()\n", "        finally:\n            pass\n")]),
    ("C08", "rst-does-not-call-error-monitor", FIX + [(MM, "        if message.mtype is RST:\n", "        if message.mtype is RST and False:\n")]),
    ("C08", "new-request-on-token-does-not-stop-old-pipe", FIX + [(TM, "            (pipe, stop) = self.incoming_requests.pop(key)\n            stop()\n", "            (pipe, stop) = self.incoming_requests.pop(key)\n")]),
    ("C08", "trigger-keeps-oldest-drops-newest", FIX + [(PR, "        if self._trigger.done():\n            # we don't care whether we overwrite anything, this is a lossy queue as observe is lossy\n            self._trigger = asyncio.get_running_loop().create_future()\n", "        if self._trigger.done():\n            return\n")]),
    ("C08", "con-timeout-not-dispatched", FIX + [(MM, "            self.token_manager.dispatch_error(\n                error.ConRetransmitsExceeded(\"Retransmissions exceeded\"), message.remote\n            )\n", "            pass\n")]),
    ("C08", "transport-error-spares-incoming", FIX + [(TM, "            if remote == _r:\n                stoppers.append(stopper)\n", "            if remote == _r and False:\n                stoppers.append(stopper)\n")]),
    ("C08", "unsuccessful-notification-not-final", FIX + [(IF, "                is_last = servobs._late_deregister or not response.code.is_successful()\n", "                is_last = servobs._late_deregister\n")]),
    ("C08", "is-last-ignored", FIX + [(PR, "        if is_last:\n            self._late_deregister = True\n", "        if is_last and False:\n            self._late_deregister = True\n")]),
    ("C08", "observer-set-not-shrunk", FIX + [(RS, "            self._observations.remove(serverobservation)\n", "            pass\n")]),
    # seeded change C08-seed1: the trigger slot is re-armed only after the rendering, so a state change that
    # arrives while render() is suspended is overwritten and forgotten
    (
        "C08",
        "trigger-rearmed-after-render",
        FIX
        + [
            (IF, "                response = servobs._trigger.result()\n                servobs._trigger = asyncio.get_running_loop().create_future()\n",
             "                response = servobs._trigger.result()\n"),
            (IF, "                # If block2 were to happen here, we'd store the full response\n                # here, and pick out block2:0.\n\n                is_last =",
             "                servobs._trigger = asyncio.get_running_loop().create_future()\n\n                is_last ="),
        ],
    ),
    # white-box adversary round (notes/adversary/C08_miss{1,2,3}.md, C08_caught.md A, B, G1)
    ("C08", "backlog-bounded-dropping-the-newest", FIX + [(MM, '            self.log.debug("Message to %s put into backlog", message.remote)\n',
                                                           '            if len(self._backlogs[message.remote]) >= 16:\n                return\n            self.log.debug("Message to %s put into backlog", message.remote)\n')]),
    ("C08", "rst-stops-all-registrations-of-the-endpoint", FIX + [(MM, '            messageerror_monitor()\n        self.log.debug("Exchange removed',
                                                                   '            messageerror_monitor()\n            self.token_manager.dispatch_error(error.MessageError(), message.remote)\n        self.log.debug("Exchange removed')]),
    ("C08", "new-request-voids-all-queued-responses-of-the-endpoint", FIX + [(MM, "                if not (m.code.is_response() and m.token == request.token)\n",
                                                                              "                if not m.code.is_response()\n")]),
    ("C08", "trigger-slot-cleared-after-first-response", FIX + [(IF, "            pipe.add_response(first_response, is_last=False)\n",
                                                                 "            pipe.add_response(first_response, is_last=False)\n            if servobs._trigger.done():\n                servobs._trigger = asyncio.get_running_loop().create_future()\n")]),
    ("C08", "rst-drops-whole-backlog-of-the-endpoint", FIX + [(MM, "                for (m, monitor) in self._backlogs.get(message.remote, [])\n                if monitor is not messageerror_monitor\n",
                                                               "                for (m, monitor) in self._backlogs.get(message.remote, [])\n                if False\n")]),
    ("C08", "error-of-one-remote-stops-all-observers", FIX + [(TM, "            if remote == _r:\n                stoppers.append(stopper)\n",
                                                               "            if True:\n                stoppers.append(stopper)\n")]),
    ("C08", "shutdown-leaves-observations", FIX + [(TM, "            (_, stop) = self.incoming_requests.pop(key)\n            # This cancels them, not sending anything.", "            (_, stop) = self.incoming_requests.pop(key)\n            stop = lambda: None\n            # This cancels them, not sending anything.")]),
]

# -- extension: Block2 next to Observe, separate first responses, several resources, re-registration, NON + Reset --
_CONTINUE_FIXME = (
    "            first_response.opt.observe = next_observation_number = 0\n"
)
MUTATIONS += [
    # a plain GET for a later block (another token!) is taken for the continuation of "the" exchange of that
    # endpoint and replaces whatever the endpoint has running
    ("C08", "ext-later-block-request-stops-the-endpoints-observations", FIX + [(TM, "        key = (request.token, request.remote)\n\n        if key in self.incoming_requests:\n",
        "        key = (request.token, request.remote)\n\n"
        "        if request.opt.block2 is not None and request.opt.block2.block_number > 0 and request.opt.observe is None:\n"
        "            for k in [k for k in self.incoming_requests if k[1] == request.remote]:\n"
        "                (_, stop) = self.incoming_requests.pop(k)\n"
        "                stop()\n\n"
        "        if key in self.incoming_requests:\n")]),
    # notifications of a registration whose request carried Block2 do not count up
    ("C08", "ext-observe-number-stuck-when-request-has-block2", FIX + [(IF, "                if not is_last:\n                    next_observation_number += 1\n",
        "                if not is_last:\n                    next_observation_number += 1 if pipe.request.opt.block2 is None else 0\n")]),
    # the first response is sent without the pipe's stopper as its error monitor: a Reset answering a SEPARATE
    # first response does not end the registration
    ("C08", "ext-reset-to-separate-first-response-not-monitored", FIX + [(TM, "                    stop,\n                )\n            else:\n",
        "                    stop if m.opt.observe != 0 else (lambda: None),\n                )\n            else:\n")]),
    # a request that arrives while the token's previous request is still waiting for its ACK is dropped
    ("C08", "ext-new-request-during-first-rendering-dropped", FIX + [(MM, "                mid, old_handle = self._piggyback_opportunities.pop(key)\n                old_handle.cancel()\n",
        "                mid, old_handle = self._piggyback_opportunities.pop(key)\n                old_handle.cancel()\n                handle.cancel()\n                return\n")]),
    # the observer count a resource reports is the total over all observable resources
    ("C08", "ext-observer-count-global-across-resources", FIX + [
        (RS, "class ObservableResource(Resource, interfaces.ObservableResource):\n", "_ALL_OBSERVATIONS = set()\n\n\nclass ObservableResource(Resource, interfaces.ObservableResource):\n"),
        (RS, "        self._observations.add(serverobservation)\n", "        self._observations.add(serverobservation)\n        _ALL_OBSERVATIONS.add(serverobservation)\n"),
        (RS, "            self._observations.remove(serverobservation)\n            self.update_observation_count(len(self._observations))\n",
             "            self._observations.remove(serverobservation)\n            _ALL_OBSERVATIONS.discard(serverobservation)\n            self.update_observation_count(len(_ALL_OBSERVATIONS))\n"),
    ]),
    # a renewed registration starts above the numbers of the previous one on that token, but its notifications
    # count from 1 again: falling numbers inside ONE registration
    ("C08", "ext-renewal-first-number-continued-notifications-restart", FIX + [
        (IF, _CONTINUE_FIXME,
         "            numbers = self.__dict__.setdefault('_verif_numbers', {})\n"
         "            nkey = (pipe.request.remote, pipe.request.token)\n"
         "            first_response.opt.observe = numbers.get(nkey, -1) + 1\n"
         "            next_observation_number = 0\n"),
        (IF, "                    response.opt.observe = next_observation_number\n",
         "                    response.opt.observe = next_observation_number\n                    numbers[nkey] = next_observation_number\n"),
    ]),
    # blind seed C08-seed4: the first rendering of an accepted registration moved out of the try/finally, so a
    # registration that ends during its first rendering (render raises, new request on the token, error, shutdown)
    # never runs the cancellation callback
    ("C08", "seed4-first-render-outside-try-finally", FIX + [("@patch", "notes/C08-seed4.diff", 2)]),
    # the proposed repair of the Reset-to-NON finding made too broad
    ("C08", "ext-reset-to-non-stops-every-pipe-of-the-endpoint", FIX + FIX_RSTNON + [(MM, "            messageerror_monitor, _ = self._recent_non_responses.pop(key)\n",
        "            messageerror_monitor, _ = self._recent_non_responses.pop(key)\n"
        "            self.token_manager.dispatch_error(error.MessageError(), message.remote)\n")]),
]

CONTROLS = [
    ("C08", "proposed-fix-only", FIX),
    ("C08", "observe-numbers-step-two", FIX + [(IF, "                    next_observation_number += 1\n", "                    next_observation_number += 2\n")]),
    ("C08", "updated-state-iterates-a-copy", FIX + [(RS, "        for o in self._observations:\n", "        for o in list(self._observations):\n")]),
    # the FIXME of _render_to_pipe carried out: Observe numbers per (remote, token), continued by a renewed
    # registration (the statement constrains the numbers inside one registration only)
    ("C08", "ext-observe-numbers-continue-across-renewal", FIX + [
        (IF, _CONTINUE_FIXME,
         "            numbers = self.__dict__.setdefault('_verif_numbers', {})\n"
         "            nkey = (pipe.request.remote, pipe.request.token)\n"
         "            first_response.opt.observe = next_observation_number = numbers.get(nkey, -1) + 1\n"
         "            numbers[nkey] = next_observation_number\n"),
        (IF, "                    response.opt.observe = next_observation_number\n",
         "                    response.opt.observe = next_observation_number\n                    numbers[nkey] = next_observation_number\n"),
    ]),
    # the comment at the top of _render_to_pipe carried out: a request for a later block is no registration
    ("C08", "ext-observe-ignored-on-later-block-requests", FIX + [(IF, "        if pipe.request.opt.observe != 0:\n            return await Resource._render_to_pipe(self, pipe)\n",
        "        if pipe.request.opt.observe != 0 or (\n            pipe.request.opt.block2 is not None and pipe.request.opt.block2.block_number > 0\n        ):\n            return await Resource._render_to_pipe(self, pipe)\n")]),
    # NON requests are remembered as well (a Reset then fails the request): nothing of C08
    # the proposed repair of the known finding: with it the tree is silent, without any KNOWN-FINDING line
    ("C08", "ext-proposed-reset-to-non-repair-only", FIX + FIX_RSTNON),
    ("C08", "ext-non-requests-remembered-too", FIX + FIX_RSTNON + [(MM, "            and messageerror_monitor is not None\n            and message.code.is_response()\n        ):\n",
        "            and messageerror_monitor is not None\n        ):\n")]),
]
