BW = "aiocoap/blockwise.py"
MSG = "aiocoap/message.py"
TD = "aiocoap/util/asyncio/timeoutdict.py"

MUTATIONS = [
    ("C06", "block-key-without-endpoint", [(BW, "        message.remote.blockwise_key,\n", "        None,\n")]),
    ("C06", "append-without-offset-check", [(MSG, "        if block1.start == len(self.payload):\n            self.payload += next_block.payload", "        if True:\n            self.payload += next_block.payload")]),
    ("C06", "timeoutdict-drops-recently-used", [(TD, "            k: v for (k, v) in self._items.items() if k in self._recently_accessed\n", "            k: v for (k, v) in self._items.items() if k not in self._recently_accessed\n")]),
    ("C06", "block2-more-inverted-at-end", [(MSG, "        more = True if end < len(self.payload) else False\n", "        more = True if end <= len(self.payload) else False\n")]),
    ("C06", "spool-not-replaced-at-block0", [(BW, "        if req.opt.block1.block_number == 0:\n            # silently discarding any old incomplete operation\n            self._assemblies[block_key] = req", "        if req.opt.block1.block_number == 0 and block_key not in self._assemblies._items:\n            # silently discarding any old incomplete operation\n            self._assemblies[block_key] = req")]),
    ("C06", "gap-gives-500-again", [(BW, "            except (KeyError, ValueError):", "            except KeyError:")]),
    ("C06", "stale-rendering-kept", [(BW, "                self._completes.discard(block_key)\n", "                pass\n")]),
    ("C06", "intermediate-block-reaches-handler", [(BW, "        if req.opt.block1.more:\n            raise ContinueException(req.opt.block1)", "        if req.opt.block1.more and req.opt.block1.block_number != 1:\n            raise ContinueException(req.opt.block1)")]),
]

CONTROLS = [
    ("C06", "timeoutdict-bookkeeping-variant", [(TD, "        if self._timeout is None:\n            self._start_over()\n            # No need to add the key, it'll live for this duration anyway", "        if self._timeout is None:\n            self._start_over()\n            self._recently_accessed.add(key)\n            # (adding the key as well: still within [T, 2T])")]),
]

# ---- second part: combined Block1 + Block2, methods, size exponents, lifetimes of combined transfers ----
IF = "aiocoap/interfaces.py"

MUTATIONS += [
    # the rendering made for a completed upload is not kept: the follow-ups for its later blocks get 4.08
    ("C06", "combined-rendering-of-upload-not-kept", [(BW, "            self._completes[block_key] = assembled\n", "            if req.opt.block1 is None:\n                self._completes[block_key] = assembled\n")]),
    # the Block2 option of the final request block is not taken over into the assembled request: the response to
    # the completed upload comes whole instead of as block 0 of the size asked for
    ("C06", "combined-final-block2-option-lost", [(MSG, "            if not block1.more and next_block.opt.block2 is not None:\n                self.opt.block2 = next_block.opt.block2\n", "")]),
    # a follow-up that carries a payload (FETCH / POST repeating their body) is rendered anew instead of being cut
    # from the rendering of the block-0 request
    ("C06", "payload-bearing-followup-renders-again", [(BW, "        if req.opt.block2 is None or req.opt.block2.block_number == 0:\n            assembled = await response_builder()", "        if req.opt.block2 is None or req.opt.block2.block_number == 0 or (len(req.payload) > 0 and req.opt.block1 is None):\n            assembled = await response_builder()")]),
    # the block key forgets the method: FETCH and POST with the same options share assemblies and renderings
    ("C06", "block-key-without-method", [(BW, "        message.code,\n        message.get_cache_key(", "        None,\n        message.get_cache_key("),
                                         (BW, "                OptionNumber.OBSERVE,\n            ]\n        ),\n", "                OptionNumber.OBSERVE,\n            ]\n        )[1],\n")]),
    # BERT on UDP: the reserved size exponent 7 yields multi-kilobyte "blocks"
    ("C06", "bert-blocks-served-on-udp", [(IF, "        return 1124\n", "        return 2248\n")]),
    # a later block asked for with a grown size that covers the whole rendering is answered with the whole rendering
    ("C06", "later-block-whole-when-size-grown", [(BW, "                or req.opt.block2.block_number != 0\n", "")]),
    # a follow-up does not count as a use of the rendering: a transfer that takes longer than twice the lifetime breaks
    ("C06", "followup-does-not-refresh-rendering", [(BW, "                assembled = self._completes[block_key]\n", "                assembled = self._completes._items[block_key]\n"),
                                                    (BW, "            self._completes[block_key] = assembled\n", "            if req.opt.block2 is None or req.opt.block2.block_number == 0:\n                self._completes[block_key] = assembled\n")]),
    # a completed upload is rendered twice
    ("C06", "completed-upload-rendered-twice", [(IF, "            req = self._block1.feed_and_take(req)\n", "            req = self._block1.feed_and_take(req)\n            if req.opt.block1 is not None and (req.opt.block2 is None or req.opt.block2.block_number == 0):\n                await self.render(req)\n")]),
    # a block-0 request is served from the rendering kept for an earlier one
    ("C06", "block0-served-from-kept-rendering", [(BW, "        if req.opt.block2 is None or req.opt.block2.block_number == 0:\n            assembled = await response_builder()", "        if (req.opt.block2 is None or req.opt.block2.block_number == 0) and block_key not in self._completes._items:\n            assembled = await response_builder()")]),
]

CONTROLS += [
    # the reserved exponent 7 answered with exponent 6 (same 1024-byte slices): admissible
    ("C06", "szx7-answered-with-szx6", [(BW, "                block2.block_number,\n                block2.size_exponent,\n", "                block2.block_number,\n                min(block2.size_exponent, 6),\n")]),
    # the statement asks for the Block1 echo on intermediate blocks only
    ("C06", "final-response-without-block1-echo", [(IF, "            res.opt.block1 = req.opt.block1\n", "            pass\n")]),
]
