BW = "aiocoap/blockwise.py"
MSG = "aiocoap/message.py"
TD = "aiocoap/util/asyncio/timeoutdict.py"

MUTATIONS = [
    ("C06", "block-key-without-endpoint", [(BW, "        message.remote.blockwise_key,\n", "        None,\n")]),
    ("C06", "append-without-offset-check", [(MSG, "        if block1.start == len(self.payload):\n            self.payload += next_block.payload", "        if True:\n            self.payload += next_block.payload")]),
    ("C06", "timeoutdict-drops-recently-used", [(TD, "            k: v for (k, v) in self._items.items() if k in self._recently_accessed\n", "            k: v for (k, v) in self._items.items() if k not in self._recently_accessed\n")]),
    ("C06", "block2-more-inverted-at-end", [(MSG, "        more = True if end < len(self.payload) else False\n", "        more = True if end <= len(self.payload) else False\n")]),
    ("C06", "spool-not-replaced-at-block0", [(BW, "        if req.opt.block1.block_number == 0:\n            # silently discarding any old incomplete operation\n            self._assemblies[block_key] = req", "        if req.opt.block1.block_number == 0 and block_key not in self._assemblies._items:\n            # silently discarding any old incomplete operation\n            self._assemblies[block_key] = req")]),
    ("C06", "gap-gives-500-again", [(BW, "            except (KeyError, ValueError):", "            except KeyError:")]),
    ("C06", "stale-rendering-kept", [(BW, "                self._completes.discard(block_key)\n", "                pass\n")]),
    ("C06", "intermediate-block-reaches-handler", [(BW, "        if req.opt.block1.more:\n            raise ContinueException(req.opt.block1)", "        if req.opt.block1.more and req.opt.block1.block_number != 1:\n            raise ContinueException(req.opt.block1)")]),
]

CONTROLS = [
    ("C06", "timeoutdict-bookkeeping-variant", [(TD, "        if self._timeout is None:\n            self._start_over()\n            # No need to add the key, it'll live for this duration anyway", "        if self._timeout is None:\n            self._start_over()\n            self._recently_accessed.add(key)\n            # (adding the key as well: still within [T, 2T])")]),
]
