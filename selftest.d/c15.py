"""Mutation catalogue for bin/selftest, property C15 (CoAP over TCP).

The pinned tree has genuine C15 defects (notes/C15.md): an empty message is
processed as a request, and a non-UTF-8 value in an option whose number is of
string format escapes data_received as UnicodeDecodeError (also for options of
signalling messages, which have number spaces of their own).  A mutation can
only be told from them on a tree without them, so while /repo still shows the
defective lines every entry first applies the two scaffold repairs below (in
the scratch copy only); once /repo is repaired the anchors are gone and the
entries consist of the mutation alone."""

import os

TCP = "aiocoap/transports/tcp.py"
COMMON = "aiocoap/transports/rfc8323common.py"
_REPO = "/repo"


def _has(path, text):
    try:
        return open(os.path.join(_REPO, path)).read().count(text) == 1
    except OSError:
        return False


_EMPTY_OLD = "        if msg.code == 0:\n            pass\n"
_EMPTY_NEW = "        if msg.code == 0:\n            return\n"
_DEC_OLD = "    msg.payload = msg.opt.decode(data[tokenoffset + tkl :])\n"
_DEC_NEW = '''    if msg.code.is_signalling():
        # own option number space: nothing to interpret
        from aiocoap.optiontypes import OpaqueOption
        from aiocoap.numbers.optionnumbers import OptionNumber
        from aiocoap.options import _read_extended_field_value

        rawdata = data[tokenoffset + tkl :]
        number = OptionNumber(0)
        msg.payload = b""
        while rawdata:
            if rawdata[0] == 0xFF:
                msg.payload = rawdata[1:]
                break
            delta, length = rawdata[0] >> 4, rawdata[0] & 0x0F
            delta, rawdata = _read_extended_field_value(delta, rawdata[1:])
            length, rawdata = _read_extended_field_value(length, rawdata)
            number += delta
            if len(rawdata) < length:
                raise error.UnparsableMessage("Option announced but absent")
            msg.opt.add_option(OpaqueOption(number, rawdata[:length]))
            rawdata = rawdata[length:]
    else:
        try:
            msg.payload = msg.opt.decode(data[tokenoffset + tkl :])
        except UnicodeDecodeError:
            raise error.UnparsableMessage("Option value is not UTF-8")
'''

FIX = []
if _has(TCP, _EMPTY_OLD):
    FIX.append((TCP, _EMPTY_OLD, _EMPTY_NEW))
if _has(TCP, _DEC_OLD):
    FIX.append((TCP, _DEC_OLD, _DEC_NEW))


def M(name, *edits):
    return ("C15", name, FIX + list(edits))


MUTATIONS = [
    M("encode-length-269-as-one-byte", (TCP, "    elif length < 269:\n        return (13, (length - 13).to_bytes(1, \"big\"))", "    elif length < 270:\n        return (13, (length - 13).to_bytes(1, \"big\") if length < 269 else b\"\\xff\")")),
    M("encode-length-13-in-nibble", (TCP, "    if length < 13:\n        return (length, b\"\")", "    if length < 14:\n        return (length, b\"\")")),
    M("extract-size-offset-268", (TCP, "            extlen = 2\n            offset = 269\n", "            extlen = 2\n            offset = 268\n")),
    M("csm-gate-removed", (TCP, "            if self._remote_settings is None:\n                self.abort(\"No CSM received\")\n                return\n", "")),
    M("spool-replaced-not-appended", (TCP, "        self._spool += data\n", "        self._spool = data\n")),
    M("frame-complete-needs-one-more-byte", (TCP, "            if msglen > len(self._spool):\n                break\n", "            if msglen >= len(self._spool):\n                break\n")),
    M("pong-with-empty-token", (COMMON, "                pong = Message(code=PONG, token=msg.token)", "                pong = Message(code=PONG)")),
    M("size-limit-not-enforced", (TCP, "            if msglen > self._my_max_message_size:", "            if False and msglen > self._my_max_message_size:")),
    M("reserved-tkl-accepted", (TCP, "    if tkl > 8:\n        raise error.UnparsableMessage(\"Overly long token\")", "    if tkl > 15:\n        raise error.UnparsableMessage(\"Overly long token\")")),
    M("abort-does-not-close", (TCP, "            self._send_message(abort_msg)\n            self._transport.close()\n", "            self._send_message(abort_msg)\n")),
    M("critical-csm-option-ignored", (COMMON, "                elif opt.number.is_critical():\n                    self.abort(\"Option not supported\", bad_csm_option=opt.number)\n", "                elif False:\n                    pass\n")),
    M("release-ignored", (COMMON, "                raise CloseConnection(\n                    error.RemoteServerShutdown(\"Peer released connection\")\n                )", "                pass")),
]
if any(e[1] == _EMPTY_OLD for e in FIX) or _has(TCP, _EMPTY_NEW):
    MUTATIONS.append(M("empty-message-processed", (TCP, _EMPTY_NEW, _EMPTY_OLD)))

CONTROLS = [
    M("spool-concatenated-differently", (TCP, "        self._spool += data\n", "        self._spool = b\"\".join((self._spool, bytes(data)))\n")),
    M("abort-diagnostic-reworded", (TCP, "                self.abort(\"Overly large message announced\")", "                self.abort(\"Message longer than my Max-Message-Size\")")),
]
