"""Mutation catalogue for bin/selftest, property C15 (CoAP over TCP).

/repo carries the repairs of the two genuine C15 findings (2a3f3bb: empty
message ignored; d9dc37d: UnicodeDecodeError -> UnparsableMessage in
Options.decode); the last two mutations take them out again."""

TCP = "aiocoap/transports/tcp.py"
COMMON = "aiocoap/transports/rfc8323common.py"
OPTIONS = "aiocoap/options.py"


def M(name, *edits):
    return ("C15", name, list(edits))


MUTATIONS = [
    M("encode-length-269-as-one-byte", (TCP, "    elif length < 269:\n        return (13, (length - 13).to_bytes(1, \"big\"))", "    elif length < 270:\n        return (13, (length - 13).to_bytes(1, \"big\") if length < 269 else b\"\\xff\")")),
    M("encode-length-13-in-nibble", (TCP, "    if length < 13:\n        return (length, b\"\")", "    if length < 14:\n        return (length, b\"\")")),
    M("extract-size-offset-268", (TCP, "            extlen = 2\n            offset = 269\n", "            extlen = 2\n            offset = 268\n")),
    M("csm-gate-removed", (TCP, "            if self._remote_settings is None:\n                self.abort(\"No CSM received\")\n                return\n", "")),
    M("spool-replaced-not-appended", (TCP, "        self._spool += data\n", "        self._spool = data\n")),
    M("frame-complete-needs-one-more-byte", (TCP, "            if msglen > len(self._spool):\n                break\n", "            if msglen >= len(self._spool):\n                break\n")),
    M("pong-with-empty-token", (COMMON, "                pong = Message(code=PONG, token=msg.token)", "                pong = Message(code=PONG)")),
    M("size-limit-not-enforced", (TCP, "            if msglen > self._my_max_message_size:", "            if False and msglen > self._my_max_message_size:")),
    M("reserved-tkl-accepted", (TCP, "    if tkl > 8:\n        raise error.UnparsableMessage(\"Overly long token\")", "    if tkl > 15:\n        raise error.UnparsableMessage(\"Overly long token\")")),
    M("abort-does-not-close", (TCP, "            self._send_message(abort_msg)\n            self._transport.close()\n", "            self._send_message(abort_msg)\n")),
    M("critical-csm-option-ignored", (COMMON, "                elif opt.number.is_critical():\n                    self.abort(\"Option not supported\", bad_csm_option=opt.number)\n", "                elif False:\n                    pass\n")),
    M("release-ignored", (COMMON, "                raise CloseConnection(\n                    error.RemoteServerShutdown(\"Peer released connection\")\n                )", "                pass")),
    M("empty-message-processed", (TCP, "            # Empty messages are ignored (RFC 8323 Section 3.4)\n            return\n", "            pass\n")),
    M("unicode-error-escapes", (OPTIONS, "            except UnicodeDecodeError as e:\n", "            except UnicodeTranslateError as e:\n")),
]

# changes a white-box adversary found the quick tier silent on (notes/adversary/C15_miss*.md);
# caught since the driver knows write backlog and concurrently opened connections and the
# generators pipeline and give signalling messages tokens and diagnostic payloads
A = "notes/adversary/"
MUTATIONS += [
    ("C15", "adv-error-dispatch-only-for-pooled-connection", [("@patch", A + "C15_miss1.diff", 3)]),
    ("C15", "adv-abort-discarded-by-transport-abort", [("@patch", A + "C15_miss2.diff", 3)]),
    ("C15", "adv-at-most-64-messages-per-data-received", [("@patch", A + "C15_miss3.diff", 3)]),
    ("C15", "adv-release-reported-only-from-connection-lost", [("@patch", A + "C15_miss4.diff", 3)]),
    ("C15", "adv-signalling-payload-refused", [("@patch", A + "C15_miss5.diff", 3)]),
]

CONTROLS = [
    M("spool-concatenated-differently", (TCP, "        self._spool += data\n", "        self._spool = b\"\".join((self._spool, bytes(data)))\n")),
    M("abort-diagnostic-reworded", (TCP, "                self.abort(\"Overly large message announced\")", "                self.abort(\"Message longer than my Max-Message-Size\")")),
]
