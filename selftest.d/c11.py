"""C11 mutation catalogue: (property, name, [(file, old, new)]).

The pinned tree violates C11 by itself (see notes/C11.md), which would make
every mutation look "caught" and every control a "false alarm".  As long as
/repo does not contain the repairs, every entry therefore first applies the
proposed repairs (notes/C11-proposed-fix.patch) and then its own change; the
control "proposed-fix-only" shows that the repaired tree is silent."""

OS = "aiocoap/oscore.py"

_FIX = [
    (
        OS,
        "            # kid context hint\n            s = tail[0]\n",
        '            # kid context hint\n            if not tail:\n                raise DecodeError("Context hint announced but not present")\n            s = tail[0]\n',
    ),
    (
        OS,
        "        pivsz = firstbyte & COMPRESSION_BITS_N\n        if pivsz:\n",
        '        pivsz = firstbyte & COMPRESSION_BITS_N\n        if pivsz > 5:\n            raise DecodeError("Partial IV length is reserved")\n        if pivsz:\n',
    ),
    (
        OS,
        "                alg_signature = self.alg_signature\n            except NameError:\n",
        "                alg_signature = self.alg_signature\n            except AttributeError:\n",
    ),
    (
        OS,
        "        if unprotected.pop(COSE_KID, self.recipient_id) != self.recipient_id:\n",
        '        if not is_response and COSE_KID not in unprotected:\n            raise ProtectionInvalid("No sender ID provided in request")\n\n'
        "        if unprotected.pop(COSE_KID, self.recipient_id) != self.recipient_id:\n",
    ),
]


def _fix():
    """Only the repairs the tree does not have yet."""
    src = open("/repo/" + OS).read()
    return [(f, old, new) for f, old, new in _FIX if src.count(old) == 1 and new not in src]


FIX = _fix()

MUTATIONS = [
    # seeded/C11-seed3: responses carrying their own partial IV are struck out of the (request) replay window
    (
        "C11",
        "responses-struck-out-of-replay-window",
        FIX + [(OS, "        if not is_response and seqno is not None and replay_error is None:\n", "        if seqno is not None and replay_error is None:\n")],
    ),
    ("C11", "request-piv-not-in-aad", FIX + [(OS, "            request_id.partial_iv,\n            class_i_options,\n", '            b"",\n            class_i_options,\n')]),
    ("C11", "request-kid-not-in-aad", FIX + [(OS, "            request_id.kid,\n            request_id.partial_iv,\n", '            b"",\n            request_id.partial_iv,\n')]),
    (
        "C11",
        "uri-path-left-in-outer-message",
        FIX + [(OS, "            uri_host=outer_host,\n            observe=None if message.code.is_response() else message.opt.observe,\n", "            uri_host=outer_host,\n            uri_path=message.opt.uri_path,\n            observe=None if message.code.is_response() else message.opt.observe,\n")],
    ),
    (
        "C11",
        "kid-context-comparison-removed",
        FIX + [(OS, "        if unprotected.pop(COSE_KID_CONTEXT, self.id_context) != self.id_context:\n", "        if unprotected.pop(COSE_KID_CONTEXT, self.id_context) is None and False:\n")],
    ),
    (
        "C11",
        "nonce-without-generator-id",
        FIX + [(OS, "        components = s + pad_id + piv_generator_id + pad_piv + partial_iv_short\n", "        components = s + pad_id + bytes(len(piv_generator_id)) + pad_piv + partial_iv_short\n")],
    ),
    (
        "C11",
        "kid-comparison-removed",
        FIX
        + [(OS, "        if unprotected.pop(COSE_KID, self.recipient_id) != self.recipient_id:\n", "        if unprotected.pop(COSE_KID, self.recipient_id) is None:\n")],
    ),
    ("C11", "response-outer-code-is-inner-code", FIX + [(OS, "            outer_code = request_id.code_style.response\n", "            outer_code = message.code\n")]),
    (
        "C11",
        "max-age-lost-in-round-trip",
        FIX + [(OS, "            inner_message = message.copy()\n\n            outer_code = request_id.code_style.response\n", "            inner_message = message.copy(max_age=None)\n\n            outer_code = request_id.code_style.response\n")],
    ),
]

# found by white-box adversaries (notes/adversary/C11_miss*.md); silent when found
A = "notes/adversary/"
MUTATIONS += [
    ("C11", "adv-proxy-uri-left-in-outer-message", [("@patch", A + "C11_miss1.diff", 3)]),
    ("C11", "adv-emptied-id-context-accepted", [("@patch", A + "C11_miss2.diff", 3)]),
    ("C11", "adv-notification-number-kept-in-request-identifiers", [("@patch", A + "C11_miss3.diff", 3)]),
    ("C11", "adv-outer-code-chosen-by-inner-code", [("@patch", A + "C11_miss4.diff", 3)]),
]

CONTROLS = [
    # a ciphertext of tag length or less cannot carry a valid tag anyway: the AEAD rejects it (same error family)
    ("C11", "short-ciphertext-check-removed", FIX + [(OS, "            len(ciphertext) < self.alg_aead.tag_bytes + 1\n", "            len(ciphertext) < 0\n")]),
    ("C11", "proposed-fix-only", FIX + [(OS, 'raise ProtectionInvalid("Tag invalid")\n\n\nclass AES_CCM_16_64_128', 'raise ProtectionInvalid("Tag invalid.")\n\n\nclass AES_CCM_16_64_128')]),
    ("C11", "short-ciphertext-is-a-decode-error", FIX + [(OS, '            raise ProtectionInvalid("Ciphertext too short")\n', '            raise DecodeError("Ciphertext too short")\n')]),
    ("C11", "reserved-bits-plain-protection-error", FIX + [(OS, '            raise DecodeError("Protected data uses reserved fields")\n', '            raise ProtectionInvalid("Protected data uses reserved fields")\n')]),
]
