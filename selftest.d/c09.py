PIPE = "aiocoap/pipe.py"
RES = "aiocoap/resource.py"
PROTO = "aiocoap/protocol.py"

MUTATIONS = [
    ("C09", "exception-text-in-500-payload", [(PIPE, "            old_pr.add_response(Message(code=INTERNAL_SERVER_ERROR), is_last=True)", "            old_pr.add_response(Message(code=INTERNAL_SERVER_ERROR, payload=repr(e).encode()), is_last=True)")]),
    ("C09", "delete-default-code-changed", [(RES, "                response_default = Code.DELETED", "                response_default = Code.CHANGED")]),
    ("C09", "exceptions-not-converted", [(PIPE, "        except Exception as e:\n            pipe.add_exception(e)\n        # Not doing anything special about cancellation", "        except Exception as e:\n            pass\n        # Not doing anything special about cancellation")]),
    ("C09", "notfound-mapped-to-500", [(PIPE, "        if isinstance(e, error.RenderableError):\n            # the repr() here", "        if isinstance(e, error.RenderableError) and not isinstance(e, error.NotFound):\n            # the repr() here")]),
    ("C09", "failing-renderer-not-caught", [(PIPE, "            except Exception as e2:\n                log.error(\n                    \"Rendering the renderable exception failed: %r\", e2, exc_info=e2\n                )\n                msg = Message(code=INTERNAL_SERVER_ERROR)", "            except ZeroDivisionError as e2:\n                log.error(\n                    \"Rendering the renderable exception failed: %r\", e2, exc_info=e2\n                )\n                msg = Message(code=INTERNAL_SERVER_ERROR)")]),
    ("C09", "no-site-gives-500", [(PROTO, "                Message(code=NOT_FOUND, payload=b\"not a server\"), is_last=True", "                Message(code=INTERNAL_SERVER_ERROR, payload=b\"not a server\"), is_last=True")]),
    ("C09", "unimplemented-method-404", [(RES, "        if not m:\n            raise error.UnallowedMethod()", "        if not m:\n            raise error.NotFound()")]),
]

CONTROLS = [
    ("C09", "log-message-reworded", [(PIPE, "\"An exception occurred while rendering a resource: %r\"", "\"An exception occurred while rendering the resource: %r\"")]),
]

MUTATIONS += [
    ("C09", "pipe-interest-end-fires-twice", [(PIPE, "                    lambda e: ((callback(), False) if e.is_last else (None, True))[1],", "                    lambda e: ((callback(), True) if e.is_last else (None, True))[1],")]),
    ("C09", "pipe-unregister-does-not-end", [(PIPE, "        if not self._any_interest():\n            self._end()\n\n    def on_interest_end", "        if not self._any_interest() and not self._event_callbacks:\n            self._end()\n\n    def on_interest_end")]),
]
