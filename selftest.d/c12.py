"""C12 mutation catalogue: (property, name, [(file, old, new)])."""

OS = "aiocoap/oscore.py"

_STRIKE_AFTER = """        if not is_response and seqno is not None and replay_error is None:
            self.recipient_replay_window.strike_out(seqno)

        # FIXME add options from unprotected
"""
_DECRYPT = """        try:
            plaintext = alg_symmetric.decrypt(ciphertext, aad, key, nonce)
"""


def _rename_window_attributes():
    """Behaviour-preserving: ReplayWindow keeps its state under other attribute
    names (the check's state projection must degrade, not alarm)."""
    src = open("/repo/" + OS).read()
    a = src.index("    _index = None\n")
    b = src.index('        return {"index": self._index, "bitfield": self._bitfield}\n') + len(
        '        return {"index": self._index, "bitfield": self._bitfield}\n'
    )
    old = src[a:b]
    return [(OS, old, old.replace("_index", "_lowest").replace("_bitfield", "_bits"))]


MUTATIONS = [
    (
        "C12",
        "strike-out-before-decryption",
        [
            (OS, _STRIKE_AFTER, "        # FIXME add options from unprotected\n"),
            (
                OS,
                _DECRYPT,
                "        if not is_response and seqno is not None and replay_error is None:\n"
                "            self.recipient_replay_window.strike_out(seqno)\n" + _DECRYPT,
            ),
        ],
    ),
    ("C12", "shift-one-less", [(OS, "            self._bitfield >>= overshoot\n", "            self._bitfield >>= overshoot - 1\n")]),
    ("C12", "window-one-wider", [(OS, "        overshoot = number - (self._index + self._size - 1)\n", "        overshoot = number - (self._index + self._size)\n")]),
    ("C12", "echo-comparison-removed", [(OS, "                if unprotected_message.opt.echo == self.echo_recovery:\n", "                if True:\n")]),
    ("C12", "no-strike-out", [(OS, _STRIKE_AFTER, "        # FIXME add options from unprotected\n")]),
    ("C12", "freshlyseen-not-marked", [(OS, "        self._index = seen\n        self._bitfield = 1\n", "        self._index = seen\n        self._bitfield = 0\n")]),
    ("C12", "index-itself-rejected", [(OS, "        if number < self._index:\n            return False\n", "        if number <= self._index:\n            return False\n")]),
    (
        "C12",
        "uninitialised-window-skips-check",
        [(OS, '                    replay_error = ReplayError("Sequence number check unavailable")\n', "                    self.recipient_replay_window.initialize_empty()\n")],
    ),
]

# found by white-box adversaries (notes/adversary/C12_miss*.md); silent when found.
# (C12_miss2 -- Echo value derived from the key instead of drawn per process -- is caught by C13.)
A = "notes/adversary/"
MUTATIONS += [
    ("C12", "adv-late-response-reinitialises-window", [("@patch", A + "C12_miss1.diff", 3)]),
    ("C12", "adv-uninitialised-window-without-echo-starts-over", [("@patch", A + "C12_miss3.diff", 3)]),
]

# -- extension round (forged/tampered traffic, window arithmetic at real sizes, Echo recovery orderings, responses) --
_TOO_SHORT = """            raise ProtectionInvalid("Ciphertext too short")
"""
_RESP_PIV = """            seqno = int.from_bytes(partial_iv_short, "big")

            if not is_response:
"""
MUTATIONS += [
    # part 4: a response (own Partial IV) strikes its number out of the REQUEST window (seeded C11-seed3)
    ("C12", "ext-response-strikes-out-request-window", [(OS, "        if not is_response and seqno is not None and replay_error is None:\n            self.recipient_replay_window.strike_out(seqno)\n\n        # FIXME add options", "        if seqno is not None and replay_error is None:\n            self.recipient_replay_window.strike_out(seqno)\n\n        # FIXME add options")]),
    # ... the quiet variant: only when the window would take it (no exception on late or early responses)
    (
        "C12",
        "ext-response-strikes-out-when-valid",
        [
            (
                OS,
                "        if not is_response and seqno is not None and replay_error is None:\n            self.recipient_replay_window.strike_out(seqno)\n\n        # FIXME add options",
                "        if seqno is not None and replay_error is None and (not is_response or (self.recipient_replay_window.is_initialized() and self.recipient_replay_window.is_valid(seqno))):\n            self.recipient_replay_window.strike_out(seqno)\n\n        # FIXME add options",
            )
        ],
    ),
    # part 1: a forged RESPONSE initialises the uninitialised window (before authentication)
    (
        "C12",
        "ext-forged-response-initialises-window",
        [
            (
                OS,
                _RESP_PIV,
                '            seqno = int.from_bytes(partial_iv_short, "big")\n\n'
                "            if is_response and not self.recipient_replay_window.is_initialized() and self.echo_recovery is not None:\n"
                "                self.recipient_replay_window.initialize_from_freshlyseen(seqno)\n\n"
                "            if not is_response:\n",
            )
        ],
    ),
    # part 1: a message with a truncated ciphertext burns its sequence number
    (
        "C12",
        "ext-short-ciphertext-burns-number",
        [
            (
                OS,
                _TOO_SHORT,
                "            if not is_response and seqno is not None and replay_error is None:\n"
                "                self.recipient_replay_window.strike_out(seqno)\n" + _TOO_SHORT,
            )
        ],
    ),
    # part 2: only visible at the real window size: bit 31 of the bitfield is lost
    ("C12", "ext-bitfield-masked-to-31-bits", [(OS, "        self._bitfield |= 1 << (number - self._index)\n", "        self._bitfield |= 1 << (number - self._index)\n        self._bitfield &= 0x7FFFFFFF\n")]),
    # part 2: only visible next to 2^40-1: the index is kept in 32 bits
    ("C12", "ext-index-wraps-at-32-bits", [(OS, "            self._index += overshoot\n", "            self._index = (self._index + overshoot) & 0xFFFFFFFF\n")]),
    # part 3: the Echo value is compared as a prefix (a truncated value passes)
    (
        "C12",
        "ext-echo-compared-as-prefix",
        [(OS, "                if unprotected_message.opt.echo == self.echo_recovery:\n", "                if unprotected_message.opt.echo is not None and self.echo_recovery.startswith(unprotected_message.opt.echo):\n")],
    ),
]

CONTROLS = [
    # bit `size` of the bitfield is never set, so `>` instead of `>=` changes nothing
    ("C12", "is-valid-upper-boundary-gt", [(OS, "        if number >= self._index + self._size:\n", "        if number > self._index + self._size:\n")]),
    ("C12", "window-attributes-renamed", _rename_window_attributes()),
    # behaviour-preserving: the error text for a short ciphertext
    ("C12", "ext-short-ciphertext-message-changed", [(OS, '            raise ProtectionInvalid("Ciphertext too short")\n', '            raise ProtectionInvalid("Ciphertext shorter than its tag")\n')]),
    ("C12", "replay-error-message-changed", [(OS, 'replay_error = ReplayError("Sequence number was reused")', 'replay_error = ReplayError("Replay detected")')]),
]
