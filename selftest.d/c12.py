"""C12 mutation catalogue: (property, name, [(file, old, new)])."""

OS = "aiocoap/oscore.py"

_STRIKE_AFTER = """        if not is_response and seqno is not None and replay_error is None:
            self.recipient_replay_window.strike_out(seqno)

        # FIXME add options from unprotected
"""
_DECRYPT = """        try:
            plaintext = alg_symmetric.decrypt(ciphertext, aad, key, nonce)
"""


def _rename_window_attributes():
    """Behaviour-preserving: ReplayWindow keeps its state under other attribute
    names (the check's state projection must degrade, not alarm)."""
    src = open("/repo/" + OS).read()
    a = src.index("    _index = None\n")
    b = src.index('        return {"index": self._index, "bitfield": self._bitfield}\n') + len(
        '        return {"index": self._index, "bitfield": self._bitfield}\n'
    )
    old = src[a:b]
    return [(OS, old, old.replace("_index", "_lowest").replace("_bitfield", "_bits"))]


MUTATIONS = [
    (
        "C12",
        "strike-out-before-decryption",
        [
            (OS, _STRIKE_AFTER, "        # FIXME add options from unprotected\n"),
            (
                OS,
                _DECRYPT,
                "        if not is_response and seqno is not None and replay_error is None:\n"
                "            self.recipient_replay_window.strike_out(seqno)\n" + _DECRYPT,
            ),
        ],
    ),
    ("C12", "shift-one-less", [(OS, "            self._bitfield >>= overshoot\n", "            self._bitfield >>= overshoot - 1\n")]),
    ("C12", "window-one-wider", [(OS, "        overshoot = number - (self._index + self._size - 1)\n", "        overshoot = number - (self._index + self._size)\n")]),
    ("C12", "echo-comparison-removed", [(OS, "                if unprotected_message.opt.echo == self.echo_recovery:\n", "                if True:\n")]),
    ("C12", "no-strike-out", [(OS, _STRIKE_AFTER, "        # FIXME add options from unprotected\n")]),
    ("C12", "freshlyseen-not-marked", [(OS, "        self._index = seen\n        self._bitfield = 1\n", "        self._index = seen\n        self._bitfield = 0\n")]),
    ("C12", "index-itself-rejected", [(OS, "        if number < self._index:\n            return False\n", "        if number <= self._index:\n            return False\n")]),
    (
        "C12",
        "uninitialised-window-skips-check",
        [(OS, '                    replay_error = ReplayError("Sequence number check unavailable")\n', "                    self.recipient_replay_window.initialize_empty()\n")],
    ),
]

# found by white-box adversaries (notes/adversary/C12_miss*.md); silent when found.
# (C12_miss2 -- Echo value derived from the key instead of drawn per process -- is caught by C13.)
A = "notes/adversary/"
MUTATIONS += [
    ("C12", "adv-late-response-reinitialises-window", [("@patch", A + "C12_miss1.diff", 3)]),
    ("C12", "adv-uninitialised-window-without-echo-starts-over", [("@patch", A + "C12_miss3.diff", 3)]),
]

CONTROLS = [
    # bit `size` of the bitfield is never set, so `>` instead of `>=` changes nothing
    ("C12", "is-valid-upper-boundary-gt", [(OS, "        if number >= self._index + self._size:\n", "        if number > self._index + self._size:\n")]),
    ("C12", "window-attributes-renamed", _rename_window_attributes()),
    ("C12", "replay-error-message-changed", [(OS, 'replay_error = ReplayError("Sequence number was reused")', 'replay_error = ReplayError("Replay detected")')]),
]
