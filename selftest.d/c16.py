"""Mutation catalogue for C16 (URIs <-> Uri-* options): (property, name, [(file, old, new)]).

The unchanged tree has a genuine C16 defect (notes/C16.md: a bad port behind an
IPv6 literal raises a bare ValueError), so the check exits 1 on every copy of
it.  While that is the case every entry below also carries the proposed repair
(REPAIR), so that what is detected -- or, for the controls, not detected -- is
the mutation itself.  As soon as /repo no longer contains the defective block
REPAIR becomes empty by itself."""

MSG = "aiocoap/message.py"
UTIL = "aiocoap/util/__init__.py"
A = "notes/adversary/"

_DEFECT = """        self.remote = UndecidedRemote(parsed.scheme, parsed.netloc)

        try:
            _ = parsed.port
        except ValueError as e:
            raise error.MalformedUrlError("Port must be numeric") from e
"""
_REPAIRED = """        try:
            _ = parsed.port
        except ValueError as e:
            raise error.MalformedUrlError("Port must be numeric") from e

        self.remote = UndecidedRemote(parsed.scheme, parsed.netloc)
"""
try:
    _present = _DEFECT in open("/repo/" + MSG).read()
except OSError:
    _present = False
REPAIR = [(MSG, _DEFECT, _REPAIRED)] if _present else []

MUTATIONS = [
    # DESIGN Appendix F
    ("C16", "query-safe-set-includes-&", REPAIR + [(MSG, '"".join(c for c in sub_delims if c != "&")', "sub_delims")]),
    ("C16", "host-not-lower-cased", REPAIR + [(MSG, "                ).translate(_ascii_lowercase)\n", "                )\n")]),
    (
        "C16",
        "path-decoding-errors-replace",
        REPAIR
        + [
            (
                MSG,
                '                    urllib.parse.unquote(x, errors="strict")\n                    for x in parsed.path.split("/")[1:]',
                '                    urllib.parse.unquote(x, errors="replace")\n                    for x in parsed.path.split("/")[1:]',
            )
        ],
    ),
    ("C16", "leading-empty-path-segment-kept", REPAIR + [(MSG, 'for x in parsed.path.split("/")[1:]', 'for x in parsed.path.split("/")')]),
    # further realistic slips
    (
        "C16",
        "query-decoded-with-unquote_plus",
        REPAIR
        + [
            (
                MSG,
                '                    urllib.parse.unquote(x, errors="strict")\n                    for x in parsed.query.split("&")',
                '                    urllib.parse.unquote_plus(x, errors="strict")\n                    for x in parsed.query.split("&")',
            )
        ],
    ),
    ("C16", "non-ascii-host-not-escaped", REPAIR + [(MSG, "escaped_host = quote_nonascii(host)", "escaped_host = host")]),
    ("C16", "ip-literal-not-normalised", REPAIR + [(MSG, "            host = str(ip)\n", "            pass\n")]),
    ("C16", "fragment-silently-dropped", REPAIR + [(MSG, "        if parsed.fragment:\n", "        if False and parsed.fragment:\n")]),
    ("C16", "userinfo-accepted", REPAIR + [(MSG, "        if parsed.username or parsed.password:\n            raise error.MalformedUrlError(", "        if False:\n            raise error.MalformedUrlError(")]),
    ("C16", "uri-host-set-for-ipv6-literal", REPAIR + [(MSG, 'is_ip_literal = parsed.netloc.startswith("[") or (', "is_ip_literal = (")]),
    ("C16", "hostportjoin-without-brackets", REPAIR + [(UTIL, 'if ":" in host and not (host.startswith("[") and host.endswith("]")):', 'if ":" in host and port is None and not (host.startswith("[") and host.endswith("]")):')]),
    # seeded/C16-seed1: lower-casing moved before percent-decoding ("ex%41mple.com" -> Uri-Host "exAmple.com")
    (
        "C16",
        "host-lower-cased-before-decoding",
        REPAIR
        + [
            (
                MSG,
                '                    parsed.hostname, errors="strict"\n                ).translate(_ascii_lowercase)\n',
                '                    parsed.hostname.translate(_ascii_lowercase), errors="strict"\n                )\n',
            )
        ],
    ),
    # seeded/C16-seed2: str.isdigit() takes non-ASCII decimal digits, a dotted quad of them loses its Uri-Host
    (
        "C16",
        "ipv4-detection-by-isdigit",
        REPAIR + [(MSG, 'and all(c in "0123456789." for c in parsed.hostname)', 'and parsed.hostname.replace(".", "").isdigit()')],
    ),
    # notes/adversary/C16_miss1..5: changes a white-box adversary got past the earlier check
    ("C16", "adv-stale-path-query-on-reused-message", [("@patch", A + "C16_miss1.diff", 3)]),
    ("C16", "adv-segments-nfc-normalised", [("@patch", A + "C16_miss2.diff", 3)]),
    ("C16", "adv-authority-lower-cased-for-destination", [("@patch", A + "C16_miss3.diff", 3)]),
    ("C16", "adv-ipv4-regex-without-255-limit", [("@patch", A + "C16_miss4_rebased.diff", 3)]),
    ("C16", "adv-coap-schemes-in-uses_params", [("@patch", A + "C16_miss5.diff", 3)]),
    # the two defects of the pinned tree the adversary's analysis uncovered (repaired in /repo), reverted
    (
        "C16",
        "revert-96d6ddb-empty-label-valueerror",
        [(MSG, 'and all(x != "" and int(x) <= 255 for x in parsed.hostname.split("."))', 'and all(int(x) <= 255 for x in parsed.hostname.split("."))')],
    ),
    (
        "C16",
        "revert-a93fc88-stale-uri-host",
        [(MSG, "            self.opt.uri_host = None\n\n    # Deprecated accessors", "            pass\n\n    # Deprecated accessors")],
    ),
    # notes/adversary/C16_caught.md, "stopped only by a repository test"
    (
        "C16",
        "adv-port-moved-into-uri-port",
        [
            (
                MSG,
                "        self.remote = UndecidedRemote(parsed.scheme, parsed.netloc)\n\n        is_ip_literal",
                "        self.remote = UndecidedRemote(\n            parsed.scheme,\n"
                "            parsed.netloc.rsplit(\":\", 1)[0] if parsed.port is not None else parsed.netloc,\n        )\n"
                "        self.opt.uri_port = parsed.port\n\n        is_ip_literal",
            )
        ],
    ),
    (
        "C16",
        "adv-urlparse-valueerror-escapes",
        [(MSG, "            parsed = urllib.parse.urlparse(uri)\n        except ValueError as e:\n", "            parsed = urllib.parse.urlparse(uri)\n        except KeyError as e:\n")],
    ),
    (
        "C16",
        "adv-port-5683-stripped-for-every-scheme",
        [
            (
                MSG,
                "        return urllib.parse.urlunparse((scheme, netloc, path, params, query, fragment))",
                "        if netloc.endswith(\":5683\"):\n            netloc = netloc[:-5]\n"
                "        return urllib.parse.urlunparse((scheme, netloc, path, params, query, fragment))",
            )
        ],
    ),
    ("C16", "path-quoting-keeps-slash", REPAIR + [(MSG, '_quote_for_path = quote_factory(unreserved + sub_delims + ":@")', '_quote_for_path = quote_factory(unreserved + sub_delims + ":@/")')]),
]

CONTROLS = [
    # the same safe sets, written differently
    (
        "C16",
        "query-safe-set-spelled-out",
        REPAIR + [(MSG, 'unreserved + "".join(c for c in sub_delims if c != "&") + ":@/?"', "unreserved + \"!$'()*+,;=\" + \":@/?\"")],
    ),
    # lower-casing by str.lower restricted to ASCII letters instead of a translation table
    (
        "C16",
        "ascii-lowercase-by-comprehension",
        REPAIR + [(MSG, "                ).translate(_ascii_lowercase)\n", '                )\n                self.opt.uri_host = "".join(c.lower() if c.isascii() else c for c in self.opt.uri_host)\n')],
    ),
    # hostportjoin builds the string with an f-string
    ("C16", "hostportjoin-fstring", REPAIR + [(UTIL, '        hostinfo = "%s:%d" % (host, port)\n', '        hostinfo = f"{host}:{port:d}"\n')]),
]
