"""Resource-directory driver (property C20): replays an operation history
(register / update POST / PUT / DELETE / clock steps) as raw CoAP datagrams
against a real server Context carrying aiocoap.cli.rd.StandaloneResourceDirectory
on the fake network under virtual time, performs an endpoint lookup and a
resource lookup after every step, and records the events in the vocabulary of
spec/ResourceDirectoryObs.tla.

Python only builds requests and parses responses / link-format payloads into
records; what a lookup *should* contain is computed by TLC from the trace
(ResourceDirectoryTrace.tla).

Time unit of histories and traces: one quantum = 15 s (so lt >= 60 s as
RFC 9176 requires is >= 4 quanta and the 15 s grace period is 1 quantum)."""

import logging
import re

from . import wire, MachineryError
from .sut import World
from .fakenet import sockaddr

QUANTUM = 15  # seconds per model quantum
LINKFORMAT = 40

# request forms: (operation, variant) -> group used for blame / signatures.
# The stage a form fails in is the model's business (ResourceDirectory.tla);
# this table only says how the request is built.
GROUPS = {
    "reg": {
        "ok": "ok",
        "nocf": "bad-body", "badcf": "bad-body", "badlf": "bad-body",
        "noep": "bad-key", "ep2": "bad-key", "d2": "bad-key", "proxy": "bad-key",
        "ltnan": "bad-param", "lt2": "bad-param", "base2": "bad-param",
        "rsvd_rt": "bad-param", "rsvd_page": "bad-param", "rsvd_count": "bad-param",
        "rsvd_href": "bad-param", "rsvd_anchor": "bad-param",
        "ltnoval": "lt-novalue",
    },
    "upd": {
        "ok": "ok",
        "ep": "bad-param", "d": "bad-param", "ltnan": "bad-param", "lt2": "bad-param", "base2": "bad-param",
        "rsvd_rt": "bad-param", "rsvd_page": "bad-param", "rsvd_count": "bad-param",
        "rsvd_href": "bad-param", "rsvd_anchor": "bad-param",
        "ltnoval": "lt-novalue",
        "body": "body", "cfbody": "body", "cf": "body",
    },
    "put": {
        "ok": "ok",
        "nocf": "bad-body", "badlf": "bad-body",
        "ep": "bad-param", "ltnan": "bad-param", "rsvd_rt": "bad-param",
        "ltnoval": "lt-novalue",
    },
    "del": {"ok": "ok"},
}

RSVD = {"rsvd_rt": "rt=core.x", "rsvd_page": "page=0", "rsvd_count": "count=1", "rsvd_href": "href=/x", "rsvd_anchor": "anchor=/y"}

LINKSETS = {0: (), 1: (("a", "r1"),), 2: (("a", "r2"), ("b", "r1")), 3: (("b", "r2"),)}


def links_payload(ep, d, links):
    """Every link carries its owner (ep, d) in its path so that a resource
    lookup can be attributed; the sets are those of LinksOf in the spec."""
    dd = d or "-"
    return ",".join('</%s/%s/%s>;rt="%s"' % (ep, dd, name, rt) for name, rt in LINKSETS[links]).encode()


def base_uri(n):
    return "coap://b%d.example" % n


# -- link-format parsing (independent of aiocoap) ---------------------------------
def parse_link_format(text):
    """'<href>;k="v";k2,<href2>' -> [(href, [(k, v|None), ...]), ...]"""
    out = []
    i, n = 0, len(text)
    while i < n:
        if text[i] != "<":
            raise ValueError("link-format: expected '<' at %d in %r" % (i, text))
        j = text.index(">", i)
        href = text[i + 1 : j]
        i = j + 1
        attrs = []
        while i < n and text[i] == ";":
            i += 1
            k0 = i
            while i < n and text[i] not in "=;,":
                i += 1
            key = text[k0:i]
            val = None
            if i < n and text[i] == "=":
                i += 1
                if i < n and text[i] == '"':
                    i += 1
                    buf = []
                    while text[i] != '"':
                        if text[i] == "\\":
                            i += 1
                        buf.append(text[i])
                        i += 1
                    i += 1
                    val = "".join(buf)
                else:
                    v0 = i
                    while i < n and text[i] not in ";,":
                        i += 1
                    val = text[v0:i]
            attrs.append((key, val))
        out.append((href, attrs))
        if i < n:
            if text[i] != ",":
                raise ValueError("link-format: expected ',' at %d in %r" % (i, text))
            i += 1
    return out


_re_expl = re.compile(r"^coap://b(\d+)\.example$")
_re_src = re.compile(r"^coap://\[2001:db8::([0-9a-f]+)\]$")
_re_abs = re.compile(r"^(coap://[^/]+)(/.*)$")


def base_id(uri):
    m = _re_expl.match(uri or "")
    if m:
        return int(m.group(1))
    m = _re_src.match(uri or "")
    if m:
        return 100 + int(m.group(1), 16)
    return 999


def run_history(hist):
    """hist: {"steps": [step, ...]} with step = dict(k, t, src, ep, d, loc, lt,
    base, x, links, var, n) as in the model's `hist' (k = reg|upd|put|del|adv),
    optionally `id' (registration steps) and `ref' (requests to a location: id
    of the registration step whose location is meant).
    Returns {"events": [...], "meta": {...}}; every event has the same fields."""
    w = World()
    sent = []
    w.net.on_sent = sent.append
    events = []
    locs = {}  # Location-Path tuple -> symbolic number (order of first appearance)
    loc_paths = {}
    owner = {}  # symbolic loc -> (ep, d) of the registration request that got it
    meta = {"codes": [], "log_errors": [], "loop_exceptions": [], "drift": []}

    def sym(path):
        path = tuple(path)
        if path not in locs:
            locs[path] = len(locs) + 1
            loc_paths[locs[path]] = path
        return locs[path]

    def now_q():
        t = w.loop.time()
        q = int(round(t / QUANTUM))
        if abs(q * QUANTUM - t) > 1e-9:
            raise MachineryError("rddrive: off-grid instant %r" % t)
        return q

    def ev(k, **kw):
        e = {"k": k, "t": now_q(), "src": 0, "ep": "", "d": "", "loc": 0, "lt": 0, "base": 0, "x": 0, "links": 0,
             "var": "", "vg": "", "cls": 0, "code": 0, "n": 0, "eps": [], "res": []}
        e.update(kw)
        events.append(e)
        return e

    state = {"mid": 0x1000}

    async def main():
        from aiocoap.cli.rd import StandaloneResourceDirectory

        ctx = await w.make_context()
        rdlog = logging.getLogger("coap-verif-rd")
        rdlog.propagate = False
        rdlog.setLevel(logging.DEBUG)
        rdlog.addHandler(w.logcap)
        w._loggers.append(rdlog)
        site = StandaloneResourceDirectory(context=ctx, log=rdlog)
        ctx.serversite = site
        sock = ctx._verif["sock"]
        rd_path = list(site.rd_path)
        ep_path = list(site.ep_lookup_path)
        res_path = list(site.res_lookup_path)
        prefix = tuple(site.common_rd.entity_prefix)

        async def request(code, path, query=(), payload=b"", cf=None, src=1):
            state["mid"] = (state["mid"] + 1) & 0xFFFF
            tok = state["mid"].to_bytes(2, "big")
            opts = [(wire.URI_PATH, p.encode()) for p in path] + [(wire.URI_QUERY, q.encode()) for q in query]
            if cf is not None:
                opts.append((wire.CONTENT_FORMAT, wire.uint(cf)))
            n0 = len(sent)
            w.net.inject(sock, wire.encode(wire.CON, code, state["mid"], tok, opts, payload), sockaddr(src))
            await w.loop.settle()
            for rec in sent[n0:]:
                m = wire.decode(rec["data"])
                if m["token"] == tok and m["code"] != 0:
                    b2 = wire.opt(m, wire.BLOCK2)
                    if b2 is not None and wire.unblock(b2)[1]:
                        raise MachineryError("rddrive: block-wise response; keep histories small")
                    return m
            return None

        got = {}  # id of a registration step -> Location-Path it obtained in this run

        def target(st):
            """(path, symbolic number) a request of step st is aimed at: the
            location the referenced registration step obtained in *this* run
            (`ref'), else the symbolic location `loc', else a path that does
            not exist (numbers >= 900 are not locations)."""
            ref = st.get("ref")
            if ref is not None:
                path = got.get(ref)
            else:
                path = loc_paths.get(st["loc"])
            if path is None:
                return list(prefix + ("nx%d" % st["loc"], "")), 900 + st["loc"]
            return list(path), sym(path)

        async def lookups():
            m = await request(wire.GET, ep_path)
            e = ev("lkep", code=m["code"] if m else 0, cls=(m["code"] >> 5) if m else 0)
            if m and m["code"] == wire.CONTENT:
                if wire.from_uint(wire.opt(m, wire.CONTENT_FORMAT, b"")) != LINKFORMAT:
                    meta["drift"].append("endpoint lookup answered with content format %r" % wire.opt(m, wire.CONTENT_FORMAT))
                links = parse_link_format(m["payload"].decode("utf8"))
                e["n"] = len(links)
                for href, attrs in links:
                    a = dict(attrs)
                    extra = [k for k, _ in attrs if k not in ("ep", "d", "base", "rt", "et")]
                    x = 0
                    if "et" in a:
                        mm = re.match(r"^v(\d+)$", a["et"] or "")
                        x = int(mm.group(1)) if mm else 999
                    if extra or len(attrs) != len(a):
                        x = 998
                    rec = {"loc": sym(href.split("/")[1:]), "ep": a.get("ep") or "", "d": a.get("d") or "",
                           "base": base_id(a.get("base")), "x": x}
                    e["eps"].append(rec)
            m = await request(wire.GET, res_path)
            e = ev("lkres", code=m["code"] if m else 0, cls=(m["code"] >> 5) if m else 0)
            if m and m["code"] == wire.CONTENT:
                links = parse_link_format(m["payload"].decode("utf8"))
                e["n"] = len(links)
                for href, attrs in links:
                    mm = _re_abs.match(href)
                    base, path = (mm.group(1), mm.group(2)) if mm else ("", href)
                    parts = path.split("/")[1:]
                    a = dict(attrs)
                    other = sorted(k for k, _ in attrs if k != "rt")
                    if len(parts) == 3:
                        oep, od, name = parts[0], ("" if parts[1] == "-" else parts[1]), parts[2]
                    else:
                        oep, od, name = "?", "?", path
                    link = "%s:%s" % (name, a.get("rt"))
                    if other:
                        link += ";" + ",".join(other)
                    e["res"].append({"base": base_id(base), "ep": oep, "d": od, "link": link})

        for st in hist["steps"]:
            k = st["k"]
            if k == "adv":
                await w.loop.advance_to(st["t"] * QUANTUM)
                await lookups()
                continue
            # clock position of the history (ops happen at the instant reached by the last adv)
            var = st.get("var") or "ok"
            src = st.get("src") or 1
            lt, base, x, links = st.get("lt", 0), st.get("base", 0), st.get("x", 0), st.get("links", 0)
            q = []
            if lt:
                q.append("lt=%d" % (lt * QUANTUM))
            if base:
                q.append("base=" + base_uri(base))
            if x:
                q.append("et=v%d" % x)
            if var in RSVD:
                q.append(RSVD[var])
            if var == "ltnan":
                q = [y for y in q if not y.startswith("lt=")] + ["lt=abc"]
            elif var == "lt2":
                one = "lt=%d" % ((lt or 4) * QUANTUM)
                q = [y for y in q if not y.startswith("lt=")] + [one, one]
            elif var == "ltnoval":
                q = [y for y in q if not y.startswith("lt=")] + ["lt"]
            elif var == "base2":
                q = [y for y in q if not y.startswith("base=")] + ["base=" + base_uri(1), "base=" + base_uri(2)]
            vg = GROUPS[k][var]
            if k == "reg":
                ep, d = st["ep"], st["d"]
                payload, cf = links_payload(ep or "e0", d, links), LINKFORMAT
                if var != "noep":
                    q.insert(0, "ep=" + ep)
                if d:
                    q.insert(1 if var != "noep" else 0, "d=" + d)
                if var == "ep2":
                    q.append("ep=" + ep)
                elif var == "d2":
                    q = [y for y in q if not y.startswith("d=")] + ["d=" + (d or "s1")] * 2
                elif var == "proxy":
                    q.append("proxy=yes")
                elif var == "nocf":
                    cf = None
                elif var == "badcf":
                    cf = 0
                elif var == "badlf":
                    payload = b"<unterminated"
                m = await request(wire.POST, rd_path, q, payload, cf, src)
                loc = 0
                if m is not None:
                    lp = wire.opts(m, wire.LOCATION_PATH)
                    if lp and (m["code"] >> 5) == 2:
                        lpath = tuple(x_.decode("utf8") for x_ in lp)
                        loc = sym(lpath)
                        owner[loc] = (ep, d)
                        if "id" in st:
                            got[st["id"]] = lpath
                ev("reg", src=src, ep=ep if var != "noep" else "", d=d, loc=loc, lt=lt, base=base, x=x, links=links,
                   var=var, vg=vg, code=m["code"] if m else 0, cls=(m["code"] >> 5) if m else 0)
            elif k == "upd":
                payload, cf = b"", None
                if var == "ep":
                    q.append("ep=e1")
                elif var == "d":
                    q.append("d=s1")
                elif var == "body":
                    payload = b"</x>"
                elif var == "cfbody":
                    payload, cf = b"</x>", LINKFORMAT
                elif var == "cf":
                    cf = LINKFORMAT
                tpath, tloc = target(st)
                m = await request(wire.POST, tpath, q, payload, cf, src)
                ev("upd", src=src, loc=tloc, lt=lt, base=base, x=x, var=var, vg=vg,
                   code=m["code"] if m else 0, cls=(m["code"] >> 5) if m else 0)
            elif k == "put":
                tpath, tloc = target(st)
                oep, od = owner.get(tloc, ("zz", "zz"))
                payload, cf = links_payload(oep, od, links), LINKFORMAT
                if var == "ep":
                    q.append("ep=e1")
                elif var == "nocf":
                    cf = None
                elif var == "badlf":
                    payload = b"<unterminated"
                m = await request(wire.PUT, tpath, q, payload, cf, src)
                ev("put", src=src, loc=tloc, lt=lt, base=base, x=x, links=links, var=var, vg=vg,
                   code=m["code"] if m else 0, cls=(m["code"] >> 5) if m else 0)
            elif k == "del":
                tpath, tloc = target(st)
                m = await request(wire.DELETE, tpath, (), b"", None, src)
                ev("del", src=src, loc=tloc, var="ok", vg="ok",
                   code=m["code"] if m else 0, cls=(m["code"] >> 5) if m else 0)
            else:
                raise MachineryError("rddrive: unknown step %r" % (st,))
            await lookups()
        meta["loop_exceptions"] = [str(c.get("exception") or c.get("message")) for c in w.loop.exceptions]
        meta["log_errors"] = [r.getMessage() for r in w.logcap.errors()]
        meta["locations"] = {str(n): "/" + "/".join(p) for n, p in loc_paths.items()}
        await ctx.shutdown()

    try:
        w.run(main())
    finally:
        w.close()
    return {"events": events, "meta": meta}
