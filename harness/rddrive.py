"""Resource-directory driver (property C20): replays an operation history
(register / simple registration / update POST / PUT / DELETE / filtered and
paged lookups / clock steps) as raw CoAP datagrams against a real server
Context carrying aiocoap.cli.rd.StandaloneResourceDirectory on the fake
network under virtual time, performs an endpoint lookup and a resource lookup
after every step, and records the events in the vocabulary of
spec/ResourceDirectoryObs.tla.

Python only builds requests and parses responses / link-format payloads into
records; what a lookup *should* contain is computed by TLC from the trace
(ResourceDirectoryTrace.tla).  What the small numbers of a history stand for
on the wire (link sets, extra attributes, explicit bases, peers, exotic
lifetimes) is not defined here either: it is the table TLC prints for
VocabDump of spec/ResourceDirectoryVocab.tla (set_vocab).

Time unit of histories and traces: one quantum = 15 s (so that ordinary
lifetimes and the 15 s grace period are whole numbers)."""

import logging

from . import wire, MachineryError
from .sut import World

QUANTUM = 15  # seconds per model quantum
LINKFORMAT = 40

# request forms: (operation, variant) -> group used for blame / signatures.
# The stage a form fails in is the model's business (ResourceDirectory.tla);
# this table only says how the request is built.
_RSVD_G = {"rsvd_rt": "bad-param", "rsvd_page": "bad-param", "rsvd_count": "bad-param",
           "rsvd_href": "bad-param", "rsvd_anchor": "bad-param"}
GROUPS = {
    "reg": dict({
        "ok": "ok",
        "nocf": "bad-body", "badcf": "bad-body", "badlf": "bad-body",
        "noep": "bad-key", "ep2": "bad-key", "d2": "bad-key", "proxy": "bad-key",
        "ltnan": "bad-param", "lt2": "bad-param", "base2": "bad-param",
        "ltnoval": "lt-novalue",
    }, **_RSVD_G),
    "sreg": dict({
        "ok": "ok", "okwkc": "ok",
        "sbase": "bad-param",
        "fetch404": "fetch-failed", "fetchcf": "fetch-failed", "fetchbadlf": "fetch-failed",
        "noep": "bad-key", "ep2": "bad-key", "d2": "bad-key", "proxy": "bad-key",
        "ltnan": "bad-param", "lt2": "bad-param",
        "ltnoval": "lt-novalue",
    }, **_RSVD_G),
    "upd": dict({
        "ok": "ok",
        "ep": "bad-param", "d": "bad-param", "ltnan": "bad-param", "lt2": "bad-param", "base2": "bad-param",
        "ltnoval": "lt-novalue",
        "body": "body", "cfbody": "body", "cf": "body",
    }, **_RSVD_G),
    "put": {
        "ok": "ok",
        "nocf": "bad-body", "badlf": "bad-body",
        "ep": "bad-param", "ltnan": "bad-param", "rsvd_rt": "bad-param",
        "ltnoval": "lt-novalue",
    },
    "del": {"ok": "ok"},
}

RSVD = {"rsvd_rt": "rt=core.x", "rsvd_page": "page=0", "rsvd_count": "count=1", "rsvd_href": "href=/x", "rsvd_anchor": "anchor=/y"}

# names the model writes in ASCII (TLC's parser and printer are not safe for other characters);
# on the wire and in the recorded events the real strings are used
NAME_WIRE = {"~nfc": "\u00e91", "~nfd": "e\u03011"}

VOCAB = None


def set_vocab(v):
    """v: the value TLC printed for VocabDump (tlaval form: records -> dict,
    sequences -> list, sets -> frozenset)."""
    global VOCAB
    lx = {}
    for i, r in enumerate(v["lx"], 1):
        if int(r["s"]) != r["q"] * QUANTUM + r["r"] or not 0 <= r["r"] < QUANTUM:
            raise MachineryError("vocabulary: lifetime %r is not q * %d + r" % (r, QUANTUM))
        lx[i] = r["s"]
    VOCAB = {
        "src": {i: (r["host"], r["port"], r["uri"]) for i, r in enumerate(v["src"], 1)},
        "base": {i: u for i, u in enumerate(v["base"], 1)},
        "x": {i: [tuple(a) for a in x] for i, x in enumerate(v["x"], 1)},
        "lx": lx,
        "links": {i: [(l["href"], [tuple(a) for a in l["attrs"]]) for l in ls] for i, ls in enumerate(v["links"], 1)},
    }
    VOCAB["x"][0] = []
    VOCAB["links"][0] = []
    return VOCAB


def fmt_link(href, attrs):
    out = "<%s>" % href
    for a in attrs:
        if len(a) == 1:
            out += ";" + a[0]
        elif a[1].isdigit():
            out += ";%s=%s" % a
        else:
            out += ';%s="%s"' % a
    return out


def links_payload(links):
    return ",".join(fmt_link(h, a) for h, a in VOCAB["links"][links]).encode("utf8")


def src_addr(src):
    host, port, _ = VOCAB["src"].get(src, VOCAB["src"][1])
    return (host, port, 0, 0)


# -- link-format parsing (independent of aiocoap) ---------------------------------
def parse_link_format(text):
    """'<href>;k="v";k2,<href2>' -> [(href, [(k, v|None), ...]), ...]"""
    out = []
    i, n = 0, len(text)
    while i < n:
        if text[i] != "<":
            raise ValueError("link-format: expected '<' at %d in %r" % (i, text))
        j = text.index(">", i)
        href = text[i + 1 : j]
        i = j + 1
        attrs = []
        while i < n and text[i] == ";":
            i += 1
            k0 = i
            while i < n and text[i] not in "=;,":
                i += 1
            key = text[k0:i]
            val = None
            if i < n and text[i] == "=":
                i += 1
                if i < n and text[i] == '"':
                    i += 1
                    buf = []
                    while text[i] != '"':
                        if text[i] == "\\":
                            i += 1
                        buf.append(text[i])
                        i += 1
                    i += 1
                    val = "".join(buf)
                else:
                    v0 = i
                    while i < n and text[i] not in ";,":
                        i += 1
                    val = text[v0:i]
            attrs.append((key, val))
        out.append((href, attrs))
        if i < n:
            if text[i] != ",":
                raise ValueError("link-format: expected ',' at %d in %r" % (i, text))
            i += 1
    return out


def _pairs(attrs):
    """attributes in a canonical order; an attribute without value is [key]"""
    return sorted([k] if v is None else [k, v] for k, v in attrs)


E0 = {"k": "", "t": 0, "src": 0, "ep": "", "d": "", "loc": 0, "lt": 0, "lx": 0, "base": 0, "x": 0, "links": 0,
      "var": "", "vg": "", "cls": 0, "code": 0, "n": 0, "eps": [], "res": [],
      "iface": "", "crit": [], "cnt": 0, "first": [], "pages": [], "pcls": 0}


def flk_group(st):
    """group of a filtered lookup for signatures: interface / number of criteria (+ paged)"""
    return "%s/%d%s" % (st.get("iface"), len(st.get("crit") or ()), "/paged" if st.get("cnt") else "")


def run_history(hist):
    """hist: {"steps": [step, ...]} with step = dict(k, t, src, ep, d, loc, lt,
    lx, base, x, links, var, n, iface, crit, cnt) as in the model's `hist'
    (k = reg|sreg|upd|put|del|flk|adv), optionally `id' (registration steps)
    and `ref' (requests to a location, criteria href=<location>: id of the
    registration step whose location is meant).
    Returns {"events": [...], "meta": {...}}; every event has the same fields."""
    if VOCAB is None:
        raise MachineryError("rddrive: vocabulary not set")
    w = World()

    async def resolve_literal(host, port, **kw):
        # the directory resolves the registrant's address for its fetch (simple registration) through the
        # loop's resolver, which would run in a thread the virtual clock does not wait for; the addresses
        # are IP literals
        import socket

        return [(socket.AF_INET6, socket.SOCK_DGRAM, socket.IPPROTO_UDP, "", (host, port or 5683, 0, 0))]

    w.loop.getaddrinfo = resolve_literal
    # asyncio runs a timer when it is due before now + clock resolution; at instants around 2^32 s (the largest
    # lifetime) 1 ns is below the spacing of floats and a timer due exactly now would never run
    w.loop._clock_resolution = 1e-5
    sent = []
    w.net.on_sent = sent.append
    events = []
    locs = {}  # Location-Path tuple -> symbolic number (order of first appearance)
    loc_paths = {}
    meta = {"codes": [], "log_errors": [], "loop_exceptions": [], "drift": [], "fetches": 0, "blockwise_lookups": 0}

    def sym(path):
        path = tuple(path)
        if path not in locs:
            locs[path] = len(locs) + 1
            loc_paths[locs[path]] = path
        return locs[path]

    def now_q():
        t = w.loop.time()
        q = int(round(t / QUANTUM))
        if abs(q * QUANTUM - t) > 1e-6:
            raise MachineryError("rddrive: off-grid instant %r" % t)
        return q

    def ev(k, **kw):
        e = dict(E0, k=k, t=now_q(), eps=[], res=[], crit=[], first=[], pages=[])
        e.update(kw)
        events.append(e)
        return e

    state = {"mid": 0x1000}

    async def main():
        from aiocoap.cli.rd import StandaloneResourceDirectory

        ctx = await w.make_context()
        rdlog = logging.getLogger("coap-verif-rd")
        rdlog.propagate = False
        rdlog.setLevel(logging.DEBUG)
        rdlog.addHandler(w.logcap)
        w._loggers.append(rdlog)
        site = StandaloneResourceDirectory(context=ctx, log=rdlog)
        ctx.serversite = site
        sock = ctx._verif["sock"]
        rd_path = list(site.rd_path)
        ep_path = list(site.ep_lookup_path)
        res_path = list(site.res_lookup_path)
        prefix = tuple(site.common_rd.entity_prefix)

        def send(mtype, code, mid, tok, opts, payload, addr):
            w.net.inject(sock, wire.encode(mtype, code, mid, tok, opts, payload), addr)

        async def exchange(code, opts, payload, addr, fetch=None):
            """One request from the scripted peer at addr; returns the response
            (or None).  While waiting, requests the directory sends to a peer
            (simple registration: GET /.well-known/core) are answered with
            fetch = (code, content format | None, payload)."""
            state["mid"] = (state["mid"] + 1) & 0xFFFF
            mid = state["mid"]
            tok = mid.to_bytes(2, "big")
            n0 = len(sent)
            send(wire.CON, code, mid, tok, opts, payload, addr)
            seen = n0
            for _ in range(8):
                await w.loop.settle()
                again = False
                for rec in sent[seen:]:
                    m = wire.decode(rec["data"])
                    if m["token"] == tok and m["code"] >= 64 and rec["to"][:2] == addr[:2]:
                        if m["type"] == wire.CON:
                            send(wire.ACK, 0, m["mid"], b"", [], b"", addr)
                            await w.loop.settle()
                        return m
                    if 0 < m["code"] < 32 and m["type"] in (wire.CON, wire.NON):
                        # the directory asks a peer for something
                        meta["fetches"] += 1
                        path = [o.decode() for o in wire.opts(m, wire.URI_PATH)]
                        if fetch is None or path != [".well-known", "core"] or m["code"] != wire.GET:
                            meta["drift"].append("unexpected request from the directory: code %d path %r" % (m["code"], path))
                            fc, fcf, fp = wire.code(4, 4), None, b""
                        else:
                            fc, fcf, fp = fetch
                        o2 = [] if fcf is None else [(wire.CONTENT_FORMAT, wire.uint(fcf))]
                        send(wire.ACK if m["type"] == wire.CON else wire.NON, fc, m["mid"], m["token"], o2, fp, rec["to"])
                        again = True
                seen = len(sent)
                if not again:
                    break
            return None

        async def request(code, path, query=(), payload=b"", cf=None, src=1, fetch=None):
            opts = [(wire.URI_PATH, p.encode("utf8")) for p in path] + [(wire.URI_QUERY, q.encode("utf8")) for q in query]
            if cf is not None:
                opts.append((wire.CONTENT_FORMAT, wire.uint(cf)))
            addr = src_addr(src)
            m = await exchange(code, opts, payload, addr, fetch)
            if m is None:
                return None
            b2 = wire.opt(m, wire.BLOCK2)
            if b2 is not None and wire.unblock(b2)[1]:
                # block-wise response (long lookup results): fetch the rest
                meta["blockwise_lookups"] += 1
                body = m["payload"]
                num, more, szx = wire.unblock(b2)
                while more:
                    num += 1
                    mm = await exchange(code, opts + [(wire.BLOCK2, wire.block(num, 0, szx))], b"", addr)
                    if mm is None or mm["code"] != m["code"] or wire.opt(mm, wire.BLOCK2) is None:
                        raise MachineryError("rddrive: block-wise transfer of a response broke off at block %d" % num)
                    n2, more, _ = wire.unblock(wire.opt(mm, wire.BLOCK2))
                    if n2 != num:
                        raise MachineryError("rddrive: asked for block %d, got %d" % (num, n2))
                    body += mm["payload"]
                    if num > 64:
                        raise MachineryError("rddrive: response of more than 64 blocks")
                m = dict(m, payload=body)
            return m

        got = {}  # id of a registration step -> Location-Path it obtained in this run
        pending = {}  # (ep, d) -> id of a simple registration step waiting for its location

        def target_of(ref, loc):
            """(path, symbolic number) a request is aimed at: the location the
            referenced registration step obtained in *this* run (`ref'), else
            the symbolic location `loc', else a path that does not exist
            (numbers >= 900 are not locations)."""
            if ref is not None:
                path = got.get(ref)
            else:
                path = loc_paths.get(loc)
            if path is None:
                return list(prefix + ("nx%d" % loc, "")), 900 + loc
            return list(path), sym(path)

        def target(st):
            return target_of(st.get("ref"), st["loc"])

        def ep_records(m):
            out = []
            for href, attrs in parse_link_format(m["payload"].decode("utf8")):
                first = {}
                rest = []
                for k, v in attrs:
                    if k in ("ep", "d", "base", "rt") and k not in first and v is not None:
                        first[k] = v
                    else:
                        rest.append((k, v))
                out.append({"loc": sym(href.split("/")[1:]), "ep": first.get("ep", ""), "d": first.get("d", ""),
                            "base": first.get("base", ""), "xs": _pairs(rest)})
            return out

        def res_records(m):
            out = []
            for href, attrs in parse_link_format(m["payload"].decode("utf8")):
                anchors = [v for k, v in attrs if k == "anchor" and v is not None]
                rest = [(k, v) for k, v in attrs if not (k == "anchor" and v is not None)]
                if len(anchors) > 1:
                    rest += [("anchor", a) for a in anchors[1:]]
                out.append({"href": href, "anchor": anchors[0] if anchors else "", "attrs": _pairs(rest)})
            return out

        async def lookup(iface, query=()):
            m = await request(wire.GET, ep_path if iface == "ep" else res_path, query)
            if m is None:
                return 0, 0, []
            if m["code"] != wire.CONTENT:
                return m["code"], m["code"] >> 5, []
            if wire.from_uint(wire.opt(m, wire.CONTENT_FORMAT, b"")) != LINKFORMAT:
                meta["drift"].append("%s lookup answered with content format %r" % (iface, wire.opt(m, wire.CONTENT_FORMAT)))
            return m["code"], 2, (ep_records(m) if iface == "ep" else res_records(m))

        async def lookups():
            code, cls, recs = await lookup("ep")
            ev("lkep", code=code, cls=cls, n=len(recs), eps=recs)
            for r in recs:
                sid = pending.pop((r["ep"], r["d"]), None)
                if sid is not None:
                    got[sid] = loc_paths[r["loc"]]
            pending.clear()
            code, cls, recs = await lookup("res")
            ev("lkres", code=code, cls=cls, n=len(recs), res=recs)

        async def filtered(st):
            iface = st["iface"]
            crit, query = [], []
            for c in st["crit"]:
                c = {"k": c["k"], "v": c.get("v", ""), "w": int(c.get("w", 0)), "loc": c.get("loc", 0), "ref": c.get("ref")}
                if c["loc"] or c["ref"] is not None:
                    tpath, tloc = target_of(c["ref"], c["loc"])
                    c["loc"], c["k"], c["v"], c["w"] = tloc, "href", "", 0
                    query.append("href=/" + "/".join(tpath))
                else:
                    query.append("%s=%s%s" % (c["k"], c["v"], "*" if c["w"] else ""))
                del c["ref"]
                crit.append(c)
            cnt = st.get("cnt", 0)
            code, cls, recs = await lookup(iface, query)
            e = ev("flk", iface=iface, crit=crit, cnt=cnt, code=code, cls=cls, n=len(recs))
            e["eps" if iface == "ep" else "res"] = recs
            if cnt and cls == 2:
                worst = 2
                c1, k1, first = await lookup(iface, query + ["count=%d" % cnt])
                worst = max(worst, k1) if k1 else 5
                e["first"] = first
                pages = []
                for page in range(len(recs) // cnt + 2):     # one page beyond the last one that can have entries
                    c1, k1, recs1 = await lookup(iface, query + ["page=%d" % page, "count=%d" % cnt])
                    worst = max(worst, k1) if k1 else 5
                    pages.append(recs1)
                e["pages"] = pages
                e["pcls"] = worst

        for st in hist["steps"]:
            k = st["k"]
            if k == "adv":
                await w.loop.advance_to(st["t"] * QUANTUM)
                await lookups()
                continue
            if k == "flk":
                await filtered(st)
                continue
            # clock position of the history (ops happen at the instant reached by the last adv)
            var = st.get("var") or "ok"
            src = st.get("src") or 1
            lt, lx, base, x, links = st.get("lt", 0), st.get("lx", 0), st.get("base", 0), st.get("x", 0), st.get("links", 0)
            q = []
            if lx:
                q.append("lt=" + VOCAB["lx"][lx])
            elif lt:
                q.append("lt=%d" % (lt * QUANTUM))
            if base:
                q.append("base=" + VOCAB["base"][base])
            for a in VOCAB["x"][x]:
                q.append("%s=%s" % a)
            if var in RSVD:
                q.append(RSVD[var])
            if var == "ltnan":
                q = [y for y in q if not y.startswith("lt=")] + ["lt=abc"]
            elif var == "lt2":
                one = "lt=%d" % ((lt or 4) * QUANTUM)
                q = [y for y in q if not y.startswith("lt=")] + [one, one]
            elif var == "ltnoval":
                q = [y for y in q if not y.startswith("lt=")] + ["lt"]
            elif var == "base2":
                q = [y for y in q if not y.startswith("base=")] + ["base=" + VOCAB["base"][1], "base=" + VOCAB["base"][2]]
            vg = GROUPS[k][var]
            if k in ("reg", "sreg"):
                ep, d = st["ep"], st["d"]
                if var != "noep":
                    q.insert(0, "ep=" + ep)
                if d:
                    q.insert(1 if var != "noep" else 0, "d=" + d)
                if var == "ep2":
                    q.append("ep=" + ep)
                elif var == "d2":
                    q = [y for y in q if not y.startswith("d=")] + ["d=" + (d or "s1")] * 2
                elif var == "proxy":
                    q.append("proxy=yes")
            if k == "reg":
                payload, cf = links_payload(links), LINKFORMAT
                if var == "nocf":
                    cf = None
                elif var == "badcf":
                    cf = 0
                elif var == "badlf":
                    payload = b"<unterminated"
                m = await request(wire.POST, rd_path, q, payload, cf, src)
                loc = 0
                if m is not None:
                    lp = wire.opts(m, wire.LOCATION_PATH)
                    if lp and (m["code"] >> 5) == 2:
                        lpath = tuple(x_.decode("utf8") for x_ in lp)
                        loc = sym(lpath)
                        if "id" in st:
                            got[st["id"]] = lpath
                ev("reg", src=src, ep=ep if var != "noep" else "", d=d, loc=loc, lt=lt, lx=lx, base=base, x=x, links=links,
                   var=var, vg=vg, code=m["code"] if m else 0, cls=(m["code"] >> 5) if m else 0)
            elif k == "sreg":
                fetch = (wire.CONTENT, LINKFORMAT, links_payload(links))
                if var == "fetch404":
                    fetch = (wire.code(4, 4), None, b"")
                elif var == "fetchcf":
                    fetch = (wire.CONTENT, 0, links_payload(links) or b"x")
                elif var == "fetchbadlf":
                    fetch = (wire.CONTENT, LINKFORMAT, b"<unterminated")
                elif var == "sbase":
                    q.append("base=" + VOCAB["base"][1])
                path = [".well-known", "core"] if var == "okwkc" else [".well-known", "rd"]
                m = await request(wire.POST, path, q, b"", None, src, fetch)
                if m is not None and (m["code"] >> 5) == 2 and "id" in st:
                    pending[(ep, d)] = st["id"]
                ev("sreg", src=src, ep=ep if var != "noep" else "", d=d, lt=lt, lx=lx, x=x, links=links,
                   var=var, vg=vg, code=m["code"] if m else 0, cls=(m["code"] >> 5) if m else 0)
            elif k == "upd":
                payload, cf = b"", None
                if var == "ep":
                    q.append("ep=e1")
                elif var == "d":
                    q.append("d=s1")
                elif var == "body":
                    payload = b"</x>"
                elif var == "cfbody":
                    payload, cf = b"</x>", LINKFORMAT
                elif var == "cf":
                    cf = LINKFORMAT
                tpath, tloc = target(st)
                m = await request(wire.POST, tpath, q, payload, cf, src)
                ev("upd", src=src, loc=tloc, lt=lt, lx=lx, base=base, x=x, var=var, vg=vg,
                   code=m["code"] if m else 0, cls=(m["code"] >> 5) if m else 0)
            elif k == "put":
                tpath, tloc = target(st)
                payload, cf = links_payload(links), LINKFORMAT
                if var == "ep":
                    q.append("ep=e1")
                elif var == "nocf":
                    cf = None
                elif var == "badlf":
                    payload = b"<unterminated"
                m = await request(wire.PUT, tpath, q, payload, cf, src)
                ev("put", src=src, loc=tloc, lt=lt, lx=lx, base=base, x=x, links=links, var=var, vg=vg,
                   code=m["code"] if m else 0, cls=(m["code"] >> 5) if m else 0)
            elif k == "del":
                tpath, tloc = target(st)
                m = await request(wire.DELETE, tpath, (), b"", None, src)
                ev("del", src=src, loc=tloc, var="ok", vg="ok",
                   code=m["code"] if m else 0, cls=(m["code"] >> 5) if m else 0)
            else:
                raise MachineryError("rddrive: unknown step %r" % (st,))
            await lookups()
        meta["loop_exceptions"] = [str(c.get("exception") or c.get("message")) for c in w.loop.exceptions]
        meta["log_errors"] = [r.getMessage() for r in w.logcap.errors()]
        meta["locations"] = {str(n): "/" + "/".join(p) for n, p in loc_paths.items()}
        await ctx.shutdown()

    try:
        w.run(main())
    finally:
        w.close()
    return {"events": events, "meta": meta}
