"""OSCORE environment for checks C11-C13.

`cbor2`, `cryptography` and `filelock` are not installed in this sandbox, so
`import aiocoap.oscore` fails.  ``ensure()`` makes the stand-ins under
harness/shims importable -- appended to the END of sys.path and only if one of
the three is really missing, so that a real installation always wins -- and
imports aiocoap.oscore from $VERIF_REPO.  ``validate()`` checks the whole
stack (CBOR, HKDF, AES-CCM and aiocoap's own use of them) against the RFC 8613
Appendix C vectors; every OSCORE check calls ``setup()`` (= ensure + validate)
first and refuses to give a verdict (MachineryError) when a vector fails.

The stand-ins are part of the trusted base of C11-C13 (``ASSUMPTION``).
"""

import importlib
import importlib.util
import os
import sys

from . import MachineryError, require_repo

SHIMS = os.path.join(os.path.dirname(os.path.abspath(__file__)), "shims")
NEEDED = ("cbor2", "cryptography", "filelock")

ASSUMPTION = (
    "trusted base: pure-Python stand-ins for cbor2 / cryptography (AES-CCM, HKDF, SHA-2) / filelock under "
    "harness/shims (the real packages are not installed); validated at the start of every run against the "
    "RFC 8613 Appendix C vectors (C.1.1, C.1.2, C.2.1, C.3.1 key derivation and nonces; C.4-C.8 protected messages), "
    "NIST SP 800-38C / RFC 3610 CCM vectors and RFC 5869 HKDF vector; AEAD strength itself is assumed"
)

_state = {"ensured": False, "validated": False, "shimmed": []}


def _missing(name):
    try:
        return importlib.util.find_spec(name) is None
    except (ImportError, ValueError):
        return True


def ensure():
    """Import aiocoap.oscore from the tree under test, with stand-ins for the
    missing third-party modules.  Returns the module."""
    require_repo()
    if not _state["ensured"]:
        missing = [n for n in NEEDED if _missing(n)]
        if missing and SHIMS not in sys.path:
            sys.path.append(SHIMS)
        _state["shimmed"] = missing
        _state["ensured"] = True
    try:
        import aiocoap.oscore as oscore
    except ImportError as e:
        raise MachineryError("aiocoap.oscore cannot be imported even with the stand-ins: %r" % (e,))
    return oscore


def shimmed():
    return list(_state["shimmed"])


h = bytes.fromhex


def make_context_class(oscore):
    """In-memory security context in the manner of tests/test_oscore.py
    (NonsavingSecurityContext): the real CanProtect / CanUnprotect /
    SecurityContextUtils code with nothing persisted."""

    class MemoryContext(oscore.CanProtect, oscore.CanUnprotect, oscore.SecurityContextUtils):
        echo_recovery = None

        def post_seqnoincrease(self):
            pass

    return MemoryContext


def new_context(
    oscore,
    sender_id,
    recipient_id,
    secret=h("0102030405060708090a0b0c0d0e0f10"),
    salt=h("9e7ca92223786340"),
    id_context=None,
    algorithm=None,
    window=32,
    seqno=0,
    echo_recovery=None,
    initialized=True,
    cls=None,
):
    cls = cls or make_context_class(oscore)
    c = cls()
    c.alg_aead = oscore.algorithms[algorithm or oscore.DEFAULT_ALGORITHM]
    c.hashfun = oscore.hashfunctions[oscore.DEFAULT_HASHFUNCTION]
    c.sender_id = sender_id
    c.recipient_id = recipient_id
    c.id_context = id_context
    c.derive_keys(salt, secret)
    c.sender_sequence_number = seqno
    c.recipient_replay_window = oscore.ReplayWindow(window, lambda: None)
    if initialized:
        c.recipient_replay_window.initialize_empty()
    c.echo_recovery = echo_recovery
    return c


def _expect(what, got, want):
    if got != want:
        raise MachineryError(
            "OSCORE environment self-validation failed (%s): got %s, RFC 8613 says %s -- stand-in crypto/CBOR "
            "or the tree under test deviates from the test vectors; no verdict can be trusted"
            % (what, got.hex() if isinstance(got, bytes) else got, want.hex() if isinstance(want, bytes) else want)
        )


def validate_primitives():
    """Vectors for the stand-in primitives themselves (independent of aiocoap)."""
    from cryptography.hazmat.primitives.ciphers import aead
    from cryptography.hazmat.primitives.kdf.hkdf import HKDF
    from cryptography.hazmat.primitives import hashes
    import cryptography.exceptions
    import cbor2

    # FIPS 197 appendix C.1 / C.3 through the CCM internals if this is the stand-in
    try:
        from cryptography.hazmat.primitives.ciphers import _aes

        rk, nr = _aes.expand_key(h("000102030405060708090a0b0c0d0e0f"))
        _expect("FIPS-197 C.1", _aes.encrypt_block(rk, nr, h("00112233445566778899aabbccddeeff")), h("69c4e0d86a7b0430d8cdb78070b4c55a"))
        rk, nr = _aes.expand_key(h("000102030405060708090a0b0c0d0e0f101112131415161718191a1b1c1d1e1f"))
        _expect("FIPS-197 C.3", _aes.encrypt_block(rk, nr, h("00112233445566778899aabbccddeeff")), h("8ea2b7ca516745bfeafc49904b496089"))
    except ImportError:
        pass  # real cryptography
    # RFC 3610 packet vector #1 (M=8, L=2, nonce 13)
    key = h("c0c1c2c3c4c5c6c7c8c9cacbcccdcecf")
    nonce = h("00000003020100a0a1a2a3a4a5")
    aad = h("0001020304050607")
    msg = h("08090a0b0c0d0e0f101112131415161718191a1b1c1d1e")
    ct = h("588c979a61c663d2f066d0c2c0f989806d5f6b61dac384" "17e8d12cfdf926e0")
    _expect("RFC 3610 #1 encrypt", aead.AESCCM(key, 8).encrypt(nonce, msg, aad), ct)
    _expect("RFC 3610 #1 decrypt", aead.AESCCM(key, 8).decrypt(nonce, ct, aad), msg)
    # NIST SP 800-38C examples 1-3
    key = h("404142434445464748494a4b4c4d4e4f")
    _expect(
        "SP 800-38C example 1",
        aead.AESCCM(key, 4).encrypt(h("10111213141516"), h("20212223"), h("0001020304050607")),
        h("7162015b4dac255d"),
    )
    _expect(
        "SP 800-38C example 2",
        aead.AESCCM(key, 6).encrypt(
            h("1011121314151617"), h("202122232425262728292a2b2c2d2e2f"), h("000102030405060708090a0b0c0d0e0f")
        ),
        h("d2a1f0e051ea5f62081a7792073d593d1fc64fbfaccd"),
    )
    nonce = h("101112131415161718191a1b")
    aad = h("000102030405060708090a0b0c0d0e0f10111213")
    msg = h("202122232425262728292a2b2c2d2e2f3031323334353637")
    ct = h("e3b201a9f5b71a7a9b1ceaeccd97e70b6176aad9a4428aa5" "484392fbc1b09951")
    _expect("SP 800-38C example 3 encrypt", aead.AESCCM(key, 8).encrypt(nonce, msg, aad), ct)
    bad = bytearray(ct)
    bad[3] ^= 1
    try:
        aead.AESCCM(key, 8).decrypt(nonce, bytes(bad), aad)
    except cryptography.exceptions.InvalidTag:
        pass
    else:
        raise MachineryError("stand-in AES-CCM accepted a corrupted ciphertext")
    # 16-byte tag consistency (no published 13-byte-nonce vector at hand: round trip + tamper)
    c16 = aead.AESCCM(key, 16).encrypt(nonce, msg, aad)
    _expect("CCM-16 tag length", len(c16), len(msg) + 16)
    _expect("CCM-16 round trip", aead.AESCCM(key, 16).decrypt(nonce, c16, aad), msg)
    _expect("CCM-16 ciphertext part equals CCM-8 ciphertext part", c16[: len(msg)], ct[: len(msg)])
    # RFC 5869 A.1
    okm = HKDF(
        algorithm=hashes.SHA256(), length=42, salt=h("000102030405060708090a0b0c"), info=h("f0f1f2f3f4f5f6f7f8f9")
    ).derive(h("0b" * 22))
    _expect("RFC 5869 A.1", okm, h("3cb25f25faacd57a90434f64d0362f2a2d2d0a90cf1a5a4c5db02d56ecc4c5bf34007208d5b887185865"))
    # CBOR: RFC 8613 C.1.1 info structure for the sender key
    _expect("CBOR info", cbor2.dumps([b"", None, 10, "Key", 16]), h("8540f60a634b657910"))
    _expect("CBOR aad", cbor2.dumps([1, [10], b"\x00", b"\x14", b""]), h("8501810a4100411440"))
    for v in [0, 23, 24, 255, 256, 65535, 65536, 2**32, -1, -24, -25, -65531, b"", b"x" * 300, "Encrypt0", [1, [2, None]], {4: b"k", 6: b"\x01"}, True, False, None]:
        _expect("CBOR round trip of %r" % (v,), cbor2.loads(cbor2.dumps(v)), v)
    # RFC 8613 Appendix C with the stand-ins alone (independent of the tree under test)
    secret, salt = h("0102030405060708090a0b0c0d0e0f10"), h("9e7ca92223786340")

    def kdf(role_id, id_context, typ, length):
        info = cbor2.dumps([role_id, id_context, 10, typ, length])
        return HKDF(algorithm=hashes.SHA256(), length=length, salt=salt, info=info).derive(secret)

    _expect("RFC 8613 C.1.1 sender key (stand-ins only)", kdf(b"", None, "Key", 16), h("f0910ed7295e6ad4b54fc793154302ff"))
    _expect("RFC 8613 C.1.1 recipient key (stand-ins only)", kdf(b"\x01", None, "Key", 16), h("ffb14e093c94c9cac9471648b4f98710"))
    _expect("RFC 8613 C.1.1 common IV (stand-ins only)", kdf(b"", None, "IV", 13), h("4622d4dd6d944168eefb54987c"))
    _expect("RFC 8613 C.3.1 sender key (stand-ins only)", HKDF(algorithm=hashes.SHA256(), length=16, salt=salt, info=cbor2.dumps([b"", h("37cbf3210017a2d3"), 10, "Key", 16])).derive(secret), h("af2a1300a5e95788b356336eeecd2b92"))
    # C.4: plaintext 01b3747631, nonce = common IV xor (00.. | 14), AAD = Enc_structure
    aad = cbor2.dumps(["Encrypt0", b"", cbor2.dumps([1, [10], b"", b"\x14", b""])])
    _expect("RFC 8613 C.4 AAD (stand-ins only)", aad, h("8368456e63727970743040488501810a40411440"))
    _expect(
        "RFC 8613 C.4 ciphertext (stand-ins only)",
        aead.AESCCM(h("f0910ed7295e6ad4b54fc793154302ff"), 8).encrypt(h("4622d4dd6d944168eefb549868"), h("01b3747631"), aad),
        h("612f1092f1776f1c1668b3825e"),
    )
    # C.7: response 45 ff "Hello World!" under the server key with the request's nonce
    _expect(
        "RFC 8613 C.7 ciphertext (stand-ins only)",
        aead.AESCCM(h("ffb14e093c94c9cac9471648b4f98710"), 8).encrypt(h("4622d4dd6d944168eefb549868"), h("45ff48656c6c6f20576f726c6421"), aad),
        h("dbaad1e9a7e7b2a813d3c31524378303cdafae119106"),
    )


class _TreeDeviation(Exception):
    pass


def _vectors_through_tree(oscore, _expect):
    """RFC 8613 Appendix C through aiocoap's own protect/unprotect code.  The
    stand-ins have been validated on their own before, so a difference here is a
    property of the tree under test, not of the machinery."""
    import aiocoap
    from aiocoap.message import Direction

    alg = oscore.algorithms["AES-CCM-16-64-128"]
    K = h("0102030405060708090a0b0c0d0e0f10")
    SALT = h("9e7ca92223786340")
    IDCTX = h("37cbf3210017a2d3")

    def ctx(sid, rid, salt, idctx=None, seq=0):
        return new_context(oscore, sid, rid, secret=K, salt=salt, id_context=idctx, seqno=seq)

    # C.1.1 / C.1.2
    c = ctx(b"", b"\x01", SALT)
    _expect("C.1.1 sender key", c.sender_key, h("f0910ed7295e6ad4b54fc793154302ff"))
    _expect("C.1.1 recipient key", c.recipient_key, h("ffb14e093c94c9cac9471648b4f98710"))
    _expect("C.1.1 common IV", c.common_iv, h("4622d4dd6d944168eefb54987c"))
    _expect("C.1.1 sender nonce", c._construct_nonce(b"\0", b"", alg), h("4622d4dd6d944168eefb54987c"))
    _expect("C.1.1 recipient nonce", c._construct_nonce(b"\0", b"\x01", alg), h("4722d4dd6d944169eefb54987c"))
    s = ctx(b"\x01", b"", SALT)
    _expect("C.1.2 sender key", s.sender_key, h("ffb14e093c94c9cac9471648b4f98710"))
    _expect("C.1.2 recipient key", s.recipient_key, h("f0910ed7295e6ad4b54fc793154302ff"))
    # C.2.1 (no salt)
    c2 = ctx(b"\x00", b"\x01", None)
    _expect("C.2.1 sender key", c2.sender_key, h("321b26943253c7ffb6003b0b64d74041"))
    _expect("C.2.1 recipient key", c2.recipient_key, h("e57b5635815177cd679ab4bcec9d7dda"))
    _expect("C.2.1 common IV", c2.common_iv, h("be35ae297d2dace910c52e99f9"))
    # C.3.1 (ID context)
    c3 = ctx(b"", b"\x01", SALT, IDCTX)
    _expect("C.3.1 sender key", c3.sender_key, h("af2a1300a5e95788b356336eeecd2b92"))
    _expect("C.3.1 recipient key", c3.recipient_key, h("e39a0c7c77b43f03b4b39ab9a268699f"))
    _expect("C.3.1 common IV", c3.common_iv, h("2ca58fb85ff1b81c0b7181b85e"))

    def protect(context, plain_hex, request_id=None, **kw):
        m = aiocoap.Message.decode(h(plain_hex))
        m.direction = Direction.OUTGOING
        outer, rid = context.protect(m, request_id, **kw)
        outer.mid, outer.token, outer.mtype = m.mid, m.token, m.mtype
        return outer.encode(), outer, rid

    # C.4 request, client sender ID empty, Partial IV 0x14
    enc, outer, _ = protect(ctx(b"", b"\x01", SALT, seq=20), "44015d1f00003974396c6f63616c686f737483747631")
    _expect("C.4 protected request", enc, h("44025d1f00003974396c6f63616c686f7374620914ff612f1092f1776f1c1668b3825e"))
    # ... and the server unprotects it
    srv = ctx(b"\x01", b"", SALT)
    incoming = aiocoap.Message.decode(enc)
    incoming.direction = Direction.INCOMING
    plain, rid = srv.unprotect(incoming)
    _expect("C.4 unprotected code", int(plain.code), 1)
    _expect("C.4 unprotected path", tuple(plain.opt.uri_path), ("tv1",))
    # C.5 / C.6
    enc, _, _ = protect(ctx(b"\x00", b"\x01", None, seq=20), "440171c30000b932396c6f63616c686f737483747631")
    _expect("C.5 protected request", enc, h("440271c30000b932396c6f63616c686f737463091400ff4ed339a5a379b0b8bc731fffb0"))
    enc, _, _ = protect(ctx(b"", b"\x01", SALT, IDCTX, seq=20), "44012f8eef9bbf7a396c6f63616c686f737483747631", kid_context=True)
    _expect(
        "C.6 protected request",
        enc,
        h("44022f8eef9bbf7a396c6f63616c686f73746b19140837cbf3210017a2d3ff72cd7273fd331ac45cffbe55c3"),
    )
    # C.7 response reusing the request's nonce, C.8 response with own partial IV
    enc, _, _ = protect(
        ctx(b"\x01", b"", SALT),
        "64455d1f00003974ff48656c6c6f20576f726c6421",
        oscore.RequestIdentifiers(b"", b"\x14", True, aiocoap.POST),
    )
    _expect("C.7 protected response", enc, h("64445d1f0000397490ffdbaad1e9a7e7b2a813d3c31524378303cdafae119106"))
    enc, _, _ = protect(
        ctx(b"\x01", b"", SALT, seq=0),
        "64455d1f00003974ff48656c6c6f20576f726c6421",
        oscore.RequestIdentifiers(b"", b"\x14", False, aiocoap.POST),
    )
    _expect("C.8 protected response", enc, h("64445d1f00003974920100ff4d4c13669384b67354b2b6175ff4b8658c666a6cf88e"))
    # the client verifies the C.8 response against its request
    cl = ctx(b"", b"\x01", SALT)
    resp = aiocoap.Message.decode(enc)
    resp.direction = Direction.INCOMING
    plain, _ = cl.unprotect(resp, oscore.RequestIdentifiers(b"", b"\x14", False, aiocoap.POST))
    _expect("C.8 unprotected payload", plain.payload, b"Hello World!")


def validate(oscore=None):
    """Stand-ins against published vectors (MachineryError on failure); then the
    RFC 8613 vectors through the tree under test (deviations are recorded and
    reported by the checks as DRIFT -- they are the tree's, not the machinery's)."""
    if _state["validated"]:
        return
    oscore = oscore or ensure()
    validate_primitives()
    devs = []

    def expect(what, got, want):
        if got != want:
            devs.append("%s: got %s, RFC 8613 says %s" % (what, got.hex() if isinstance(got, bytes) else got, want.hex() if isinstance(want, bytes) else want))

    try:
        _vectors_through_tree(oscore, expect)
    except MachineryError:
        raise
    except Exception as e:
        devs.append("RFC 8613 vector run through the tree under test raised %r" % (e,))
    _state["tree_deviations"] = devs
    _state["validated"] = True


def tree_deviations():
    return list(_state.get("tree_deviations", []))


def setup():
    """ensure + validate; returns aiocoap.oscore."""
    oscore = ensure()
    try:
        validate(oscore)
    except MachineryError:
        raise
    except Exception as e:
        import traceback

        raise MachineryError("OSCORE environment self-validation crashed: %r\n%s" % (e, traceback.format_exc()))
    return oscore


def validate_traces(wd, module, cfg_text, traces, timeout=900, heap="8g"):
    """Batch trace validation with TLC for the OSCORE trace specs: `traces` is a
    list of lists of uniform event records; the trace spec has one initial
    state per trace and prints <<"TRACE", tid, consumed, {<<clause, position>>}>>
    when a trace is consumed.  Returns (list of {len, bad, at, firstBad}, TlcResult)."""
    import json

    from . import tlc

    if not traces:
        return [], None
    tf = wd.file(module + "-traces.json")
    with open(tf, "w") as f:
        json.dump(traces, f, separators=(",", ":"))
    wd.write(module + "-run.cfg", cfg_text)
    r = tlc.run(wd, module + ".tla", module + "-run.cfg", workers=1, timeout=timeout, env={"TRACE_FILE": tf}, dfs=True, heap=heap)
    tlc.need_ok_run(r, module + " trace validation")
    out = [None] * len(traces)
    for v in tlc.printed_values(r, "TRACE"):
        _, tid, n, first = v
        pos = {}
        for c, l in first:
            pos[c] = min(l, pos.get(c, l))
        out[tid - 1] = {"len": n, "bad": set(pos), "at": pos, "firstBad": min(pos.values()) if pos else 0, "all": sorted((l, c) for c, l in first)}
    missing = [i for i, x in enumerate(out) if x is None]
    if missing:
        raise MachineryError("%s: no verdict for traces %s\n%s" % (module, missing[:5], r.out[-2000:]))
    for i, x in enumerate(out):
        if x["len"] != len(traces[i]):
            raise MachineryError("%s: trace %d consumed %d of %d events" % (module, i, x["len"], len(traces[i])))
    return out, r
