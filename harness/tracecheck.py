"""Batch trace validation with TLC: a list of traces (each a list of uniform
event records) is written as one JSON array; the trace spec has one initial
state per trace and prints one TRACE line per trace."""

import json
import os

from . import tlc, MachineryError


def validate(wd, module, cfg_tmpl, consts, traces, timeout=900, tag="TRACE", heap="8g"):
    """Returns list (index-aligned with traces) of dicts
    {len, firstBad, bad:set(str)}"""
    if not traces:
        return []
    tf = wd.file(module + "-traces.json")
    with open(tf, "w") as f:
        json.dump(traces, f, separators=(",", ":"))
    tmpl = open(os.path.join(tlc.SPEC_DIR, cfg_tmpl)).read()
    cfg = wd.write(module + "-run.cfg", tmpl % consts)
    r = tlc.run(wd, module + ".tla", os.path.basename(cfg), workers=1, timeout=timeout, env={"TRACE_FILE": tf}, dfs=True, heap=heap)
    tlc.need_ok_run(r, module + " trace validation")
    out = [None] * len(traces)
    for v in tlc.printed_values(r, tag):
        _, tid, n, first = v
        pos = {c: l for (c, l) in first}
        out[tid - 1] = {"len": n, "firstBad": min(pos.values()) if pos else 0, "bad": set(pos), "at": pos}
    missing = [i for i, x in enumerate(out) if x is None]
    if missing:
        raise MachineryError("%s: no verdict for traces %s\n%s" % (module, missing[:5], r.out[-2000:]))
    for i, x in enumerate(out):
        if x["len"] != len(traces[i]):
            raise MachineryError("%s: trace %d consumed %d of %d events" % (module, i, x["len"], len(traces[i])))
    return out, r


def validate_strict(wd, module, cfg_tmpl, consts, traces, timeout=1800, heap="8g"):
    """Strict validation: each trace must be a behaviour of the implementation-shaped spec.  Returns a
    list (index-aligned) of (explained_prefix_length, trace_length)."""
    if not traces:
        return []
    tf = wd.file(module + "-traces.json")
    with open(tf, "w") as f:
        json.dump(traces, f, separators=(",", ":"))
    tmpl = open(os.path.join(tlc.SPEC_DIR, cfg_tmpl)).read()
    cfg = wd.write(module + "-run.cfg", tmpl % consts)
    r = tlc.run(wd, module + ".tla", os.path.basename(cfg), workers=1, timeout=timeout, env={"TRACE_FILE": tf}, dfs=True, heap=heap)
    tlc.need_ok_run(r, module + " strict trace validation")
    out = [None] * len(traces)
    for v in tlc.printed_values(r, "STRICT"):
        _, tid, reached, n = v
        out[tid - 1] = (reached, n)
    missing = [i for i, x in enumerate(out) if x is None]
    if missing:
        raise MachineryError("%s: no progress report for traces %s\n%s" % (module, missing[:5], r.out[-2000:]))
    return out
