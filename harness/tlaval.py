"""Parser for TLA+ values as printed by TLC (states in counterexamples,
simulation files, PrintT output)."""


class ParseError(Exception):
    pass


class ModelValue(str):
    def __repr__(self):
        return "MV(%s)" % str.__repr__(self)


def parse(text):
    p = _P(text)
    v = p.value()
    p.ws()
    if p.i != len(p.s):
        raise ParseError("trailing input at %d: %r" % (p.i, p.s[p.i : p.i + 30]))
    return v


def parse_prefix(text, i=0):
    """Parse one value starting at i; return (value, next index)."""
    p = _P(text)
    p.i = i
    v = p.value()
    return v, p.i


class _P:
    def __init__(self, s):
        self.s = s
        self.i = 0

    def ws(self):
        while self.i < len(self.s) and self.s[self.i] in " \t\r\n":
            self.i += 1

    def peek(self, n=1):
        return self.s[self.i : self.i + n]

    def expect(self, tok):
        self.ws()
        if self.s.startswith(tok, self.i):
            self.i += len(tok)
        else:
            raise ParseError("expected %r at %d: %r" % (tok, self.i, self.s[self.i : self.i + 30]))

    def value(self):
        self.ws()
        s = self.s
        if self.i >= len(s):
            raise ParseError("unexpected end")
        c = s[self.i]
        if s.startswith("<<", self.i):
            self.i += 2
            items = self.items(">>")
            return items
        if c == "{":
            self.i += 1
            items = self.items("}")
            return frozenset(_freeze(x) for x in items)
        if c == "[":
            self.i += 1
            return self.record()
        if c == "(":
            self.i += 1
            return self.function()
        if c == '"':
            return self.string()
        if c == "-" or c.isdigit():
            j = self.i + 1
            while j < len(s) and s[j].isdigit():
                j += 1
            v = int(s[self.i : j])
            self.i = j
            # interval a..b
            self.ws()
            if s.startswith("..", self.i):
                self.i += 2
                hi = self.value()
                return frozenset(range(v, hi + 1))
            return v
        if c.isalpha() or c == "_":
            j = self.i
            while j < len(s) and (s[j].isalnum() or s[j] == "_"):
                j += 1
            w = s[self.i : j]
            self.i = j
            if w == "TRUE":
                return True
            if w == "FALSE":
                return False
            return ModelValue(w)
        raise ParseError("unexpected %r at %d" % (c, self.i))

    def items(self, close):
        out = []
        self.ws()
        if self.s.startswith(close, self.i):
            self.i += len(close)
            return out
        while True:
            out.append(self.value())
            self.ws()
            if self.s.startswith(close, self.i):
                self.i += len(close)
                return out
            self.expect(",")

    def string(self):
        assert self.s[self.i] == '"'
        j = self.i + 1
        out = []
        while self.s[j] != '"':
            if self.s[j] == "\\":
                j += 1
                ch = self.s[j]
                out.append({"n": "\n", "t": "\t", '"': '"', "\\": "\\"}.get(ch, ch))
            else:
                out.append(self.s[j])
            j += 1
        self.i = j + 1
        return "".join(out)

    def record(self):
        # [a |-> v, b |-> w]
        out = {}
        self.ws()
        if self.peek() == "]":
            self.i += 1
            return out
        while True:
            self.ws()
            j = self.i
            while j < len(self.s) and (self.s[j].isalnum() or self.s[j] == "_"):
                j += 1
            name = self.s[self.i : j]
            self.i = j
            self.expect("|->")
            out[name] = self.value()
            self.ws()
            if self.peek() == "]":
                self.i += 1
                return out
            self.expect(",")

    def function(self):
        # (k :> v @@ k2 :> v2)
        out = {}
        while True:
            k = self.value()
            self.expect(":>")
            v = self.value()
            out[_freeze(k)] = v
            self.ws()
            if self.peek() == ")":
                self.i += 1
                return out
            self.expect("@@")


def _freeze(x):
    if isinstance(x, list):
        return tuple(_freeze(y) for y in x)
    if isinstance(x, dict):
        return tuple(sorted((k, _freeze(v)) for k, v in x.items()))
    return x


def parse_state(text):
    """Parse a TLC state printed as conjunction ``/\\ var = value`` lines."""
    out = {}
    i = 0
    n = len(text)
    while True:
        j = text.find("/\\", i)
        if j < 0:
            break
        j += 2
        while j < n and text[j] in " \t":
            j += 1
        k = j
        while k < n and (text[k].isalnum() or text[k] == "_"):
            k += 1
        name = text[j:k]
        eq = text.index("=", k)
        v, i = parse_prefix(text, eq + 1)
        out[name] = v
    return out
