"""Driver for C19 (spec/FileServer.tla): runs request histories against a real
``aiocoap.cli.fileserver.FileServer`` rooted in a temp tree that mirrors the
model's global tree, with every path-taking call intercepted, and reports each
request as an observation in the vocabulary of the specification.

Tree of one worker (T = a fresh directory under the run's mkdtemp directory)::

    T/a  T/d/f                     an ancestor's file / directory (outside)
    T/top/a  T/top/d/f             siblings of the root           (outside)
    T/top/srv2/a                   sibling whose name extends the root's name (outside)
    T/top/srv/                     ROOT the server is started with
    T/top/srv/a (64 B)  d/f (1041 B)  é (0 B)

Model naming: a path is a list of names, a name a list of character tokens
(see ``tok``); ``BASE1`` stands for all components of T but the last, ``BASE2``
for the last, ``TMP`` for the random name of a tempfile spool file.

Interception: while a request is being served the names ``os.stat lstat open
listdir scandir rename replace unlink remove rmdir mkdir link symlink truncate
chmod chown utime readlink access`` and ``io.open`` / ``builtins.open`` are
replaced (pathlib and tempfile look them up at call time, so everything
``fileserver`` does through ``Path`` methods and ``tempfile`` passes here).
The argument is resolved with ``os.path.realpath`` before the call.  Sandbox:
a *modifying* call that would succeed on an object outside T (the host's real
file system) is not executed; it is recorded (``blocked``) and raises
PermissionError.  Everything inside T, in particular the sentinel files outside
the root, is executed for real.
"""

import asyncio
import builtins
import errno
import io
import logging
import mimetypes
import os
import re
import shutil
import stat as statmod
import warnings

from . import require_repo, MachineryError

PUT_PAYLOAD = b"C19-put-payload\n"
JUNK_ETAG = b"\x00junk\xff"
SPECIAL_NAMES = ("BASE1", "BASE2", "TMP")
_TMP_RE = re.compile(r"^tmp[a-z0-9_]{8}$")


# -- names <-> tokens ----------------------------------------------------------
def tok_char(ch):
    if ch in "/." or (ch.isascii() and ch.isalnum()):
        return ch
    return "U+%04X" % ord(ch)


def tok(s):
    return [tok_char(ch) for ch in s]


def untok(tokens):
    out = []
    for t in tokens:
        if t.startswith("U+") and len(t) > 2:
            out.append(chr(int(t[2:], 16)))
        else:
            out.append(t)
    return "".join(out)


def content_of(length):
    """Same bytes as FileServer!ContentOf."""
    return bytes((i * 7 + 3) % 251 for i in range(1, length + 1))


TREE = {
    "a": b"OUTER sentinel (an ancestor's file)\n",
    "d/f": b"OUTER sentinel in an ancestor's directory\n",
    "top/a": b"SIBLING sentinel\n",
    "top/d/f": b"SIBLING sentinel in a directory\n",
    # a sibling whose name extends the root's name (string-prefix containment tests accept it)
    "top/srv2/a": b"LOOK-ALIKE SIBLING sentinel\n",
    "top/srv/a": content_of(64),
    "top/srv/d/f": content_of(65 * 16 + 1),
    "top/srv/é": b"",
}
TREE_DIRS = ["d", "top", "top/d", "top/srv2", "top/srv", "top/srv/d"]


def build_tree(T):
    for d in TREE_DIRS:
        os.makedirs(os.path.join(T, d), exist_ok=True)
    for rel, data in TREE.items():
        with open(os.path.join(T, rel), "wb") as f:
            f.write(data)


def snapshot(T):
    out = {}
    stack = [(T, "")]
    while stack:
        d, rel = stack.pop()
        with os.scandir(d) as it:
            for e in it:
                r = rel + e.name
                if e.is_symlink():
                    out[r] = ("l", os.readlink(e.path))
                elif e.is_dir(follow_symlinks=False):
                    out[r] = ("d",)
                    stack.append((e.path, r + "/"))
                else:
                    with open(e.path, "rb") as f:
                        out[r] = ("f", f.read())
    return out


def reset_tree(T):
    for name in os.listdir(T):
        p = os.path.join(T, name)
        if os.path.isdir(p) and not os.path.islink(p):
            shutil.rmtree(p)
        else:
            os.unlink(p)
    build_tree(T)


# -- interception ----------------------------------------------------------------
class _NulPath(Exception):
    pass


_OS_NAMES = [
    "stat", "lstat", "open", "listdir", "scandir", "rename", "replace", "unlink", "remove", "rmdir",
    "mkdir", "link", "symlink", "truncate", "chmod", "chown", "utime", "readlink", "access",
]  # fmt: skip
_ORIG_OS = {n: getattr(os, n) for n in _OS_NAMES}
_ORIG_OPEN = builtins.open


class Recorder:
    """Context manager; ``effects`` is a list of dicts {k, path, op, blocked}."""

    def __init__(self, T):
        self.T = T
        self.effects = []
        self.tmp_paths = set()
        self._busy = False

    # path helpers (run with interception switched off)
    def _resolve(self, p, follow=True):
        if isinstance(p, int):
            return None
        p = os.fspath(p)
        if isinstance(p, bytes):
            p = os.fsdecode(p)
        if "\0" in p:
            raise _NulPath()
        p = os.path.abspath(p)
        if follow:
            return os.path.realpath(p)
        d, b = os.path.split(p)
        return os.path.join(os.path.realpath(d), b) if b else os.path.realpath(d)

    def _in_T(self, rp):
        return rp == self.T or rp.startswith(self.T + os.sep)

    def _rec(self, kind, rp, op, blocked=False):
        self.effects.append({"k": kind, "path": rp, "op": op, "blocked": blocked})

    def _call(self, op, fn, args, kw, specs):
        """specs: list of (argument, follow, classify) where classify(existed)
        gives the effect kind on success; all effects of a failing call are
        probes."""
        if self._busy:
            return fn(*args, **kw)
        self._busy = True
        try:
            resolved = []
            try:
                for arg, follow, classify in specs:
                    rp = self._resolve(arg, follow)
                    if rp is not None:
                        resolved.append((rp, os.path.lexists(rp), classify))
            except _NulPath:
                self.effects.append({"k": "probe", "path": None, "op": op, "blocked": False})
                resolved = None
            if resolved:
                kinds = [(rp, existed, classify(existed)) for rp, existed, classify in resolved]
                modifying = [x for x in kinds if x[2] in ("create", "replace", "delete")]
                outside = [x for x in modifying if not self._in_T(x[0])]
                if outside:
                    would = True
                    for rp, existed, kind in modifying:
                        if kind == "create" and not os.path.isdir(os.path.dirname(rp)):
                            would = False
                        if kind in ("replace", "delete") and not existed:
                            would = False
                    if would:
                        for rp, existed, kind in kinds:
                            self._rec(kind, rp, op, blocked=True)
                        raise PermissionError(errno.EACCES, "blocked by the verification sandbox", outside[0][0])
        finally:
            self._busy = False
        try:
            res = fn(*args, **kw)
        except BaseException:
            if resolved:
                for rp, existed, classify in resolved:
                    self._rec("probe", rp, op)
            raise
        if resolved:
            for rp, existed, classify in resolved:
                self._rec(classify(existed), rp, op)
        return res

    # wrappers
    def _w_simple(self, name, kind, follow=True):
        fn = _ORIG_OS[name]

        def w(path, *a, **kw):
            return self._call(name, fn, (path,) + a, kw, [(path, follow, lambda existed: kind)])

        return w

    def _w_two(self, name):
        fn = _ORIG_OS[name]

        def w(src, dst, *a, **kw):
            if name in ("rename", "replace"):
                specs = [(src, False, lambda e: "delete"), (dst, False, lambda e: "replace" if e else "create")]
            else:  # link, symlink: the second argument is the new name
                specs = [(dst, False, lambda e: "create")]
                if name == "link":
                    specs.insert(0, (src, True, lambda e: "read"))
            return self._call(name, fn, (src, dst) + a, kw, specs)

        return w

    def _w_os_open(self):
        fn = _ORIG_OS["open"]

        def w(path, flags, mode=0o777, **kw):
            wr = flags & (os.O_WRONLY | os.O_RDWR | os.O_CREAT | os.O_TRUNC | os.O_APPEND)
            if wr:
                classify = lambda e: "replace" if e else "create"  # noqa: E731
            else:
                classify = lambda e: "read"  # noqa: E731
            if (flags & os.O_EXCL) and (flags & os.O_CREAT) and not self._busy:
                try:
                    b = os.path.basename(os.fspath(path))
                    if isinstance(b, str) and _TMP_RE.match(b):
                        self._busy = True
                        try:
                            self.tmp_paths.add(self._resolve(path, False))
                        finally:
                            self._busy = False
                except (_NulPath, TypeError):
                    pass
            return self._call("os.open", fn, (path, flags, mode), kw, [(path, True, classify)])

        return w

    def _w_open(self):
        fn = _ORIG_OPEN

        def w(file, mode="r", *a, **kw):
            if kw.get("opener") is not None or len(a) > 5 and a[5] is not None:
                # tempfile passes the *directory* here and creates the file in
                # its opener (through os.open, which is intercepted)
                return fn(file, mode, *a, **kw)
            if any(c in mode for c in "wax+"):
                classify = lambda e: "replace" if e else "create"  # noqa: E731
            else:
                classify = lambda e: "read"  # noqa: E731
            return self._call("open", fn, (file, mode) + a, kw, [(file, True, classify)])

        return w

    def __enter__(self):
        self._saved = {n: getattr(os, n) for n in _OS_NAMES}
        self._saved_open = (io.open, builtins.open)
        read = {"stat": True, "access": True, "lstat": False, "readlink": False}
        for n, follow in read.items():
            setattr(os, n, self._w_simple(n, "read", follow))
        for n in ("listdir", "scandir"):
            setattr(os, n, self._w_simple(n, "list"))
        for n in ("unlink", "remove", "rmdir"):
            setattr(os, n, self._w_simple(n, "delete", False))
        setattr(os, "mkdir", self._w_simple("mkdir", "create", False))
        for n in ("truncate", "chmod", "chown", "utime"):
            setattr(os, n, self._w_simple(n, "replace"))
        for n in ("rename", "replace", "link", "symlink"):
            setattr(os, n, self._w_two(n))
        os.open = self._w_os_open()
        io.open = builtins.open = self._w_open()
        return self

    def __exit__(self, *exc):
        for n, f in self._saved.items():
            setattr(os, n, f)
        io.open, builtins.open = self._saved_open
        return False


# -- the real file server ----------------------------------------------------------
class _Remote:
    hostinfo = "peer"
    hostinfo_local = "local"
    uri_base = "coap://peer"
    uri_base_local = "coap://local"
    scheme = "coap"
    is_multicast = False
    is_multicast_locally = False
    maximum_block_size_exp = 6
    maximum_payload_size = 1124
    blockwise_key = ("c19-peer",)

    def as_response_address(self):
        return self


def implemented_methods():
    """(request methods CoAP knows according to aiocoap.Code, names x for which
    FileServer has a render_x handler that Resource.render dispatches to)"""
    aiocoap = require_repo()
    from aiocoap.cli.fileserver import FileServer

    codes = sorted(str(c) for c in aiocoap.Code if c.is_request())
    lower = {c.lower() for c in codes}
    handlers = sorted(n[len("render_") :] for n in dir(FileServer) if n.startswith("render_") and n[len("render_") :] in lower)
    return codes, handlers


class Tree:
    """One worker's temp tree plus everything needed to serve requests on it."""

    def __init__(self, T):
        require_repo()
        self.T = os.path.realpath(T)
        os.makedirs(self.T, exist_ok=True)
        self.parts = [p for p in self.T.split(os.sep) if p]
        if len(self.parts) < 2:
            raise MachineryError("temp directory %s must be at least two levels below /" % self.T)
        self.base1 = os.sep + os.sep.join(self.parts[:-1])
        self.root = os.path.join(self.T, "top", "srv")
        reset_tree(self.T)
        self.pristine = self.current = snapshot(self.T)
        self.log = logging.getLogger("c19-fileserver")
        self.log.propagate = False
        self.log.addHandler(logging.NullHandler())
        self.log.setLevel(logging.CRITICAL + 1)
        mimetypes.init()  # reads /etc/mime.types once, outside any request
        warnings.simplefilter("ignore")
        self.loop = asyncio.new_event_loop()

    def close(self):
        self.loop.close()

    # model <-> real names
    def components(self, u):
        """Uri-Path of the model (list of token lists) -> tuple of real strings."""
        out = []
        for c in u:
            if c == ["BASE1"]:
                out.extend(self.parts[:-1])
            elif c == ["BASE2"]:
                out.append(self.parts[-1])
            else:
                out.append(untok(c))
        return tuple(out)

    def model_path(self, rp, tmp_paths=()):
        """absolute real path -> model path (list of names = token lists)"""
        if rp in tmp_paths:
            return self.model_path(os.path.dirname(rp)) + [["TMP"]]
        if rp == self.T or rp.startswith(self.T + os.sep):
            rest = [p for p in rp[len(self.T) :].split(os.sep) if p]
            return [["BASE1"], ["BASE2"]] + [tok(p) for p in rest]
        if rp == os.sep:
            return []
        if rp == self.base1:
            return [["BASE1"]]
        return [tok(p) for p in rp.split(os.sep) if p]

    def _in_T(self, rp):
        return rp == self.T or rp.startswith(self.T + os.sep)

    # serving
    async def _serve(self, fs, msg):
        from aiocoap.message import Direction
        from aiocoap.pipe import Pipe, error_to_message, run_driving_pipe

        msg.direction = Direction.INCOMING
        msg.remote = _Remote()
        fut = self.loop.create_future()
        pipe = Pipe(msg, self.log)

        def on_event(ev):
            if not fut.done():
                fut.set_result(ev)
            return False

        pipe.on_event(on_event)
        # exactly what Context.render_to_pipe does
        run_driving_pipe(error_to_message(pipe, self.log), fs.render_to_pipe(pipe))
        try:
            ev = await asyncio.wait_for(fut, 5)
        except asyncio.TimeoutError:
            return None
        return ev.message

    def request(self, method, write, comps, **opts):
        """Serve one request on a fresh FileServer(root, write=write); returns
        (response message or None, recorder)."""
        import aiocoap
        from pathlib import Path
        from aiocoap.cli.fileserver import FileServer

        code = {str(c): c for c in aiocoap.Code if c.is_request()}[method]
        rec = Recorder(self.T)
        fs = FileServer(Path(self.root), self.log, write=write)
        msg = aiocoap.Message(code=code, uri_path=tuple(comps), **opts)
        with rec:
            resp = self.loop.run_until_complete(self._serve(fs, msg))
        return resp, rec

    def run_step(self, step, etag=None):
        """step: {m, w, c, u}; returns the observation (model vocabulary) with
        some extra fields for reports.  ``etag``: what a preparatory GET of the
        same path has returned (condition "match")."""
        m, w, c = step["m"], bool(step["w"]), step["c"]
        comps = self.components(step["u"])
        before = self.current
        recs = []
        opts = {}
        tag = None
        if c == "match":
            tag = etag if etag is not None else JUNK_ETAG
        elif c == "stale":
            tag = JUNK_ETAG
        if m == "GET":
            if tag is not None:
                opts["etags"] = [tag]
        else:
            if tag is not None:
                opts["if_match"] = [tag]
            elif c == "any":
                opts["if_match"] = [b""]
        if c == "inm":
            opts["if_none_match"] = True
        if m not in ("GET", "DELETE"):
            opts["payload"] = PUT_PAYLOAD
        resp, rec = self.request(m, w, comps, **opts)
        recs.append(rec)
        after = self.current = snapshot(self.T)
        tmp_paths = set()
        for r in recs:
            tmp_paths |= r.tmp_paths
        effects = [e for r in recs for e in r.effects]
        if resp is None:
            rc = "none"
        else:
            rc = "ok" if resp.code.is_successful() else "err"
        eff = []
        seen = set()
        for e in effects:
            if e["path"] is None:
                continue
            mp = self.model_path(e["path"], tmp_paths)
            key = (e["k"], repr(mp))
            if key not in seen:
                seen.add(key)
                eff.append({"k": e["k"], "p": mp})
        # normalised for the comparison with the model's prediction: no probes,
        # the is_dir() stats of the entries of a listed directory folded into
        # the listing
        listed = {repr(x["p"]) for x in eff if x["k"] == "list"}
        neff = [
            x
            for x in eff
            if x["k"] != "probe" and not (x["k"] == "read" and x["p"] and repr(x["p"][:-1]) in listed and repr(x["p"]) not in listed)
        ]
        # ... but a read of an entry that the request itself addresses stays
        chg = []
        for rel in sorted(set(before) | set(after)):
            if before.get(rel) != after.get(rel):
                chg.append(self.model_path(os.path.join(self.T, rel), tmp_paths))
        for e in effects:
            # what the sandbox prevented would have changed the host's file system
            if e["blocked"] and e["k"] in ("create", "replace", "delete"):
                mp = self.model_path(e["path"], tmp_paths)
                if mp not in chg and not (mp and mp[-1] == ["TMP"]):
                    chg.append(mp)
        return {
            "m": m,
            "w": w,
            "c": c,
            "u": step["u"],
            "resp": rc,
            "eff": eff,
            "neff": neff,
            "chg": chg,
            # report-only fields (not read by the specification)
            "x_host": any(
                e["k"] != "probe" and e["path"] and not self._in_T(e["path"]) and e["path"] not in (os.sep, self.base1)
                for e in effects
            ),
            "x_etag": (resp.opt.etag if resp is not None and resp.code.is_successful() else None),
            "x_code": str(resp.code) if resp is not None else None,
            "x_payload": (resp.payload[:48].hex() if resp is not None else None),
            "x_uri_path": [c_ for c_ in comps],
            "x_calls": [
                "%s(%s)%s -> %s" % (e["op"], e["path"], " [blocked]" if e["blocked"] else "", e["k"]) for e in effects[:24]
            ],
        }

    def run_history(self, steps):
        """steps: [{m, w, c, u[, x_prep]}]; a step marked x_prep is the
        preparatory GET whose ETag the next step (condition "match") sends."""
        if self.current != self.pristine:
            reset_tree(self.T)
            self.current = snapshot(self.T)
            if self.current != self.pristine:
                raise MachineryError("could not restore the pristine tree")
        out = []
        etag = None
        for s in steps:
            o = self.run_step(s, etag)
            etag = o.pop("x_etag") if s.get("x_prep") else None
            o.pop("x_etag", None)
            out.append(o)
        return out

    # block-wise
    def fetch_blockwise(self, length, szx, name="blk"):
        """Walks a file of ``length`` bytes (content_of) block by block like a
        client does: block 0, 1, ... until a response without 'more'."""
        path = os.path.join(self.root, name)
        content = content_of(length)
        with open(path, "wb") as f:
            f.write(content)
        blocks = []
        outside = []
        try:
            n = 0
            limit = length // (1 << (szx + 4)) + 3
            while n < limit:
                resp, rec = self.request("GET", False, (name,), block2=(n, False, szx))
                for e in rec.effects:
                    if e["k"] != "probe" and e["path"] and not (e["path"] == self.root or e["path"].startswith(self.root + os.sep)):
                        outside.append(e["path"])
                if resp is None or not resp.code.is_successful():
                    blocks.append({"n": n, "ok": False, "more": False, "payload": []})
                    break
                b2 = resp.opt.block2
                more = bool(b2.more) if b2 is not None else False
                num = b2.block_number if b2 is not None else 0
                if b2 is not None and b2.size_exponent != szx:
                    num = -1  # a different block size than asked for: not the block that was requested
                blocks.append({"n": num, "ok": True, "more": more, "payload": list(resp.payload)})
                if not more:
                    break
                n += 1
        finally:
            os.unlink(path)
        return {"content": list(content), "szx": szx, "blocks": blocks, "x_outside": outside}
