"""General schedule driver for the UDP stack (client and server role).

A schedule is what the *environment* does (application calls, datagrams from
scripted peers, ICMP-style errors, handler completions, shutdown) at exact
virtual instants; the recorded trace is what the implementation did.  Time unit
U = 2**-10 s.  Every event is a uniform record (all fields always present) so
that TLC trace specifications can read any of them.

schedule = {
  "tuning":   {ACK_TIMEOUT, ACK_RANDOM_FACTOR, MAX_RETRANSMIT, EMPTY_ACK_DELAY, ...}   (patched on TransportTuning)
  "mid0", "tok0", "nremotes",
  "handlers": {"<n>": {"delay": units|None, "outcome": "ok"|..., "len": int}},   resources at /h/<n>
  "nosite": bool,
  "steps":    [{"at": units, "do": "submit"|"rx"|"err"|"release"|"shutdown"|"wait", ...}],
  "triggers": [{"on": {"q": q, "copy": k} | {"tx": {"ty":..,"cls":..,"nth":k}}, "delay": units, "rx": {...}}],
  "horizon":  units | None      (how long to keep running after the last step)
}
"""

import asyncio
import zlib

from . import wire
from .sut import World
from .fakenet import sockaddr, LOCAL_UNICAST, LOCAL_MCAST, LOCAL_MCAST4
from .vloop import TICKS_PER_S

UNIT = TICKS_PER_S >> 10
ALT_PORT = 6001
# cache-key options besides the Uri-* ones (Content-Format, Accept, Request-Tag), as a second dimension of the key:
# index of the (option, value) a request carries (0: none of them)
CK2_TABLE = {(17, b"\x3c"): 1, (12, b"\x2a"): 2, (292, b"\x01"): 3, (292, b"\x02"): 4}


def ck2_index(pairs):
    for num, val in pairs:
        if (int(num), bytes(val)) in CK2_TABLE:
            return CK2_TABLE[(int(num), bytes(val))]
    return 0


DIAG_LEN = 8   # length of the diagnostic text scripted handlers put into renderable errors


def peer_sockaddr(r, port=None):
    """Scripted peer r; peers 11..19 are further endpoints (another port) at the addresses of peers 1..9."""
    if r > 10:
        return sockaddr(r - 10, ALT_PORT)
    return sockaddr(r, port or 5683)


SECRET = "s3cr3t-marker"

FIELDS = {
    "k": "",
    "t": 0,
    "r": 0,
    "ty": "",
    "mid": 0,
    "tok": "",
    "cls": "",
    "code": 0,
    "dig": 0,
    "q": 0,
    "con": False,
    "h": 0,
    "inv": 0,
    "loc": "",
    "nr": 0,
    "obs": -1,
    "plen": 0,
    "b1": -1,
    "b2": -1,
    "leak": False,
    "x": "",
    "b1n": -1, "b1m": -1, "b1s": -1, "b2n": -1, "b2m": -1, "b2s": -1,
    "ck": 0, "cid": -1, "off": -1, "cok": True,
}


def canon(cid, start, length):
    """Self-describing canonical byte string number `cid`: 8-byte cells
    "%02x%05x;" (cid, cell index); returns bytes [start, start+length)."""
    if length <= 0:
        return b""
    first = start // 8
    last = (start + length - 1) // 8
    data = b"".join(b"%02x%05x;" % (cid & 0xFF, j & 0xFFFFF) for j in range(first, last + 1))
    o = start - first * 8
    return data[o : o + length]


def identify(payload, off_hint=None):
    """-> (cid, off, consistent) for a payload taken from a canonical string."""
    n = len(payload)
    if n == 0:
        return -1, -1, True
    if n >= 8:
        # find a cell boundary
        for shift in range(8):
            cell = payload[shift : shift + 8]
            if len(cell) == 8 and cell[7:8] == b";":
                try:
                    cid = int(cell[0:2], 16)
                    j = int(cell[2:7], 16)
                except ValueError:
                    continue
                off = j * 8 - shift
                if off >= 0 and canon(cid, off, n) == bytes(payload):
                    return cid, off, True
        return -1, -1, False
    # short payload: needs the offset from the block option
    if off_hint is not None:
        cands = [cid for cid in range(256) if canon(cid, off_hint, n) == bytes(payload)]
        if len(cands) == 1:
            return cands[0], off_hint, True
        if cands:
            return -2, off_hint, True  # too short to tell which canonical string: consistent with several
    return -1, -1, False


def key_salt(r, code, ck):
    return (r * 64 + code * 16 + ck) & 0xFF


def units(loop):
    # instants off the 2^-10 s grid (timers armed with undyadic values) are floored: differences by whole
    # units are preserved, which is all the clauses judged on these traces compare
    return loop.ticks() // UNIT


def code_class(c):
    if c == 0:
        return "empty"
    if 1 <= c < 32:
        return "req"
    if 64 <= c < 192:
        return "resp"
    if 224 <= c < 256:
        return "sig"
    return "other"


def err_class(exc):
    from aiocoap import error

    if isinstance(exc, error.LibraryShutdown):
        return "shutdown"
    if isinstance(exc, error.NetworkError) and isinstance(exc, error.TimeoutError):
        return "timeout"
    if isinstance(exc, error.NetworkError):
        return "net"
    if isinstance(exc, error.Error):
        return "lib"
    return "other"


TUNING_KEYS = ("ACK_TIMEOUT", "ACK_RANDOM_FACTOR", "MAX_RETRANSMIT", "EMPTY_ACK_DELAY", "MAX_LATENCY", "OBSERVATION_RESET_TIME", "EXCHANGE_LIFETIME", "MAX_TRANSMIT_WAIT")


def build_msg(step, reqs, free_mid):
    mid = step.get("mid", 0)
    if isinstance(mid, dict):
        if "free" in mid:
            mid = free_mid(mid["free"])
        elif "of" in mid:
            mid = reqs[mid["of"]]["msg"].mid
        elif "own_next" in mid or "last_tx" in mid:
            mid = mid["_resolved"]
        else:
            mid = (reqs[mid["wrong"]]["msg"].mid + mid.get("delta", 7)) & 0xFFFF
    tok = step.get("tok", b"")
    if isinstance(tok, dict):
        tok = reqs[tok["of"]]["msg"].token
    elif isinstance(tok, str):
        tok = bytes.fromhex(tok)
    ty = {"CON": 0, "NON": 1, "ACK": 2, "RST": 3}[step["ty"]]
    options = [(n, bytes.fromhex(v) if isinstance(v, str) else bytes(v)) for n, v in step.get("options", ())]
    if "path" in step:
        options += [(wire.URI_PATH, p.encode()) for p in step["path"]]
    if "nr" in step and step["nr"] is not None:
        options.append((wire.NO_RESPONSE, wire.uint(step["nr"])))
    if "ckq" in step:
        options.append((wire.URI_QUERY, b"k=%d" % step["ckq"]))
    if step.get("accept") is not None:
        # a second cache-key dimension: [option number, value] (or a bare Accept value)
        a = step["accept"]
        if isinstance(a, list):
            options.append((a[0], bytes.fromhex(a[1])))
        else:
            options.append((wire.ACCEPT, wire.uint(a)))
    if step.get("b1") is not None:
        options.append((wire.BLOCK1, wire.block(*step["b1"])))
    if step.get("b2") is not None:
        options.append((wire.BLOCK2, wire.block(*step["b2"])))
    if step.get("etag") is not None:
        options.append((wire.ETAG, bytes.fromhex(step["etag"])))
    if step.get("observe") is not None:
        options.append((wire.OBSERVE, wire.uint(step["observe"])))
    payload = step.get("payload", b"")
    if "body" in step:
        b = step["body"]
        payload = canon(b["cid"], b["off"], b["len"])
    if isinstance(payload, str):
        payload = bytes.fromhex(payload)
    return wire.encode(ty, step.get("code", 0), mid, tok, options, payload)


def run(sched):
    w = World(mid0=sched.get("mid0", 0), tok0=sched.get("tok0", 0))
    events = []
    frozen = []
    reqs = {}
    addr2r = {}
    copies = {}
    lasttx = {}
    txcount = {}
    state = {"sock": None, "ctx": None, "inv": 0}
    gates = {}
    nrem = sched.get("nremotes", 4)
    for n in range(1, nrem + 1):
        addr2r[sockaddr(n)[:2]] = n
        addr2r[sockaddr(n, ALT_PORT)[:2]] = n + 10   # peer n + 10: another endpoint at peer n's address

    def rnum(address):
        return addr2r.get(tuple(address[:2]), 0)

    def ev(k, **kw):
        if frozen:
            return None
        e = dict(FIELDS)
        e["k"] = k
        e["t"] = units(w.loop)
        e.update(kw)
        events.append(e)
        return e

    def q_of(r, token, ctxname="", fresh=False):
        """The request with that token towards that peer.  Should several carry the token (an allocator that hands
        a token out twice), a datagram being transmitted (`fresh`) belongs to the latest one not yet on the wire."""
        cands = [q for q, d in reqs.items()
                 if d["msg"].token is not None and bytes(d["msg"].token) == bytes(token) and d.get("ctx", "") == ctxname
                 and (d["r"] == r or (fresh and r == 0 and d.get("mc")))]     # r = 0: sent to a multicast group
        if not cands:
            return 0
        if fresh:
            new = [q for q in cands if not copies.get(q)]
            if new:
                return new[-1]
        return cands[0]

    def free_mid(k):
        return (sched.get("mid0", 0) + 0x8000 + k) & 0xFFFF

    def msg_fields(m, data):
        o = wire.opt(m, wire.OBSERVE)
        b1 = wire.opt(m, wire.BLOCK1)
        b2 = wire.opt(m, wire.BLOCK2)
        nr = wire.opt(m, wire.NO_RESPONSE)
        blk = {}
        for name, raw in (("b1", b1), ("b2", b2)):
            if raw is not None:
                n_, m_, s_ = wire.unblock(raw)
                blk[name + "n"], blk[name + "m"], blk[name + "s"] = n_, int(m_), s_
        hint = None
        if b2 is not None and m["code"] >= 64:
            hint = blk["b2n"] * (2 ** (min(blk["b2s"], 6) + 4))
        elif b1 is not None and m["code"] < 32:
            hint = blk["b1n"] * (2 ** (min(blk["b1s"], 6) + 4))
        cid, off, cok = identify(m["payload"], hint if hint is not None else 0)
        qs = wire.opts(m, wire.URI_QUERY)
        ckq = 0
        for qv in qs:
            if qv.startswith(b"k=") and qv[2:].isdigit():
                ckq = int(qv[2:])
        ckq += 2 * ck2_index(m["options"])
        return dict(
            ckq=ckq, cid=cid, off=off, cok=cok, **blk,
            ty=wire.TYPE_NAMES[m["type"]],
            mid=m["mid"],
            tok=m["token"].hex(),
            cls=code_class(m["code"]),
            code=m["code"],
            dig=zlib.crc32(data) & 0x3FFFFFFF,
            obs=-1 if o is None else wire.from_uint(o),
            plen=len(m["payload"]),
            b1=-1 if b1 is None else wire.from_uint(b1),
            b2=-1 if b2 is None else wire.from_uint(b2),
            nr=0 if nr is None else wire.from_uint(nr),
            leak=SECRET.encode() in data,
        )

    def inject_rx(step):
        w.rand.fractions.clear()
        if "f" in step:
            w.rand.fractions.append(step["f"])
        mid = step.get("mid")
        if isinstance(mid, dict) and "own_next" in mid:
            mid["_resolved"] = (state["ctx"]._verif["mman"].message_id + mid.get("delta", 0)) & 0xFFFF
        if isinstance(mid, dict) and "last_tx" in mid:
            # the ID of the latest datagram of that type and class the endpoint sent to this remote
            lt = mid["last_tx"]
            mid["_resolved"] = lasttx.get((step["r"], lt["ty"], lt["cls"]), mid.get("else", 0))
        data = step["raw"] if "raw" in step else build_msg(step, reqs, free_mid)
        if isinstance(data, str):
            data = bytes.fromhex(data)
        local = {"m": LOCAL_MCAST, "m4": LOCAL_MCAST4}.get(step.get("loc"), LOCAL_UNICAST)
        sock = state["other_sock"] if step.get("ctx") == "other" else state["sock"]
        w.net.inject(sock, data, peer_sockaddr(step["r"], step.get("port")), local=local)

    def on_sent(rec):
        r = rnum(rec["to"])
        try:
            m = wire.decode(rec["data"])
        except wire.ParseError:
            ev("tx", r=r, ty="?", cls="unparsable")
            return
        f = msg_fields(m, rec["data"])
        f.pop("ckq")
        q = q_of(r, m["token"], "other" if rec["sock"] == "other" else "", fresh=True) if f["cls"] == "req" else 0
        dest_mc = str(rec["to"][0]).lower().startswith("ff")
        ev("tx", r=r, q=q, x="other" if rec["sock"] == "other" else "", loc="m" if dest_mc else "u", **f)
        fired = []
        if q:
            copies[q] = copies.get(q, 0) + 1
            for trig in sched.get("triggers", ()):
                on = trig["on"]
                if on.get("q") == q and on.get("copy") == copies[q]:
                    if rec["sock"] == "other":
                        trig = dict(trig, rx=dict(trig["rx"], ctx="other"))
                    fired.append(trig)
        key = (f["ty"], f["cls"])
        lasttx[(r, f["ty"], f["cls"])] = f["mid"]
        txcount[key] = txcount.get(key, 0) + 1
        for trig in sched.get("triggers", ()):
            on = trig["on"].get("tx")
            if on and on["ty"] == f["ty"] and on["cls"] == f["cls"] and on.get("nth", 1) == txcount[key]:
                t2 = dict(trig)
                rx = dict(trig["rx"])
                if rx.get("mid") == "same":
                    rx["mid"] = f["mid"]
                if rx.get("tok") == "same":
                    rx["tok"] = f["tok"]
                if rec["sock"] == "other":
                    rx["ctx"] = "other"
                if not rx.get("r"):
                    rx["r"] = r
                t2["rx"] = rx
                fired.append(t2)
        for trig in fired:
            w.loop.call_later(trig["delay"] / 1024.0, inject_rx, trig["rx"])
        # autoreply rules: a minimal reactive peer (piggy-backed answers echoing token / message ID and,
        # on demand, the Block1 option), each rule at most `max` times
        if f["cls"] == "req":
            for rule in sched.get("autoreply", ()):
                mt = rule.get("match", {})
                if "b1more" in mt and f.get("b1m", -1) != mt["b1more"]:
                    continue
                if "observe" in mt and f.get("obs", -1) != mt["observe"]:
                    continue
                if "r" in mt and r != mt["r"]:
                    continue
                rule["_n"] = rule.get("_n", 0) + 1
                if rule["_n"] > rule.get("max", 1 << 30):
                    continue
                if rule["_n"] <= rule.get("skip", 0):
                    if rule.get("skip_ack") and f["ty"] == "CON":   # the skipped ones are acknowledged, never answered
                        w.loop.call_later(rule.get("delay", 5) / 1024.0, inject_rx, {"r": r, "ty": "ACK", "code": 0, "mid": f["mid"]})
                    break
                rx = {"r": r, "ty": "ACK", "code": rule.get("code", 69), "mid": f["mid"], "tok": f["tok"],
                      "payload": rule.get("payload", "")}
                if rule.get("echo_b1") and f["b1n"] >= 0:
                    rx["b1"] = [f["b1n"], f["b1m"], f["b1s"]]
                if rule.get("observe") is not None:
                    rx["observe"] = rule["observe"]
                if rec["sock"] == "other":
                    rx["ctx"] = "other"
                w.loop.call_later(rule.get("delay", 5) / 1024.0, inject_rx, rx)
                break

    def on_read(data, src, anc, ctxname=""):
        r = rnum(src)
        loc = "u"
        for lvl, typ, cdata in anc:
            if typ == 50 and (cdata[:1] == b"\xff" or (cdata[:12] == b"\0" * 10 + b"\xff\xff" and 224 <= cdata[12] < 240)):
                loc = "m"
        try:
            m = wire.decode(data)
        except wire.ParseError:
            ev("rx", r=r, ty="?", cls="unparsable", loc=loc)
            return
        f = msg_fields(m, data)
        q = q_of(r, m["token"], ctxname) if f["cls"] == "resp" else 0
        h = 0
        path = wire.opts(m, wire.URI_PATH)
        if len(path) == 2 and path[0] == b"h" and path[1].isdigit():
            h = int(path[1])
        x = ""
        if f["cls"] == "req":
            plan = sched.get("handlers", {}).get(str(h)) if h else None
            names = {1: "GET", 2: "POST", 3: "PUT", 4: "DELETE", 5: "FETCH", 6: "PATCH", 7: "IPATCH"}
            if sched.get("nosite"):
                x = "nosite"
            elif plan is None:
                x = "nopath"
            elif names.get(f["code"]) not in plan.get("methods", list(names.values())):
                x = "unimpl"
        ckq = f.pop("ckq")
        if ctxname:
            x = ctxname
        ev("rx", r=r, q=q, loc=loc, h=h, x=x, ck=h * 10 + ckq, **f)

    w.net.on_sent = on_sent

    async def main():
        import aiocoap
        from aiocoap import Message, resource, error
        from aiocoap.numbers.constants import TransportTuning
        from aiocoap.numbers.codes import Code

        for k, v in sched.get("tuning", {}).items():
            if k in TUNING_KEYS:
                w.patch(TransportTuning, k, v)

        class Scripted(resource.Resource):
            mark = "u"

            def __init__(self, n, plan):
                super().__init__()
                self.n = n
                self.plan = plan

            async def needs_blockwise_assembly(self, request):
                return self.plan.get("blockwise", True)

            def __getattr__(self, name):
                # render_get / render_put / ...: every method the plan implements goes through
                # the same scripted handler; Resource.render (method dispatch, default codes,
                # No-Response propagation) stays the library's
                if name.startswith("render_") and name[7:].upper() in self.plan.get(
                    "methods", ["GET", "PUT", "POST", "DELETE", "FETCH", "PATCH", "IPATCH"]
                ):
                    return self._handle
                raise AttributeError(name)

            async def _handle(self, request):
                state["inv"] += 1
                inv = state["inv"]
                try:
                    r = rnum(request.remote.sockaddr)
                except Exception:
                    r = 0
                ev(
                    "call",
                    h=self.n,
                    inv=inv,
                    r=r,
                    mid=request.mid if request.mid is not None else 0,
                    tok=(request.token or b"").hex(),
                    code=int(request.code),
                    plen=len(request.payload),
                    x=zlib_hex(request.payload),
                    loc=self.mark,
                    **body_fields(request, r, self.n),
                )
                delay = self.plan.get("delay", 0)
                try:
                    if delay is None:
                        fut = w.loop.create_future()
                        gates[inv] = fut
                        gates.setdefault(("h", self.n), []).append(fut)
                        outcome = await fut
                    else:
                        if delay:
                            await asyncio.sleep(delay / 1024.0)
                        outcome = self.plan.get("outcome", "ok")
                except asyncio.CancelledError:
                    ev("cancelled", h=self.n, inv=inv, loc=self.mark)
                    raise
                lens = self.plan.get("lens")
                plan = self.plan
                if lens:
                    self.count = getattr(self, "count", 0) + 1
                    plan = dict(self.plan, len=lens[(self.count - 1) % len(lens)])
                renderable = outcome.startswith("raise:") and not outcome.startswith(("raise:py:", "raise:lib:"))
                retcode = outcome.startswith("code:")
                ev("release", h=self.n, inv=inv, x="retcode" if retcode else outcome, loc=self.mark,
                   code=int(outcome[5:]) if retcode else 0,
                   plen=DIAG_LEN if renderable else (plan.get("len", 8) if plan.get("canon") else 0),
                   cid=(inv & 0xFF) if renderable else -1)
                return produce(outcome, self.n, inv, plan)

        def body_fields(request, r, n):
            """Is the body the handler sees a prefix of the canonical string of its key?"""
            ckq = 0
            for qv in request.opt.uri_query:
                if qv.startswith("k=") and qv[2:].isdigit():
                    ckq = int(qv[2:])
            ckq += 2 * ck2_index((o.number, o.encode()) for o in request.opt.option_list())
            ck = n * 10 + ckq
            salt = key_salt(r, int(request.code), ck)
            body = bytes(request.payload)
            return {"ck": ck, "cid": salt, "cok": body == canon(salt, 0, len(body)), "off": 0}

        def zlib_hex(b):
            return "%08x" % (zlib.crc32(bytes(b)) & 0xFFFFFFFF)

        def produce(outcome, n, inv, plan):
            if plan.get("canon"):
                body = canon(inv & 0xFF, 0, plan.get("len", 8))
            else:
                body = (("H%d-I%d-" % (n, inv)).encode() * 400)[: plan.get("len", 8)]
            if outcome == "ok":
                if plan.get("etag"):
                    return Message(code=Code.CONTENT, payload=body, etag=b"%02x" % (inv & 0xFF))
                return Message(code=Code.CONTENT, payload=body)
            if outcome == "nocode":
                return Message(payload=body)
            if outcome.startswith("code:"):
                return Message(code=Code(int(outcome[5:])), payload=body)
            if outcome == "noresponse":
                return Message(code=Code.CONTENT, payload=body, no_response=26)
            if outcome.startswith("raise:lib:"):
                # library exceptions that are NOT renderable, and OS-level ones: a bare 5.00 like any other exception
                name = outcome[10:]
                if name == "ResponseWrappingError":
                    raise error.ResponseWrappingError(Message(code=Code.UNAUTHORIZED, payload=SECRET.encode()))
                if name in ("OSError", "TimeoutError", "ConnectionResetError"):
                    raise {"OSError": OSError, "TimeoutError": TimeoutError, "ConnectionResetError": ConnectionResetError}[name](SECRET)
                raise getattr(error, name)(SECRET)
            if outcome.startswith("raise:py:"):
                raise {"KeyError": KeyError, "AssertionError": AssertionError, "ValueError": ValueError, "RuntimeError": RuntimeError, "Exception": Exception}[outcome[9:]](SECRET)
            if outcome.startswith("raise:"):
                # with an invocation-specific diagnostic text (a canonical string: the trace shows whose it is)
                raise getattr(error, outcome[6:])(canon(inv & 0xFF, 0, DIAG_LEN).decode())
            if outcome == "unencodable:payload":
                # passes Resource.render and the block-wise helpers, but cannot be serialised
                return Message(code=Code.CONTENT, payload=SECRET)
            if outcome == "unencodable:option":
                m_ = Message(code=Code.CONTENT, payload=body)
                m_.opt.max_age = -1
                return m_
            if outcome == "ret:none":
                return None
            if outcome == "ret:str":
                return SECRET
            if outcome == "ret:bytes":
                return SECRET.encode()
            if outcome == "ret:int":
                return 42
            if outcome.startswith("badrender"):

                class Bad(error.RenderableError):
                    def to_message(self):
                        if outcome == "badrender:none":
                            return None
                        if outcome == "badrender:nonmessage":
                            return SECRET
                        raise RuntimeError(SECRET)

                raise Bad()
            raise ValueError(outcome)

        site = None
        if not sched.get("nosite"):
            site = resource.Site()
            for n, plan in sched.get("handlers", {}).items():
                site.add_resource(["h", str(n)], Scripted(int(n), plan))
        ctx = await w.make_context(site=site)
        state["ctx"] = ctx
        if sched.get("stall_interface") is not None:
            # a further request interface whose orderly shutdown depends on a peer that does not cooperate
            # (a WebSocket close handshake, a TLS close_notify): it takes that long, or for ever ("never")
            stall = sched["stall_interface"]

            class Stalling:
                async def fill_or_recognize_remote(self, message):
                    return False

                async def shutdown(self):
                    if stall == "never":
                        await w.loop.create_future()
                    else:
                        await asyncio.sleep(stall / 1024.0)

                def __repr__(self):
                    return "<stalling interface>"

            ctx.request_interfaces.append(Stalling())
        sock = ctx._verif["sock"]
        state["sock"] = sock
        orig_recvmsg = sock.recvmsg

        def recvmsg(bufsize, ancbufsize=0, flags=0):
            res = orig_recvmsg(bufsize, ancbufsize, flags)
            if not (flags & 8192):
                on_read(res[0], res[3], res[1])
            return res

        sock.recvmsg = recvmsg
        cb, cbargs = w.loop.fake_readers[sock.fileno()]

        def reader(*a):
            try:
                cb(*a)
            finally:
                ev("rxend")

        w.loop.fake_readers[sock.fileno()] = (reader, cbargs)

        # armed synchronous send failures: the next n request datagrams to remote r are refused by the (fake) kernel
        # inside sendmsg, which the real transport reports through error_received while still sending
        faults = {}

        def send_fault(address, data):
            r = rnum(address) if address is not None else 0
            try:
                is_req = 1 <= wire.decode(data)["code"] < 32
            except wire.ParseError:
                is_req = False
            if is_req and faults.get(r, 0) > 0:
                faults[r] -= 1
                ev("err", r=r, x="sync")
                import errno as _errno

                return OSError(faults.get(("errno", r), _errno.ENETUNREACH), "Network is unreachable")
            return None

        sock.send_fault = send_fault

        other = None
        state["other_sock"] = None
        if sched.get("other_context"):
            # a second, independent context in the same loop; with "other_handlers" it serves resources too
            # (their handler events carry loc = "o", its datagrams x = "other")
            site2 = None
            if sched.get("other_handlers"):
                site2 = resource.Site()
                for n, plan in sched["other_handlers"].items():
                    res2 = Scripted(int(n), plan)
                    res2.mark = "o"
                    site2.add_resource(["h", str(n)], res2)
            other = await w.make_context(name="other", site=site2)
            osock = other._verif["sock"]
            state["other_sock"] = osock
            o_recvmsg = osock.recvmsg

            def other_recvmsg(bufsize, ancbufsize=0, flags=0):
                res = o_recvmsg(bufsize, ancbufsize, flags)
                if not (flags & 8192):
                    on_read(res[0], res[3], res[1], ctxname="other")
                return res

            osock.recvmsg = other_recvmsg

        last_at = 0
        for step in sched["steps"]:
            await w.loop.advance_to(step["at"] / 1024.0)
            last_at = step["at"]
            do = step["do"]
            w.rand.fractions.clear()
            if "f" in step:
                w.rand.fractions.append(step["f"])
            if do == "submit":
                q = step["q"]
                kw = {}
                if "con" in step and step["con"] is not None:
                    T = type("VT", (TransportTuning,), {"reliability": bool(step["con"])})
                    kw["transport_tuning"] = T()
                m = Message(code=Code(step.get("code", 1)), uri_path=step.get("path", ["q%d" % q]), **kw)
                if step.get("observe") is not None:
                    m.opt.observe = step["observe"]
                if step.get("mtype"):
                    # the application fixes the message type itself (deprecated, but honoured by the library)
                    import warnings
                    from aiocoap.numbers.types import Type

                    with warnings.catch_warnings():
                        warnings.simplefilter("ignore")
                        m.mtype = Type[step["mtype"]]
                if step.get("payload_len"):
                    m.payload = bytes(range(256)) * (step["payload_len"] // 256) + bytes(range(step["payload_len"] % 256))
                which = other if step.get("ctx") == "other" else ctx
                if step.get("fault"):
                    faults[step["r"]] = step["fault"]
                try:
                    if step.get("mc"):
                        from aiocoap.transports.udp6 import UDP6EndpointAddress

                        m.remote = UDP6EndpointAddress(("ff02::fd", 5683, 0, 1), which._verif["mint"])
                    elif step.get("resolve") is not None:
                        # the destination still has to be resolved (an undecided remote as a URI leaves it): the
                        # request sits in Context.find_remote_and_interface for `resolve` units before it reaches
                        # the token manager
                        from aiocoap.message import UndecidedRemote

                        w.loop.resolve_delay = step["resolve"] / 1024.0
                        m.remote = UndecidedRemote("coap", "[%s]" % sockaddr(step["r"])[0])
                    else:
                        m.remote = w.remote(which, step["r"])
                    ev("submit", r=step["r"], q=q, con=bool(step.get("con")), x=step.get("ctx", ""),
                       obs=step["observe"] if step.get("observe") is not None else -1)
                    req = which.request(m, handle_blockwise=bool(step.get("blockwise", False)))
                except Exception as e:
                    ev("done", q=q, cls=err_class(e), x="sync:" + type(e).__name__)
                    continue
                reqs[q] = {"msg": m, "req": req, "r": step["r"], "ctx": "other" if step.get("ctx") == "other" else "", "mc": bool(step.get("mc"))}

                def done_cb(fut, q=q):
                    if fut.cancelled():
                        ev("done", q=q, cls="cancelled")
                    elif fut.exception() is not None:
                        ev("done", q=q, cls=err_class(fut.exception()), x=type(fut.exception()).__name__)
                    else:
                        res = fut.result()
                        ev("done", q=q, cls="resp", code=int(res.code), plen=len(res.payload), x=zlib_hex(res.payload))

                req.response.add_done_callback(done_cb)
                if getattr(req, "observation", None) is not None and step.get("observe") is not None and step.get("iterate"):
                    # the application consumes the observation with `async for`

                    async def consume(req=req, q=q):
                        try:
                            async for msg in req.observation:
                                ev("notif", q=q, obs=-1 if msg.opt.observe is None else msg.opt.observe, code=int(msg.code), plen=len(msg.payload))
                            ev("obsend", q=q, cls="clean", x="StopAsyncIteration")
                        except asyncio.CancelledError:
                            raise
                        except Exception as exc:
                            ev("obsend", q=q, cls=err_class(exc), x=type(exc).__name__)

                    state.setdefault("consumers", []).append(w.loop.create_task(consume()))
                elif getattr(req, "observation", None) is not None and step.get("observe") is not None:
                    import warnings

                    with warnings.catch_warnings():
                        warnings.simplefilter("ignore")
                        req.observation.register_callback(
                            lambda msg, q=q: ev("notif", q=q, obs=-1 if msg.opt.observe is None else msg.opt.observe, code=int(msg.code), plen=len(msg.payload))
                        )
                        req.observation.register_errback(lambda exc, q=q: ev("obsend", q=q, cls=err_class(exc), x=type(exc).__name__))
                await w.loop.settle()
            elif do == "rx":
                inject_rx(step)
                await w.loop.settle()
            elif do == "err":
                ev("err", r=step["r"])
                w.net.inject_error(sock, sockaddr(step["r"]))
                await w.loop.settle()
            elif do == "release":
                fut = gates.get(step["inv"]) if "inv" in step else None
                if fut is None and "h" in step:
                    lst = [f for f in gates.get(("h", step["h"]), []) if not f.done()]
                    fut = lst[0] if lst else None
                if fut is not None and not fut.done():
                    fut.set_result(step.get("outcome", "ok"))
                await w.loop.settle()
            elif do == "cancel":
                reqs[step["q"]]["req"].response.cancel()
                await w.loop.settle()
            elif do == "shutdown":
                ev("shutdown")
                task = w.loop.create_task(ctx.shutdown())

                def sd_done(t):
                    if t.cancelled() or t.exception() is not None:
                        ev("shutdown-done", cls="other", x=repr(t.exception()) if not t.cancelled() else "cancelled")
                    else:
                        ev("shutdown-done", cls="ok")

                task.add_done_callback(sd_done)
                state["shutdown_task"] = task
                await w.loop.settle()
            elif do == "wait":
                pass
            else:
                raise ValueError(do)
        hz = sched.get("horizon")
        await w.loop.drain(horizon=None if hz is None else (last_at + hz) / 1024.0,
                           stop=lambda: len(events) > 30000 or w.loop.time() > 1.5e6)
        for c in w.loop.exceptions:
            exc = c.get("exception")
            ev("loopexc", x=type(exc).__name__ if exc is not None else "message", cls=str(c.get("message", ""))[:60])
        # x = "cut": the run was stopped at its horizon with timers still pending (no quiescence)
        ev("end", x="cut" if w.loop.next_timer() is not None else "")
        frozen.append(True)
        meta = {
            "loop_exceptions": [repr(c.get("exception") or c.get("message")) for c in w.loop.exceptions],
            "log_errors": [r.getMessage() for r in w.logcap.errors()],
            "uniform_calls": list(w.rand.uniform_calls),
            "mids": {q: d["msg"].mid for q, d in reqs.items()},
            "dropped_after_close": w.net.dropped_after_close,
        }
        if "shutdown_task" not in state:
            try:
                await asyncio.wait_for(ctx.shutdown(), 10)
            except Exception:
                pass
        if other is not None:
            try:
                await asyncio.wait_for(other.shutdown(), 10)
            except Exception:
                pass
        return meta

    try:
        meta = w.run(main())
    finally:
        w.close()
    return {"events": events, "meta": meta}


def run_safe(s):
    try:
        return run(s)
    except Exception:
        import traceback

        return {"error": traceback.format_exc()}


def run_all(scheds, procs=16):
    import os
    from multiprocessing import Pool

    if not scheds:
        return []
    with Pool(min(procs, os.cpu_count() or 4)) as p:
        return p.map(run_safe, scheds, chunksize=max(1, len(scheds) // 64))
