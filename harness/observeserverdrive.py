"""Observe-server driver (property C08).

A real server Context (TokenManager / MessageManager / udp6 on the fake
network, virtual time) whose site carries the observable test resources /obs
(resource number q = 1) and /obs2 (q = 2), each with a state counter of its own,
and the plain resource /other.  The schedule is what the environment does: raw
datagrams of scripted observers (register / deregister / plain GET, ACK and RST
to notifications), state changes of the resource (bursts, unsuccessful / last
responses), ICMP errors, shutdown.  The trace is what the implementation did.
Time unit U = 2**-10 s.

schedule = {
  "tuning":  {ACK_TIMEOUT, ACK_RANDOM_FACTOR, MAX_RETRANSMIT, ...}  (patched on TransportTuning)
  "mid0":    first message ID of the server, "nremotes": n,
  "rdelay":  units the renderer sleeps after reading the state (0: none),
  "rgate":   True: the renderer of every notification (not of the first response) samples the state and
             then suspends on a gate until a `release` step (whatever is still suspended when the steps
             are over is released then, so that the run reaches quiescence),
  "fgate":   True: the FIRST rendering of every registration suspends on a gate as well (released the same
             way): with a CON request the piggy-back opportunity runs out after EMPTY_ACK_DELAY (empty ACK)
             and the first response becomes a separate response,
  "fdelay":  units the first rendering of a registration sleeps after reading the state,
  "nonrender": True: every response the resource produces (rendered or explicit) asks for unreliable
             transmission (transport_tuning=Unreliable): notifications of a CON registration are NON,
  "big":     "app": the representation of the observable resources has three blocks (2208 bytes) and the
             resource does the block-wise transfer itself (needs_blockwise_assembly() is False; every
             rendering is cut according to the request's Block2 option, default 0/-/6, and carries
             Block2 num/more/szx -- so the first response and the notifications carry Observe AND Block2);
             "lib": the same representation, left to the library (the Observe path sends it whole, plain
             GETs go through Block2Cache),
  "steps":   [{"at": units, "do": ...}]
       rx      r, ty, code, mid (int | {"notif": n}: mid of the n-th distinct separate notification
               sent to r), tok (hex), observe (0 | 1 | None), path (default ["obs"]) | q (1 | 2: /obs, /obs2),
               block2 (None | [num, more, szx]: Block2 option of the request)
       change  q (resource, default 1),
               n (burst length, default 1; no yielding inside the burst) | xs (list of variants, one burst),
               x  ""        updated_state()
                  "unsucc"  trigger(4.04) per observer      "last"  trigger(is_last=True) per observer
                  "ok"      trigger(2.05 explicit) per observer
                  "shared-unsucc" / "shared-ok"  updated_state(<one Message object for all observers>)
       release g | r, tok   the suspended renderer of registration g / of the registration of (r, tok) goes on
       err     r            ICMP error for remote r
       shutdown | wait
  "reactions": [{"r": r, "nth": n, "copy": c, "delay": d, "ty": "ACK"|"RST"}]
               when the c-th copy of the n-th distinct separate (CON or NON) notification to r is
               sent, the observer answers d units later with an empty ACK / RST carrying its mid
  "horizon": units | None
}

Payloads are self-describing: "S<state>/<g>/<q>;" for a rendering (state number
of resource q at render time = number of its state changes so far; g = number of
the registration whose request object was rendered, 0 for an unregistered
request), "E<state>/<g>/<q>;" for an explicit response handed to trigger() and for
an error the resource answers itself.  The large representation repeats that
marker every 16 bytes, so every block of every size starts with it.
"""

import re

import asyncio
import zlib

from . import wire
from .sut import World
from .fakenet import sockaddr, LOCAL_UNICAST
from .vloop import TICKS_PER_S

UNIT = TICKS_PER_S >> 10

FIELDS = {
    "k": "",      # rx tx change render release accept obscount cancelcb err shutdown shutdown-done loopexc end
    "t": 0,
    "r": 0,
    "ty": "",
    "mid": 0,
    "tok": "",
    "cls": "",    # empty req resp other
    "code": 0,
    "dig": 0,
    "obs": -1,    # Observe option value (-1: absent)
    "st": -1,     # state number carried in the payload / read by the renderer / reached by the change
    "g": 0,       # registration number (payload marker, accept, cancelcb, render)
    "n": 0,       # obscount: new count; accept: count before
    "x": "",      # change variant; tx/render: payload kind "S" | "E" | ""
    "q": 0,       # observable resource: request path (1 /obs, 2 /obs2, 0 other), change, accept, obscount,
                  # cancelcb, render; payload marker of a response
    "b2": -1,     # Block2 option as its integer value (16 * num + 8 * more + szx), -1: absent
}

PATHS = {1: "obs", 2: "obs2"}
BIG_LEN = 2208
_MARK = re.compile(rb"^([SE])(\d+)/(\d+)/(\d+);")

TUNING_KEYS = ("ACK_TIMEOUT", "ACK_RANDOM_FACTOR", "MAX_RETRANSMIT", "EMPTY_ACK_DELAY", "EXCHANGE_LIFETIME", "MAX_TRANSMIT_WAIT")
TYPES = {"CON": 0, "NON": 1, "ACK": 2, "RST": 3}


def units(loop):
    t = loop.ticks()
    if t % UNIT:
        return -1 - t // UNIT
    return t // UNIT


def code_class(c):
    if c == 0:
        return "empty"
    if 1 <= c < 32:
        return "req"
    if 64 <= c < 192:
        return "resp"
    return "other"


def parse_payload(p):
    """-> (kind, state, g, q)"""
    m = _MARK.match(p)
    if m:
        return m.group(1).decode(), int(m.group(2)), int(m.group(3)), int(m.group(4))
    return "", -1, 0, 0


def marker(kind, s, g, q):
    return b"%s%d/%d/%d;" % (kind, s, g, q)


def big_body(kind, s, g, q):
    rec = marker(kind, s, g, q).ljust(16, b".")
    return rec * (BIG_LEN // 16)


def run(sched):
    w = World(mid0=sched.get("mid0", 0), tok0=sched.get("tok0", 0))
    events = []
    frozen = []
    addr2r = {}
    st = {"sock": None, "ctx": None, "res": None}
    notifs = {}    # r -> list of mids of distinct separate notifications, in order of first transmission
    copies = {}    # (r, mid, dig) -> copies so far
    nrem = sched.get("nremotes", 3)
    for n in range(1, nrem + 1):
        addr2r[sockaddr(n)[:2]] = n

    def rnum(address):
        return addr2r.get(tuple(address[:2]), 0)

    def ev(k, **kw):
        if frozen:
            return None
        e = dict(FIELDS)
        e["k"] = k
        e["t"] = units(w.loop)
        e.update(kw)
        events.append(e)
        return e

    def msg_fields(m, data):
        o = wire.opt(m, wire.OBSERVE)
        b = wire.opt(m, wire.BLOCK2)
        kind, s, g, q = parse_payload(m["payload"]) if m["code"] >= 64 else ("", -1, 0, 0)
        return dict(
            ty=wire.TYPE_NAMES[m["type"]],
            mid=m["mid"],
            tok=m["token"].hex(),
            cls=code_class(m["code"]),
            code=m["code"],
            dig=zlib.crc32(data) & 0x3FFFFFFF,
            obs=-1 if o is None else wire.from_uint(o),
            st=s,
            g=g,
            x=kind,
            q=q,
            b2=-1 if b is None else wire.from_uint(b),
        )

    def build(step):
        mid = step.get("mid", 0)
        if isinstance(mid, dict):
            lst = notifs.get(step["r"], [])
            n = mid["notif"]
            if n > len(lst):
                return None
            mid = lst[n - 1]
        tok = step.get("tok", "")
        tok = bytes.fromhex(tok) if isinstance(tok, str) else bytes(tok)
        options = []
        code = step.get("code", 0)
        if 0 < code < 32:
            if step.get("observe") is not None:
                options.append((wire.OBSERVE, wire.uint(step["observe"])))
            options += [(wire.URI_PATH, p.encode()) for p in step.get("path") or [PATHS[step.get("q", 1)]]]
            if step.get("block2") is not None:
                options.append((wire.BLOCK2, wire.block(*step["block2"])))
        return wire.encode(TYPES[step["ty"]], code, mid, tok, options, b"")

    def inject_rx(step):
        data = build(step)
        if data is None:
            ev("skip", r=step["r"], x="no-such-notification")
            return
        w.net.inject(st["sock"], data, sockaddr(step["r"]), local=LOCAL_UNICAST)

    def on_sent(rec):
        r = rnum(rec["to"])
        try:
            m = wire.decode(rec["data"])
        except wire.ParseError:
            ev("tx", r=r, ty="?", cls="unparsable")
            return
        f = msg_fields(m, rec["data"])
        ev("tx", r=r, **f)
        if f["cls"] != "resp" or f["ty"] not in ("CON", "NON"):
            return
        key = (r, f["mid"], f["dig"])
        copies[key] = copies.get(key, 0) + 1
        if copies[key] == 1:
            notifs.setdefault(r, []).append(f["mid"])
        nth = notifs[r].index(f["mid"]) + 1
        for rx in sched.get("reactions", ()):
            if rx["r"] == r and rx["nth"] == nth and rx.get("copy", 1) == copies[key]:
                step = {"r": r, "ty": rx["ty"], "code": 0, "mid": f["mid"]}
                w.loop.call_later(rx.get("delay", 1) / 1024.0, inject_rx, step)

    def on_read(data, src, anc):
        r = rnum(src)
        try:
            m = wire.decode(data)
        except wire.ParseError:
            ev("rx", r=r, ty="?", cls="unparsable")
            return
        f = msg_fields(m, data)
        f["st"], f["g"], f["x"], f["q"] = -1, 0, "", 0
        path = wire.opts(m, wire.URI_PATH)
        if f["cls"] == "req":
            f["q"] = {(b"obs",): 1, (b"obs2",): 2}.get(tuple(path), 0)
            f["x"] = "obs" if f["q"] else "other"
        ev("rx", r=r, **f)

    w.net.on_sent = on_sent

    async def main():
        from aiocoap import Message, resource
        from aiocoap.numbers.constants import TransportTuning, Unreliable
        from aiocoap.numbers.codes import Code

        for k, v in sched.get("tuning", {}).items():
            if k in TUNING_KEYS:
                w.patch(TransportTuning, k, v)
        rdelay = sched.get("rdelay", 0)
        rgate = bool(sched.get("rgate"))
        fgate = bool(sched.get("fgate"))
        fdelay = sched.get("fdelay", 0)
        big = sched.get("big") or None
        tuning_kw = {"transport_tuning": Unreliable} if sched.get("nonrender") else {}
        shared = {"nreg": 0, "gates": []}     # registration numbers and suspended renderers across the resources

        def mkmsg(code, kind, s, g, q, large=False):
            return Message(code=code, payload=big_body(kind, s, g, q) if large else marker(kind, s, g, q), **tuning_kw)

        class RegistrationOrder(dict):
            """Stands in for the resource's `set()` of observations with the same interface as far as the
            resource uses it (add / remove / len / iteration), iterating in registration order: which
            observer is served first by updated_state() does not depend on object addresses then, so runs
            are reproducible and comparable with the model (which serves in registration order)."""

            def add(self, x):
                self[x] = None

            def remove(self, x):
                del self[x]

        class Observed(resource.ObservableResource):
            def __init__(self, q):
                super().__init__()
                if type(self._observations) is set and not self._observations:
                    self._observations = RegistrationOrder()
                self.q = q
                self.state = 0
                self.byreq = {}      # id(request object) -> (g, request)   (kept alive: ids stay unique)
                self.servobs = {}    # g -> ServerObservation still registered (by this harness' book)
                self.renders = {}    # g -> renderings so far

            def ident(self, request):
                try:
                    r = rnum(request.remote.sockaddr)
                except Exception:
                    r = 0
                return r, (request.token or b"").hex()

            async def needs_blockwise_assembly(self, request):
                # "app": the resource cuts its representation itself (the Observe path of the library does not)
                return big != "app"

            async def add_observation(self, request, servobs):
                shared["nreg"] += 1
                g = shared["nreg"]
                q = self.q
                r, tok = self.ident(request)
                self.byreq[id(request)] = (g, request)
                before = len(self._observations)
                orig_accept = servobs.accept

                def accept(cb):
                    def wrapped():
                        ev("cancelcb", r=r, tok=tok, g=g, q=q)
                        self.servobs.pop(g, None)
                        cb()

                    ev("accept", r=r, tok=tok, g=g, n=before, q=q)
                    orig_accept(wrapped)

                servobs.accept = accept
                self.servobs[g] = servobs
                await super().add_observation(request, servobs)

            def update_observation_count(self, newcount):
                ev("obscount", n=newcount, q=self.q)

            async def render_get(self, request):
                g = self.byreq.get(id(request), (0, None))[0]
                r, tok = self.ident(request)
                s = self.state
                q = self.q
                ev("render", r=r, tok=tok, st=s, g=g, x="S", q=q)
                self.renders[g] = self.renders.get(g, 0) + 1
                first = self.renders[g] == 1
                if g and ((rgate and not first) or (fgate and first)):
                    fut = w.loop.create_future()
                    shared["gates"].append((g, r, tok, fut, q))
                    await fut          # cancelled together with the task when the registration ends
                elif g and first and fdelay:
                    await asyncio.sleep(fdelay / 1024.0)
                elif rdelay:
                    await asyncio.sleep(rdelay / 1024.0)
                if big != "app":
                    return mkmsg(Code.CONTENT, b"S", s, g, q, large=bool(big))
                # the resource's own block-wise transfer: the block the request asks for (default 0/-/6)
                b2 = request.opt.block2
                num, szx = (b2.block_number, b2.size_exponent) if b2 is not None else (0, 6)
                szx = min(szx, 6)
                size = 1 << (szx + 4)
                body = big_body(b"S", s, g, q)
                if num * size >= len(body):
                    # (kind "S": "E" with g = 0 is reserved for the one message object handed to all observers)
                    return mkmsg(Code.BAD_REQUEST, b"S", s, g, q)
                m = Message(code=Code.CONTENT, payload=body[num * size:(num + 1) * size], **tuning_kw)
                m.opt.block2 = (num, (num + 1) * size < len(body), szx)
                return m

            def change(self, x):
                self.state += 1
                s = self.state
                q = self.q
                ev("change", st=s, x=x, q=q)
                if x == "":
                    self.updated_state()
                elif x == "unsucc":
                    for g, so in sorted(self.servobs.items()):
                        so.trigger(mkmsg(Code.NOT_FOUND, b"E", s, g, q))
                elif x == "ok":
                    for g, so in sorted(self.servobs.items()):
                        so.trigger(mkmsg(Code.CONTENT, b"E", s, g, q))
                elif x == "last":
                    for g, so in sorted(self.servobs.items()):
                        so.trigger(None, is_last=True)
                elif x == "shared-unsucc":
                    self.updated_state(mkmsg(Code.NOT_FOUND, b"E", s, 0, q))
                elif x == "shared-ok":
                    self.updated_state(mkmsg(Code.CONTENT, b"E", s, 0, q))
                else:
                    raise ValueError(x)

        def release(g=None, r=None, tok=None):
            """Let the oldest matching suspended renderer go on; -> number still suspended"""
            shared["gates"] = [x for x in shared["gates"] if not x[3].done()]
            for x in shared["gates"]:
                if (g is not None and x[0] == g) or (g is None and r is None) or (g is None and x[1] == r and x[2] == tok):
                    ev("release", r=x[1], tok=x[2], g=x[0], q=x[4])
                    x[3].set_result(None)
                    shared["gates"].remove(x)
                    break
            return len(shared["gates"])

        class Plain(resource.Resource):
            async def render_get(self, request):
                return Message(code=Code.CONTENT, payload=b"plain")

        site = resource.Site()
        ress = {q: Observed(q) for q in PATHS}
        st["res"] = ress
        for q, res_ in ress.items():
            site.add_resource([PATHS[q]], res_)
        site.add_resource(["other"], Plain())
        ctx = await w.make_context(site=site)
        st["ctx"] = ctx
        sock = ctx._verif["sock"]
        st["sock"] = sock
        orig_recvmsg = sock.recvmsg

        def recvmsg(bufsize, ancbufsize=0, flags=0):
            res_ = orig_recvmsg(bufsize, ancbufsize, flags)
            if not (flags & 8192):
                on_read(res_[0], res_[3], res_[1])
            return res_

        sock.recvmsg = recvmsg

        last_at = 0
        for step in sched["steps"]:
            await w.loop.advance_to(step["at"] / 1024.0)
            last_at = step["at"]
            do = step["do"]
            if do == "rx":
                inject_rx(step)
            elif do == "change":
                # one callback, no yielding: the whole burst hits the lossy trigger slot
                for x in step.get("xs") or [step.get("x", "")] * step.get("n", 1):
                    ress[step.get("q", 1)].change(x)
            elif do == "release":
                release(step.get("g"), step.get("r"), step.get("tok"))
            elif do == "err":
                ev("err", r=step["r"])
                w.net.inject_error(sock, sockaddr(step["r"]))
            elif do == "shutdown":
                ev("shutdown")
                task = w.loop.create_task(ctx.shutdown())

                def sd_done(t):
                    if t.cancelled() or t.exception() is not None:
                        ev("shutdown-done", x="cancelled" if t.cancelled() else type(t.exception()).__name__)
                    else:
                        ev("shutdown-done", x="ok")

                task.add_done_callback(sd_done)
                st["shutdown_task"] = task
            elif do == "wait":
                pass
            else:
                raise ValueError(do)
            await w.loop.settle()
        hz = sched.get("horizon")
        for _ in range(100):
            # nothing stays suspended: quiescence means every rendering has finished (a rendering may also
            # begin while the loop is drained, e.g. after a sleeping first rendering: drain again then)
            for _ in range(1000):
                shared["gates"] = [x for x in shared["gates"] if not x[3].done()]
                if not shared["gates"]:
                    break
                release()
                await w.loop.settle()
            await w.loop.drain(horizon=None if hz is None else (last_at + hz) / 1024.0)
            shared["gates"] = [x for x in shared["gates"] if not x[3].done()]
            if not shared["gates"]:
                break
        for c in w.loop.exceptions:
            exc = c.get("exception")
            ev("loopexc", x=type(exc).__name__ if exc is not None else "message")
        ev("end")
        frozen.append(True)
        meta = {
            "loop_exceptions": [repr(c.get("exception") or c.get("message")) for c in w.loop.exceptions],
            "log_errors": [r.getMessage() for r in w.logcap.errors()][:5],
            "observations_left": sum(len(x._observations) for x in ress.values()),
            "incoming_requests_left": None
            if ctx._verif["tman"].incoming_requests is None
            else len(ctx._verif["tman"].incoming_requests),
            "dropped_after_close": w.net.dropped_after_close,
        }
        if "shutdown_task" not in st:
            try:
                await asyncio.wait_for(ctx.shutdown(), 10)
            except Exception:
                pass
        return meta

    try:
        meta = w.run(main())
    finally:
        w.close()
    return {"events": events, "meta": meta}


def run_safe(s):
    try:
        return run(s)
    except Exception:
        import traceback

        return {"error": traceback.format_exc()}


def run_all(scheds, procs=16):
    import os
    from multiprocessing import Pool

    if not scheds:
        return []
    if len(scheds) < 40:
        return [run_safe(s) for s in scheds]
    with Pool(min(procs, os.cpu_count() or 4)) as p:
        return p.map(run_safe, scheds, chunksize=max(1, len(scheds) // 64))


def short(e):
    """Compact rendering of an event for notes / samples."""
    k = e["k"]
    if k in ("rx", "tx"):
        return "%6d %s r%d %s mid=%d tok=%s code=%d obs=%d%s %s%d/g%d/q%d" % (
            e["t"], k, e["r"], e["ty"], e["mid"], e["tok"], e["code"], e["obs"],
            "" if e.get("b2", -1) < 0 else " b2=%d/%d/%d" % (e["b2"] >> 4, (e["b2"] >> 3) & 1, e["b2"] & 7),
            e["x"], e["st"], e["g"], e.get("q", 0))
    return "%6d %s r%d tok=%s st=%d g=%d n=%d q=%d %s" % (e["t"], k, e["r"], e["tok"], e["st"], e["g"], e["n"], e.get("q", 0), e["x"])
