"""Two real aiocoap contexts (client and server) in one virtual-time loop, connected by a scripted
network: per datagram kind and occurrence the schedule decides deliver (after a short delay) / drop /
duplicate.  Used to replay behaviours of spec/EndToEnd.tla and randomised loss patterns.

schedule = {"slow": bool, "net": {"REQ": ["deliver","drop","dup",...], "PIGGY": [...], ...},
            "delay": units, "tuning": {...}, "nreq": 1}
kinds: REQ (CON request), PIGGY (ACK with response), EACK (empty ACK to the client), SEP (CON response),
       SACK (empty ACK to the server), RST
events: uniform records {k, t, side, kind, q, inv, cls, n}"""

import asyncio
import zlib

from . import wire
from .sut import World
from .fakenet import sockaddr
from .vloop import TICKS_PER_S

UNIT = TICKS_PER_S >> 10
RUNAWAY = 1500  # datagrams per run (a busy schedule sends a few dozen)
CLIENT, SERVER = 1, 2


def classify(m, from_client):
    t, code = m["type"], m["code"]
    if 1 <= code < 32:
        return "REQ"
    if code >= 64:
        if t == wire.ACK:
            return "PIGGY"
        return "SEP"
    if t == wire.ACK:
        return "SACK" if from_client else "EACK"
    if t == wire.RST:
        return "RST"
    return "OTHER"


def run(sched):
    w = World(mid0=sched.get("mid0", 1000), tok0=sched.get("tok0", 40))
    events = []
    frozen = []
    seen = {}
    state = {"inv": 0}

    def units():
        t = w.loop.ticks()
        return t // UNIT if t % UNIT == 0 else -1 - t // UNIT

    def ev(k, **kw):
        if frozen:
            return
        e = {"k": k, "t": units(), "side": "", "kind": "", "q": 0, "inv": 0, "cls": "", "n": 0}
        e.update(kw)
        events.append(e)

    socks = {}

    def on_sent(rec):
        from_client = rec["sock"] == "client"
        # two endpoints that keep answering each other (possible on a changed tree) would never let the run end:
        # beyond a generous number of datagrams the network delivers nothing more and the trace is marked
        state["sent"] = state.get("sent", 0) + 1
        if state["sent"] > RUNAWAY:
            if state["sent"] == RUNAWAY + 1:
                ev("runaway")
            return
        try:
            m = wire.decode(rec["data"])
        except wire.ParseError:
            ev("tx", side=rec["sock"], kind="UNPARSABLE")
            return
        kind = classify(m, from_client)
        n = seen.get(kind, 0)
        seen[kind] = n + 1
        plan = sched.get("net", {}).get(kind, [])
        what = plan[n] if n < len(plan) else "deliver"
        ev("tx", side=rec["sock"], kind=kind, n=n + 1, cls=what)
        dst = socks["server"] if from_client else socks["client"]
        src = sockaddr(CLIENT) if from_client else sockaddr(SERVER)
        d = sched.get("delay", 8) / 1024.0
        if what == "drop":
            return
        w.loop.call_later(d, w.net.inject, dst, rec["data"], src)
        if what == "dup":
            w.loop.call_later(d * 2, w.net.inject, dst, rec["data"], src)

    w.net.on_sent = on_sent

    async def main():
        from aiocoap import Message, resource
        from aiocoap.numbers.constants import TransportTuning
        from aiocoap.numbers.codes import Code

        for k, v in sched.get("tuning", {}).items():
            w.patch(TransportTuning, k, v)

        class Res(resource.Resource):
            async def render_get(self, request):
                state["inv"] += 1
                inv = state["inv"]
                ev("call", side="server", inv=inv, q=int(request.opt.uri_query[0][2:]) if request.opt.uri_query else 0)
                if sched.get("slow"):
                    await asyncio.sleep(sched.get("handler_delay", 300) / 1024.0)
                return Message(code=Code.CONTENT, payload=b"I%d" % inv)

        site = resource.Site()
        site.add_resource(["r"], Res())
        server = await w.make_context(site=site, name="server")
        client = await w.make_context(name="client")
        socks["server"] = server._verif["sock"]
        socks["client"] = client._verif["sock"]
        reqs = {}
        for q in range(1, sched.get("nreq", 1) + 1):
            T = type("VT", (TransportTuning,), {"reliability": True})
            m = Message(code=Code.GET, uri_path=["r"], uri_query=["q=%d" % q], transport_tuning=T())
            m.remote = w.remote(client, SERVER)
            w.rand.fractions.append(0.0)
            ev("submit", side="client", q=q)
            req = client.request(m, handle_blockwise=False)
            reqs[q] = req

            def done(fut, q=q):
                if fut.cancelled():
                    ev("done", side="client", q=q, cls="cancelled")
                elif fut.exception() is not None:
                    from .drive import err_class

                    ev("done", side="client", q=q, cls=err_class(fut.exception()))
                else:
                    p = fut.result().payload
                    ev("done", side="client", q=q, cls="resp", inv=int(p[1:]) if p[:1] == b"I" and p[1:].isdigit() else -1)

            req.response.add_done_callback(done)
            await w.loop.settle()
        await w.loop.drain(horizon=sched.get("horizon", 400))
        for cexc in w.loop.exceptions:
            ev("loopexc", cls=type(cexc.get("exception")).__name__)
        ev("end", n=sum(1 for e in events if e["k"] == "tx" and e["cls"] == "drop"))
        frozen.append(True)
        meta = {"loop_exceptions": [repr(c.get("exception") or c.get("message")) for c in w.loop.exceptions],
                "log_errors": [r.getMessage() for r in w.logcap.errors()]}
        for ctx in (client, server):
            try:
                await asyncio.wait_for(ctx.shutdown(), 10)
            except Exception:
                pass
        return meta

    try:
        meta = w.run(main())
    finally:
        w.close()
    return {"events": events, "meta": meta}


def run_safe(s):
    try:
        return run(s)
    except Exception:
        import traceback

        return {"error": traceback.format_exc()}


def run_all(scheds, procs=16):
    import os
    from multiprocessing import Pool

    if not scheds:
        return []
    with Pool(min(procs, os.cpu_count() or 4)) as p:
        return p.map(run_safe, scheds, chunksize=max(1, len(scheds) // 64))
