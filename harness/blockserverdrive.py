"""C06 (block-wise server): schedules for the parts of the statement the first version of the check did not
drive -- combined Block1 + Block2 transfers, methods with payload-bearing follow-ups, size-exponent changes in
mid-transfer, the reserved exponent 7, lifetimes of the rendering made for a completed upload.

The schedules are executed by harness.drive.run (real Context / Site / Resource._render_to_pipe behind the fake UDP
socket under virtual time; scripted resources whose renderings are canonical strings numbered by invocation and whose
request bodies are checked against the canonical string of their (endpoint, method, cache key)).  This module only
*generates*: from TLC behaviours of spec/BlockServer.tla (behaviour_to_schedule) and randomly with real parameters.
Nothing here judges anything; the recorded traces go to TLC (spec/BlockServerTrace.tla)."""

from .drive import key_salt

T_REAL = 93 * 1024          # MAX_TRANSMIT_WAIT in schedule units
CANON = (2, 4)              # resources /h/2 and /h/4 render canonical strings
LENS = [0, 5, 16, 17, 40, 100, 100, 300, 1023, 1024, 1025, 1124, 1125, 2500, 2500, 5000]


# ------------------------------------------------------------------------------------------------------------------
# spec -> code
# ------------------------------------------------------------------------------------------------------------------
def behaviour_to_schedule(beh):
    """One TLC behaviour of BlockServer.tla -> (schedule, expected projection).  Model time unit = 1 s = 1024 units,
    T = 2; model block size 16 (exponent 0) unless the request says otherwise; request payloads are cut from the
    canonical string of their key at the offset their Block1 option names."""
    steps = []
    expected = []
    lens = []
    n = 0
    nrem = 2
    for _label, st in beh[1:]:
        emit = st.get("emit", [])
        if not emit or emit[0]["k"] != "rx":
            continue
        e0 = emit[0]
        n += 1
        tok = "%02x" % (0xA0 + n)
        ck = e0["ck"]
        step = {"at": e0["t"] * 1024, "do": "rx", "r": e0["r"], "ty": "NON", "code": e0["code"], "mid": 100 + n, "tok": tok,
                "path": ["h", str(ck // 10)]}
        nrem = max(nrem, e0["r"])
        if e0["b1n"] >= 0:
            step["b1"] = [e0["b1n"], e0["b1m"], e0["b1s"]]
        if e0["b2n"] >= 0:
            step["b2"] = [e0["b2n"], 0, e0["b2s"]]
        if e0["plen"] > 0:
            off = e0["b1n"] * (2 ** (min(e0["b1s"], 6) + 4)) if e0["b1n"] >= 0 else 0
            step["body"] = {"cid": key_salt(e0["r"], e0["code"], ck), "off": off, "len": e0["plen"]}
        steps.append(step)
        for e in emit:
            if e["k"] == "release" and ck != 10:
                lens.append(e["plen"])
            if e["k"] == "tx":
                expected.append(project_tx(tok, e))
            elif e["k"] == "call":
                expected.append((tok, "call", e["plen"]))
    return {
        "tuning": {"MAX_TRANSMIT_WAIT": 2.0, "EMPTY_ACK_DELAY": 0.125},
        "mid0": 1, "tok0": 1, "nremotes": nrem,
        "handlers": {"1": {"delay": 0, "outcome": "nocode", "len": 0},
                     "2": {"delay": 0, "canon": True, "lens": lens or [10], "outcome": "ok"}},
        "steps": steps, "horizon": 16 * 1024,
    }, expected


def project_tx(tok, e):
    served = 64 <= e["code"] < 96 and e["code"] != 95
    return (tok, e["code"], e["b1n"], e["b1m"], e["b2n"], e["b2m"], e["b2s"] if e["b2n"] >= 0 else -1,
            e["plen"] if served else -1, e["off"] if served and e["plen"] > 0 else -1)


def project(real):
    out = []
    for e in real:
        if e["k"] == "tx" and e["cls"] == "resp":
            out.append(project_tx(e["tok"], e))
        elif e["k"] == "call":
            out.append((e["tok"], "call", e["plen"]))
    return out


def compare(expected, real):
    got = project(real)
    for i, x in enumerate(expected):
        if i >= len(got):
            return "model predicts %d events, implementation produced %d; first missing %s" % (len(expected), len(got), x)
        if x != got[i]:
            return "event %d: model predicts %s, implementation produced %s" % (i + 1, x, got[i])
    if len(got) > len(expected):
        return "implementation produced %d events, model predicts %d; first extra %s" % (len(got), len(expected), got[len(expected)])
    return None


# ------------------------------------------------------------------------------------------------------------------
# random real-parameter schedules
# ------------------------------------------------------------------------------------------------------------------
class _Plan:
    """Requests in order; times are assigned afterwards."""

    def __init__(self, rng, tok0):
        self.rng = rng
        self.ops = []
        self.tok0 = tok0

    def req(self, sess, b1=None, plen=0, b2=None, off=None, gap=None, tag=""):
        self.ops.append({"sess": sess, "b1": b1, "plen": plen, "b2": b2, "off": off, "gap": gap, "tag": tag})

    def steps(self, default_gaps, long_gaps, p_long):
        rng = self.rng
        t = 0
        out = []
        for i, op in enumerate(self.ops):
            if op["gap"] is not None:
                t += op["gap"]
            elif i:
                t += rng.choice(long_gaps if rng.random() < p_long else default_gaps)
            r, code, h, ckq = op["sess"]
            st = {"at": t, "do": "rx", "r": r, "ty": rng.choice(["NON", "NON", "CON"]), "code": code, "mid": (700 + i) & 0xFFFF,
                  "tok": "%04x" % (self.tok0 + i), "path": ["h", str(h)], "ckq": ckq}
            if op["b1"] is not None:
                st["b1"] = list(op["b1"])
            if op["b2"] is not None:
                st["b2"] = list(op["b2"])
            if op["plen"] > 0:
                off = op["off"]
                if off is None:
                    off = op["b1"][0] * (2 ** (min(op["b1"][2], 6) + 4)) if op["b1"] is not None else 0
                st["body"] = {"cid": key_salt(r, code, h * 10 + ckq), "off": off, "len": op["plen"]}
            out.append(st)
        return out


def _upload(plan, rng, sess, szx, nblocks, last, b2final=None, b2first=None, upto=None, mis=None):
    """Blocks 0..nblocks-1 in order (upto: stop before that block -- an abandoned or interrupted upload;
    mis: one misbehaviour on the way -- the clauses about refused continuations on a key that has a rendering)."""
    size = 2 ** (szx + 4)
    seq = []
    for i in range(nblocks if upto is None else min(upto, nblocks)):
        final = i == nblocks - 1
        b2 = b2final if final else (b2first if i == 0 else None)
        seq.append(dict(b1=(i, 0 if final else 1, szx), plen=last if final else size, b2=b2))
    if mis == "skip" and len(seq) > 2:
        del seq[1]
    elif mis == "repeat" and len(seq) > 1:
        seq.insert(1, dict(seq[rng.choice([0, 1])]))
    elif mis == "wrongsize" and len(seq) > 1:
        k = rng.randint(0, len(seq) - 2)
        seq[k] = dict(seq[k], plen=rng.choice([size - 1, size // 2, size + 1]))
    elif mis == "lastfirst" and len(seq) > 1:
        seq = [seq[-1]] + seq[:-1]
    elif mis == "dupfinal":
        seq.append(dict(seq[-1]))
    for x in seq:
        plan.req(sess, tag="upload", **x)


MIS = [None, None, None, None, None, "skip", "repeat", "wrongsize", "lastfirst", "dupfinal"]


def _followups(plan, rng, sess, szx, nums, variants, last_b1=None, last_plen=0):
    for num in nums:
        v = rng.choice(variants)
        if v == "bare":
            # (the more-flag of a Block2 option in a request means nothing)
            plan.req(sess, b2=(num, 1 if rng.random() < 0.08 else 0, szx), tag="follow")
        elif v == "payload":
            # the request payload again (what a FETCH client does): not part of the block key
            plan.req(sess, plen=rng.choice([1, 7, 16, 33]), b2=(num, 0, szx), tag="follow+payload")
        elif v == "repeat-b1" and last_b1 is not None:
            # the last Block1 option and its payload once more (for a body of several blocks this does not extend
            # the assembly: 4.08; for a single-block body it is block 0 again)
            plan.req(sess, b1=last_b1, plen=last_plen, b2=(num, 0, szx), tag="follow+block1")
        elif v == "single0":
            plan.req(sess, b1=(0, 0, rng.choice([0, 2, 6])), plen=rng.choice([1, 7, 16]), b2=(num, 0, szx), tag="follow+block1")
        else:
            plan.req(sess, b2=(num, 0, szx), tag="follow")


def _sess(rng, r=None, code=None, h=None, ckq=None):
    return (r if r is not None else rng.choice([1, 2, 3]), code if code is not None else rng.choice([2, 2, 3, 5]),
            h if h is not None else rng.choice(CANON), ckq if ckq is not None else rng.choice([0, 0, 1]))


def _handlers(rng, lens2=None, lens4=None):
    def some():
        return [rng.choice(LENS) for _ in range(8)]
    return {"1": {"delay": 0, "outcome": "nocode", "len": 0},
            "2": {"delay": 0, "canon": True, "outcome": "ok", "lens": lens2 or some()},
            "3": {"delay": 0, "outcome": "nocode", "len": 0},
            "4": {"delay": 0, "canon": True, "outcome": "ok", "lens": lens4 or some()}}


SHORT = [0, 1, 50, 1000]
AROUND = [T_REAL - 1, T_REAL, T_REAL + 1, 2 * T_REAL - 1, 2 * T_REAL, 2 * T_REAL + 1, T_REAL // 2]


def _finish(rng, plan, handlers, p_long=0.12, tok_trig=True):
    steps = plan.steps(SHORT, AROUND, p_long)
    trig = [{"on": {"tx": {"ty": "CON", "cls": "resp", "nth": k}}, "delay": 2, "rx": {"ty": "ACK", "code": 0, "mid": "same"}}
            for k in range(1, 40)]
    return {"tuning": {"EMPTY_ACK_DELAY": 0.125}, "mid0": rng.randint(0, 65535), "tok0": 5, "nremotes": 4,
            "handlers": handlers, "steps": steps, "triggers": trig, "horizon": 300 * 1024,
            "family": plan.family}


def combined_schedule(rng):
    """An upload whose response needs a block-wise transfer of its own, and what a client may do next."""
    plan = _Plan(rng, 0xE000)
    fam = rng.choice(["basic", "basic", "restart", "restart", "twoclients", "methods", "abandon", "interleave"])
    plan.family = "combined:" + fam
    big = [rng.choice([40, 100, 300, 1025, 1100, 2500, 2500]) for _ in range(8)]
    if rng.random() < 0.3:
        big[rng.randrange(8)] = rng.choice([0, 5, 16])      # now and then a rendering that needs no transfer
    handlers = _handlers(rng, lens2=big, lens4=list(reversed(big)))
    s1 = _sess(rng)
    szx1 = rng.choice([0, 0, 1, 2, 6])
    nblocks = rng.randint(1, 4)
    last = rng.choice([1, 7, 2 ** (szx1 + 4)])
    szx2 = rng.choice([0, 0, 1, 2, 4, 6])
    b2final = (0, 0, szx2) if rng.random() < 0.8 else None
    b2first = (0, 0, rng.choice([szx2, 0, 6])) if rng.random() < 0.15 else None
    if b2final is None:
        szx2 = 6
    variants = rng.choice([["bare"], ["bare", "payload"], ["bare", "payload", "repeat-b1", "single0"], ["payload"]])
    last_b1 = (nblocks - 1, 0, szx1)

    def nums(k=None):
        k = k if k is not None else rng.randint(1, 5)
        seq = list(range(1, k + 1))
        m = rng.random()
        if m < 0.15:
            seq.append(rng.choice([50, 200, 4000]))           # beyond the end
        elif m < 0.25 and len(seq) > 1:
            seq.insert(1, seq[0])                             # a block asked for twice
        elif m < 0.32 and len(seq) > 2:
            del seq[1]                                        # one skipped
        return seq

    if fam == "basic":
        _upload(plan, rng, s1, szx1, nblocks, last, b2final, b2first, mis=rng.choice(MIS))
        _followups(plan, rng, s1, szx2, nums(), variants, last_b1, last)
    elif fam == "restart":
        # a new upload of the same endpoint / method / options begins while the old rendering is cached: later
        # blocks keep coming from the old rendering until the new body is complete, from the new one afterwards
        _upload(plan, rng, s1, szx1, nblocks, last, b2final, b2first)
        _followups(plan, rng, s1, szx2, nums(2), variants, last_b1, last)
        nb2 = rng.randint(2, 4)
        upto = rng.randint(1, nb2 - 1)
        _upload(plan, rng, s1, szx1, nb2, last, b2final, None, upto=upto)
        _followups(plan, rng, s1, szx2, [rng.randint(1, 3)], ["bare", "payload"])
        if rng.random() < 0.8:
            for i in range(upto, nb2):
                final = i == nb2 - 1
                plan.req(s1, b1=(i, 0 if final else 1, szx1), plen=last if final else 2 ** (szx1 + 4),
                         b2=b2final if final else None, tag="upload")
            _followups(plan, rng, s1, szx2, nums(3), variants, (nb2 - 1, 0, szx1), last)
    elif fam == "twoclients":
        s2 = (s1[0] % 3 + 1, s1[1], s1[2], s1[3])
        a = _Plan(rng, 0)
        b = _Plan(rng, 0)
        _upload(a, rng, s1, szx1, nblocks, last, b2final, b2first)
        _followups(a, rng, s1, szx2, nums(), variants, last_b1, last)
        nb = rng.randint(1, 3)
        _upload(b, rng, s2, szx1, nb, last, b2final, None, upto=rng.choice([None, None, 1]))
        _followups(b, rng, s2, szx2, nums(3), variants, (nb - 1, 0, szx1), last)
        plan.ops = _merge(rng, a.ops, b.ops)
    elif fam == "methods":
        # same endpoint, same options, another method: its own assembly, its own rendering
        other = rng.choice([c for c in (1, 2, 3, 5) if c != s1[1]])
        s2 = (s1[0], other, s1[2], s1[3])
        a = _Plan(rng, 0)
        b = _Plan(rng, 0)
        _upload(a, rng, s1, szx1, nblocks, last, b2final, b2first)
        _followups(a, rng, s1, szx2, nums(3), variants, last_b1, last)
        if rng.random() < 0.5:
            # the other method continues / asks for later blocks without ever having started
            b.req(s2, b1=(rng.randint(1, max(1, nblocks - 1)), rng.choice([0, 1]), szx1), plen=2 ** (szx1 + 4), tag="upload")
            _followups(b, rng, s2, szx2, nums(2), ["bare", "payload"])
        else:
            if other == 1:
                b.req(s2, b2=(0, 0, szx2), tag="get")
            else:
                _upload(b, rng, s2, szx1, rng.randint(1, 3), last, b2final, None)
            _followups(b, rng, s2, szx2, nums(2), ["bare", "payload"])
        plan.ops = _merge(rng, a.ops, b.ops)
    elif fam == "abandon":
        # the response transfer is abandoned; the upload is repeated from block 0; the old assembly must not leak
        _upload(plan, rng, s1, szx1, nblocks, last, b2final, b2first)
        _followups(plan, rng, s1, szx2, [1], variants, last_b1, last)
        _upload(plan, rng, s1, szx1, nblocks, last, b2final, b2first, mis=rng.choice(MIS))
        _followups(plan, rng, s1, szx2, nums(), variants, last_b1, last)
    else:  # interleave: uploads on two cache keys / resources of one endpoint, follow-ups crossing
        s2 = (s1[0], s1[1], rng.choice(CANON), 1 - s1[3])
        a = _Plan(rng, 0)
        b = _Plan(rng, 0)
        _upload(a, rng, s1, szx1, nblocks, last, b2final, b2first)
        _followups(a, rng, s1, szx2, nums(3), variants, last_b1, last)
        _upload(b, rng, s2, szx1, rng.randint(1, 3), last, b2final, None)
        _followups(b, rng, s2, szx2, nums(3), variants)
        plan.ops = _merge(rng, a.ops, b.ops)
    return _finish(rng, plan, handlers)


def _merge(rng, a, b):
    a, b = list(a), list(b)
    out = []
    while a or b:
        src = a if (a and (not b or rng.random() < 0.5)) else b
        out.append(src.pop(0))
    return out


def methods_schedule(rng):
    """FETCH / POST / PUT / GET on one resource with the same options: payload-bearing block-0 requests (no Block1),
    payload-bearing follow-ups, each method with its own rendering."""
    plan = _Plan(rng, 0xE400)
    plan.family = "methods"
    handlers = _handlers(rng, lens2=[rng.choice([40, 100, 300, 1025, 2500]) for _ in range(8)])
    r = rng.choice([1, 2])
    h, ckq = 2, rng.choice([0, 1])
    codes = rng.sample([1, 2, 3, 5], rng.randint(2, 3))
    szx = rng.choice([0, 1, 2, 6])
    parts = []
    for c in codes:
        p = _Plan(rng, 0)
        s = (r, c, h, ckq)
        pl = 0 if c == 1 else rng.choice([0, 7, 16, 33])
        first_b2 = (0, 0, szx) if rng.random() < 0.8 else None
        p.req(s, plen=pl, b2=first_b2, tag="first")
        fs = szx if first_b2 is not None else 6
        _followups(p, rng, s, fs, list(range(1, rng.randint(2, 5))), ["bare", "payload"] if c != 1 else ["bare"])
        if rng.random() < 0.3:
            p.req(s, plen=pl, b2=first_b2, tag="first")           # asked again: a new rendering, the latest from now on
            _followups(p, rng, s, fs, [1, 2], ["bare", "payload"] if c != 1 else ["bare"])
        parts.append(p.ops)
    ops = parts[0]
    for p in parts[1:]:
        ops = _merge(rng, ops, p)
    plan.ops = ops
    return _finish(rng, plan, handlers, p_long=0.08)


def sizes_schedule(rng):
    """Block2 size exponents changing in mid-transfer (shrinking with the block number re-based, growing, not
    re-based), the reserved exponent 7, block 0 asked for with a size larger than the rendering."""
    plan = _Plan(rng, 0xE800)
    plan.family = "sizes"
    L = rng.choice([5, 16, 40, 100, 300, 1024, 1025, 1124, 1125, 2500, 5000])
    handlers = _handlers(rng, lens2=[L, rng.choice([L, 40, 3000]), L, L])
    code = rng.choice([1, 1, 5, 2])
    s = (rng.choice([1, 2]), code, 2, 0)
    s0 = rng.choice([0, 1, 2, 4, 6, 6, 7])
    mode = rng.choice(["shrink", "grow", "mixed", "bert", "plainfirst", "larger"])
    if mode == "larger":
        s0 = rng.choice([x for x in range(0, 8) if 2 ** (min(x, 6) + 4) >= L] or [6])
    plan.req(s, b2=None if mode == "plainfirst" else (0, 0, s0), tag="first")
    cur = 6 if mode == "plainfirst" else s0
    size = lambda x: 2 ** (min(x, 6) + 4)
    off = size(cur)
    for _ in range(rng.randint(2, 6)):
        if mode == "shrink":
            new = max(0, cur - rng.choice([0, 1, 2]))
        elif mode == "grow":
            new = min(6, cur + rng.choice([0, 1, 2]))
        elif mode == "bert":
            new = rng.choice([7, 7, 6, cur])
        else:
            new = rng.choice([0, 1, 2, 3, 4, 5, 6, 7])
        if off % size(new) == 0 and rng.random() < 0.85:
            num = off // size(new)                      # re-based: the next byte not yet received
        else:
            num = rng.randint(1, 6)                     # a client that does not re-base
        plan.req(s, b2=(num, 0, new), plen=(rng.choice([0, 7]) if code != 1 else 0), tag="follow")
        off = (num + 1) * size(new)
        cur = new
    if rng.random() < 0.3:
        plan.req(s, b2=(0, 0, rng.choice([0, 6, 7])), tag="first")
        plan.req(s, b2=(1, 0, rng.choice([0, 6, 7])), tag="follow")
    return _finish(rng, plan, handlers, p_long=0.05)


def lifetime_schedule(rng):
    """The rendering made for a completed upload: follow-ups refresh it (each less than the lifetime after the
    previous one it has to be served, however long the transfer takes); left alone it is gone from twice the lifetime;
    refused requests (beyond the end, another method, an upload restarting) need not refresh it.  Likewise the
    assembly while later blocks of an older rendering are being fetched."""
    plan = _Plan(rng, 0xEC00)
    plan.family = "lifetime"
    handlers = _handlers(rng, lens2=[rng.choice([100, 300, 2500]) for _ in range(4)])
    s = (rng.choice([1, 2]), rng.choice([2, 3, 5]), 2, rng.choice([0, 1]))
    szx1 = rng.choice([0, 2])
    nblocks = rng.randint(1, 3)
    szx2 = rng.choice([0, 1])
    _upload(plan, rng, s, szx1, nblocks, 7, (0, 0, szx2))
    mode = rng.choice(["chain", "edge", "refused", "asm"])
    near = [T_REAL - 1, T_REAL - 50, T_REAL // 2, (2 * T_REAL) // 3]
    if mode == "chain":
        for num in range(1, rng.randint(3, 6)):
            plan.req(s, b2=(num, 0, szx2), gap=rng.choice(near), tag="follow")
        plan.req(s, b2=(1, 0, szx2), gap=rng.choice([2 * T_REAL, 2 * T_REAL + 5, 3 * T_REAL]), tag="follow")
    elif mode == "edge":
        plan.req(s, b2=(1, 0, szx2), gap=rng.choice([T_REAL - 1, T_REAL, T_REAL + 1, 2 * T_REAL - 1, 2 * T_REAL, 2 * T_REAL + 1]), tag="follow")
        plan.req(s, b2=(2, 0, szx2), gap=rng.choice([0, T_REAL - 1, 2 * T_REAL]), tag="follow")
    elif mode == "refused":
        # things that are no successful use of the rendering
        t = 0
        while t < 2 * T_REAL:
            g = rng.choice(near)
            t += g
            what = rng.choice(["beyond", "othermethod", "restart"])
            if what == "beyond":
                plan.req(s, b2=(4000, 0, szx2), gap=g, tag="follow")
            elif what == "othermethod":
                plan.req((s[0], 1, s[2], s[3]), b2=(1, 0, szx2), gap=g, tag="follow")
            else:
                plan.req(s, b1=(0, 1, szx1), plen=2 ** (szx1 + 4), gap=g, tag="upload")
        plan.req(s, b2=(1, 0, szx2), gap=rng.choice([1, 50]), tag="follow")
    else:
        # a new upload creeping along while the old rendering is being fetched: both stay alive by their own uses
        nb = 4
        for i in range(nb):
            final = i == nb - 1
            plan.req(s, b1=(i, 0 if final else 1, szx1), plen=7 if final else 2 ** (szx1 + 4), b2=(0, 0, szx2) if final else None,
                     gap=rng.choice(near), tag="upload")
            plan.req(s, b2=(1 + i % 2, 0, szx2), gap=rng.choice([1, 50]), tag="follow")
        plan.req(s, b1=(1, 0, szx1), plen=7, gap=rng.choice([2 * T_REAL, 2 * T_REAL + 1000]), tag="upload")
    sched = _finish(rng, plan, handlers, p_long=0.0)
    sched["horizon"] = 400 * 1024
    return sched


FAMILIES = [(combined_schedule, 0.55), (methods_schedule, 0.15), (sizes_schedule, 0.18), (lifetime_schedule, 0.12)]


def extension_schedule(rng):
    x = rng.random()
    acc = 0.0
    for fn, p in FAMILIES:
        acc += p
        if x < acc:
            return fn(rng)
    return combined_schedule(rng)
