"""Independent, minimal RFC 7252 section 3 codec for the scripted peer.

Deliberately shares no code with aiocoap.  Options are (number, bytes) pairs."""

CON, NON, ACK, RST = 0, 1, 2, 3
TYPE_NAMES = {0: "CON", 1: "NON", 2: "ACK", 3: "RST"}

# option numbers used by the drivers
IF_MATCH, URI_HOST, ETAG, IF_NONE_MATCH, OBSERVE, URI_PORT, LOCATION_PATH = 1, 3, 4, 5, 6, 7, 8
URI_PATH, CONTENT_FORMAT, MAX_AGE, URI_QUERY, ACCEPT, LOCATION_QUERY = 11, 12, 14, 15, 17, 20
BLOCK2, BLOCK1, SIZE2, PROXY_URI, SIZE1, NO_RESPONSE = 23, 27, 28, 35, 60, 258
REQUEST_TAG, ECHO, OSCORE = 292, 252, 9


def code(cls, detail):
    return (cls << 5) | detail


def code_str(c):
    return "%d.%02d" % (c >> 5, c & 31)


GET, POST, PUT, DELETE, FETCH, PATCH, IPATCH = 1, 2, 3, 4, 5, 6, 7
CONTENT = code(2, 5)
CHANGED = code(2, 4)
CREATED = code(2, 1)
CONTINUE = code(2, 31)


def _ext(v):
    if v < 13:
        return v, b""
    if v < 269:
        return 13, bytes([v - 13])
    if v <= 65804:
        return 14, (v - 269).to_bytes(2, "big")
    raise ValueError("option delta/length too large")


def uint(v):
    if v == 0:
        return b""
    return v.to_bytes((v.bit_length() + 7) // 8, "big")


def from_uint(b):
    return int.from_bytes(b, "big")


def block(num, more, szx):
    return uint((num << 4) | (int(bool(more)) << 3) | szx)


def unblock(b):
    v = from_uint(b)
    return (v >> 4, bool(v & 8), v & 7)


def encode(mtype, code_, mid, token=b"", options=(), payload=b""):
    assert 0 <= len(token) <= 8
    out = bytearray([(1 << 6) | (mtype << 4) | len(token), code_]) + mid.to_bytes(2, "big") + token
    last = 0
    for num, val in sorted(options, key=lambda o: o[0]):
        d, dx = _ext(num - last)
        l, lx = _ext(len(val))
        out += bytes([(d << 4) | l]) + dx + lx + val
        last = num
    if payload:
        out += b"\xff" + payload
    return bytes(out)


class ParseError(Exception):
    pass


def decode(data):
    """Returns dict(type, code, mid, token, options[(num, bytes)], payload)."""
    if len(data) < 4:
        raise ParseError("short")
    ver = data[0] >> 6
    if ver != 1:
        raise ParseError("version")
    mtype = (data[0] >> 4) & 3
    tkl = data[0] & 15
    if tkl > 8:
        raise ParseError("tkl")
    code_ = data[1]
    mid = int.from_bytes(data[2:4], "big")
    if len(data) < 4 + tkl:
        raise ParseError("token truncated")
    token = data[4 : 4 + tkl]
    pos = 4 + tkl
    options = []
    num = 0
    payload = b""
    while pos < len(data):
        b = data[pos]
        pos += 1
        if b == 0xFF:
            payload = data[pos:]
            if not payload:
                raise ParseError("marker without payload")
            break
        d, l = b >> 4, b & 15
        vals = []
        for n in (d, l):
            if n == 13:
                if pos + 1 > len(data):
                    raise ParseError("ext truncated")
                n = data[pos] + 13
                pos += 1
            elif n == 14:
                if pos + 2 > len(data):
                    raise ParseError("ext truncated")
                n = int.from_bytes(data[pos : pos + 2], "big") + 269
                pos += 2
            elif n == 15:
                raise ParseError("nibble 15")
            vals.append(n)
        num += vals[0]
        if pos + vals[1] > len(data):
            raise ParseError("value truncated")
        options.append((num, bytes(data[pos : pos + vals[1]])))
        pos += vals[1]
    return {
        "type": mtype,
        "code": code_,
        "mid": mid,
        "token": bytes(token),
        "options": options,
        "payload": bytes(payload),
    }


def opt(msg, number, default=None):
    for n, v in msg["options"]:
        if n == number:
            return v
    return default


def opts(msg, number):
    return [v for n, v in msg["options"] if n == number]
