"""Fake UDP socket + controlled network for the real MessageInterfaceUDP6 /
RecvmsgSelectorDatagramTransport."""

import contextvars
import errno as _errno
import socket
import struct

from .vloop import FAKE_FD_BASE

MSG_ERRQUEUE = 8192
IPV6_RECVERR = 25

_in6_pktinfo = struct.Struct("16sI")
_ext_err = struct.Struct("IbbbbII")

LOCAL_UNICAST = "2001:db8::100"
LOCAL_MCAST = "ff02::fd"
LOCAL_MCAST4 = "::ffff:224.0.1.187"  # IPv4 "All CoAP Nodes" as the dual-stack socket reports it


def sockaddr(n, port=5683):
    """Address of scripted peer number n (1-based)."""
    return ("2001:db8::%x" % n, port, 0, 0)


def pktinfo(local=LOCAL_UNICAST, ifindex=1):
    return _in6_pktinfo.pack(socket.inet_pton(socket.AF_INET6, local), ifindex)


class FakeSocket:
    _next_fd = FAKE_FD_BASE

    def __init__(self, net, name="sut"):
        FakeSocket._next_fd += 1
        self._fd = FakeSocket._next_fd
        self.net = net
        self.name = name
        self.rxq = []
        self.errq = []
        self.closed = False
        self.send_fault = None  # callable(address, data) -> OSError|None
        net.sockets.append(self)

    # socket API used by aiocoap --------------------------------------------
    def fileno(self):
        return self._fd

    def setblocking(self, flag):
        pass

    def setsockopt(self, *a):
        pass

    def bind(self, addr):
        self.bound = addr

    def getsockname(self):
        return ("::", 5683, 0, 0)

    def close(self):
        self.closed = True

    def recvmsg(self, bufsize, ancbufsize=0, flags=0):
        if self.closed:
            raise OSError(_errno.EBADF, "closed fake socket")
        if flags & MSG_ERRQUEUE:
            if not self.errq:
                raise BlockingIOError()
            return self.errq.pop(0)
        if not self.rxq:
            raise BlockingIOError()
        return self.rxq.pop(0)

    def sendmsg(self, buffers, ancdata=(), flags=0, address=None):
        if self.closed:
            raise OSError(_errno.EBADF, "closed fake socket")
        data = b"".join(bytes(b) for b in buffers)
        if self.send_fault is not None:
            exc = self.send_fault(address, data)
            if exc is not None:
                raise exc
        self.net._sent(self, data, list(ancdata), address)
        return len(data)


class Net:
    """Records everything the SUT sends; lets the driver inject datagrams and
    ICMP-style errors.  Deliveries run the *real* transport read handler, in an
    empty contextvars.Context (a real socket read is not causally inside the
    sender's context either)."""

    def __init__(self, loop):
        self.loop = loop
        self.sockets = []
        self.sent = []  # dicts: t (ticks), sock, to (sockaddr), data, anc
        self.on_sent = None
        self.dropped_after_close = 0

    def _sent(self, sock, data, anc, address):
        rec = {
            "t": self.loop.ticks(),
            "sock": sock.name,
            "to": address,
            "data": data,
            "anc": anc,
            "i": len(self.sent),
        }
        self.sent.append(rec)
        if self.on_sent:
            self.on_sent(rec)

    def _kick(self, sock):
        rd = self.loop.fake_readers.get(sock.fileno())
        if rd is None:
            return False
        cb, args = rd
        self.loop.call_soon(cb, *args, context=contextvars.Context())
        return True

    def inject(self, sock, data, src, local=LOCAL_UNICAST, ifindex=1):
        """Datagram from ``src`` (sockaddr) arrives on ``sock`` now."""
        if sock.closed or sock.fileno() not in self.loop.fake_readers:
            self.dropped_after_close += 1
            return False
        anc = [(socket.IPPROTO_IPV6, socket.IPV6_PKTINFO, pktinfo(local, ifindex))]
        sock.rxq.append((bytes(data), anc, 0, src))
        return self._kick(sock)

    def inject_error(self, sock, src, errno_value=_errno.ECONNREFUSED):
        """ICMP-style error for packets sent to ``src`` arrives through the
        error queue."""
        if sock.closed or sock.fileno() not in self.loop.fake_readers:
            self.dropped_after_close += 1
            return False
        ee = _ext_err.pack(errno_value, 2, 1, 4, 0, 0, 0)
        anc = [
            (socket.IPPROTO_IPV6, IPV6_RECVERR, ee),
            (socket.IPPROTO_IPV6, socket.IPV6_PKTINFO, pktinfo()),
        ]
        sock.errq.append((b"", anc, MSG_ERRQUEUE, src))
        return self._kick(sock)
