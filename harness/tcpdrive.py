"""Drives the real aiocoap TcpConnection (transports/tcp.py + rfc8323common.py)
over a fake asyncio.Transport, for property C15.

System under test: a real Context + real TokenManager + real TCPClient (or
TCPServer) pool + the real TcpConnection protocol object.  The only stand-ins
are

* FakeTransport -- records what the connection writes and whether it closed /
  aborted the stream; like a real selector transport it drops writes after
  close() and reports connection_lost(None) from a later loop iteration;
* loop.create_connection -- instantiates the protocol factory on a
  FakeTransport instead of opening a socket (client role);
* Recorder -- sits where the pool keeps its token manager and notes every
  process_request / process_response / dispatch_error call ("messages handed
  to the token manager", the property's observation point).  Responses and
  errors are forwarded to the real TokenManager so that really pending
  requests complete or fail; requests are only recorded (there is no site).

A case is a dict
  {"frames": [{"k": label, "b": [byte, ...]}, ...],   the peer's stream, frame by frame
   "cuts": [n1, n2, ...],                             chunk lengths (sum = stream length)
   "maxmsg": N, "npend": P, "role": "client" | "server",
   "backlog": bool      the peer has stopped reading before the stream starts (see FakeTransport),
   "spawn": "concurrent" the P requests are started together before the host is connected:
                        one connection each, only the last one is filed in the pool;
                        the stream is fed to every connection, obs["others"] holds the
                        observations of the further connections}
and the observation is
  {"init": [bytes written before the first chunk: CSM, the P requests],
   "ptoks": [[token bytes] per pending request],
   "steps": [{"disp": [msg...], "wr": [bytes], "closed": bool, "pend": [...], "exc": str}, ...]}
with msg = {"code", "tok", "opts": [[number, [value bytes]], ...], "pay", "how": "req"|"resp"}.
Feeding stops when the connection has closed the transport or data_received
raised (a real transport would deliver nothing further either)."""

import asyncio
import logging

from . import require_repo
from .vloop import VirtualLoop

PEND_TOKEN_BASE = 0x50  # pending requests get tokens 0x51, 0x52, ...


class FakeTransport(asyncio.Transport):
    """Records what reaches the peer.  Two situations of a real stream transport
    are distinguished:

    * no backlog (default): write() hands the bytes to the socket at once;
      close() and abort() both end in connection_lost(None) on a later loop
      iteration;
    * backlog (``start_backlog()``; the peer has stopped reading): written
      bytes queue up behind what is already buffered.  close() keeps them --
      they are delivered once the peer reads again -- but connection_lost is
      not reported for as long as the buffer is not drained, i.e. never within
      the observed execution; abort() throws the queued bytes away (they never
      reach the peer) and reports connection_lost at once."""

    def __init__(self, loop, protocol):
        super().__init__()
        self._loop = loop
        self._protocol = protocol
        self.out = []  # what reaches the peer (writes before close, not discarded by abort)
        self.late = []  # writes after close (a real transport drops them)
        self.closed = False
        self.how_closed = None
        self.lost_reported = False
        self.backlog_from = None  # index into out from which writes are merely queued
        self.discarded = 0

    def start_backlog(self):
        self.backlog_from = len(self.out)

    def get_extra_info(self, name, default=None):
        if name == "sockname":
            return ("2001:db8::1", 5683, 0, 0)
        if name == "peername":
            return ("2001:db8::2", 43210, 0, 0)
        return default

    def set_protocol(self, protocol):
        self._protocol = protocol

    def get_protocol(self):
        return self._protocol

    def is_closing(self):
        return self.closed

    def write(self, data):
        (self.late if self.closed else self.out).append(bytes(data))

    def writelines(self, lines):
        for l in lines:
            self.write(l)

    def can_write_eof(self):
        return True

    def write_eof(self):
        pass

    def pause_reading(self):
        pass

    def resume_reading(self):
        pass

    def is_reading(self):
        return not self.closed

    def _close(self, how):
        if self.closed:
            return
        self.closed = True
        self.how_closed = how
        if self.backlog_from is not None:
            if how == "abort":
                self.discarded = len(self.out) - self.backlog_from
                del self.out[self.backlog_from :]
                self._loop.call_soon(self._report_lost)
            # close(): waits for the buffer to drain, which the peer does not let happen
            return
        self._loop.call_soon(self._report_lost)

    def _report_lost(self):
        if not self.lost_reported:
            self.lost_reported = True
            self._protocol.connection_lost(None)

    def close(self):
        self._close("close")

    def abort(self):
        self._close("abort")


class Recorder:
    """Stands where the pool expects its token manager."""

    def __init__(self, real):
        self.real = real
        self.calls = []  # ("req"|"resp", message) | ("error", exc)

    def process_request(self, msg):
        self.calls.append(("req", msg, msg.remote))

    def process_response(self, msg):
        self.calls.append(("resp", msg, msg.remote))
        return self.real.process_response(msg)

    def dispatch_error(self, exc, remote):
        self.calls.append(("error", exc, remote))
        return self.real.dispatch_error(exc, remote)

    def __getattr__(self, name):
        return getattr(self.real, name)


def project(how, msg):
    """The fields of a dispatched message the property talks about."""
    return {
        "how": how,
        "code": int(msg.code),
        "tok": list(msg.token),
        "opts": [[int(o.number), list(o.encode())] for o in msg.opt.option_list()],
        "pay": list(msg.payload),
    }


def build_message(code, tok, opts, pay):
    """An aiocoap Message with exactly these fields (options given as
    (number, value bytes), in non-decreasing number order)."""
    import aiocoap
    from aiocoap.numbers.optionnumbers import OptionNumber

    m = aiocoap.Message(code=aiocoap.numbers.codes.Code(code), payload=bytes(pay), _token=bytes(tok))
    for num, val in opts:
        m.opt.add_option(OptionNumber(num).create_option(decode=bytes(val)))
    return m


class _Silent(logging.Handler):
    def __init__(self):
        super().__init__(level=logging.DEBUG)
        self.errors = []

    def emit(self, record):
        if record.levelno >= logging.ERROR:
            self.errors.append(record.getMessage())


async def _run(loop, case):
    require_repo()
    import aiocoap
    from aiocoap import error
    from aiocoap.protocol import Context
    from aiocoap.tokenmanager import TokenManager
    from aiocoap.transports import tcp

    logname = "coap-verif-c15"
    log = logging.getLogger(logname)
    log.setLevel(logging.CRITICAL)
    log.propagate = False
    if not log.handlers:
        log.addHandler(_Silent())

    ctx = Context(loop=loop, serversite=None, loggername=logname)
    tman = TokenManager(ctx)
    tman._token = PEND_TOKEN_BASE
    rec = Recorder(tman)
    transports = []

    async def fake_create_connection(factory, host=None, port=None, **kw):
        await asyncio.sleep(0)  # connecting takes at least one trip through the loop
        proto = factory()
        tr = FakeTransport(loop, proto)
        transports.append(tr)
        proto.connection_made(tr)
        return tr, proto

    role = case.get("role", "client")
    npend = case.get("npend", 0)
    concurrent = case.get("spawn") == "concurrent"
    requests = []
    if role == "client":
        loop.create_connection = fake_create_connection
        pool = await tcp.TCPClient.create_client_transport(rec, log, loop)
        tman.token_interface = pool
        ctx.request_interfaces.append(tman)
        for j in range(npend):
            msg = aiocoap.Message(code=aiocoap.GET, uri="coap+tcp://peer.example/r%d" % j)
            requests.append(ctx.request(msg, handle_blockwise=False))
            if not concurrent:
                # else: the requests are started together, before the host is connected; each
                # opens a connection and the pool keeps the one that was established last
                await loop.settle()
        await loop.settle()
        if not npend:
            await pool._spawn_protocol(aiocoap.Message(code=aiocoap.GET, uri="coap+tcp://peer.example/"))
    else:
        pool = tcp.TCPServer()
        pool._tokenmanager = rec
        pool.log = log
        tman.token_interface = pool
        ctx.request_interfaces.append(tman)
        conn = tcp.TcpConnection(pool, log, loop, is_server=True)
        pool._pool.add(conn)
        tr = FakeTransport(loop, conn)
        transports.append(tr)
        conn.connection_made(tr)
    await loop.settle()
    conns = [t.get_protocol() for t in transports]
    for c in conns:
        if case.get("maxmsg") is not None:
            # "Parameter usually set statically per implementation"
            c._my_max_message_size = case["maxmsg"]
    reqs_of = [[r for r in requests if r._pipe.request.remote is c] for c in conns]

    def pend_state(rs):
        out = []
        for r in rs:
            f = r.response
            if not f.done():
                out.append("pending")
            elif f.cancelled():
                out.append("cancelled")
            elif f.exception() is not None:
                e = f.exception()
                out.append("neterr" if isinstance(e, error.NetworkError) else "err:" + type(e).__name__)
            else:
                out.append("resp")
        return out

    # one observation per connection: the same stream, in the same chunks, on each
    observations = []
    for c, t, rs in zip(conns, transports, reqs_of):
        observations.append(
            {
                "init": [list(b) for b in t.out],
                "ptoks": [list(r._pipe.request.token) for r in rs],
                "steps": [],
                "in_pool": (c in pool._pool.values()) if role == "client" else (c in pool._pool),
            }
        )
        if case.get("backlog"):
            t.start_backlog()
    nout = [len(t.out) for t in transports]
    ncall = len(rec.calls)
    stream = b"".join(bytes(f["b"]) for f in case["frames"])
    live = [True] * len(conns)
    pos = 0
    for n in case["cuts"]:
        if not any(live):
            break
        chunk = stream[pos : pos + n]
        pos += n
        excs = [""] * len(conns)
        fed = list(live)
        for i, c in enumerate(conns):
            if not live[i]:
                continue
            try:
                c.data_received(chunk)
            except Exception as e:  # asyncio would log it and tear the connection down
                excs[i] = "%s: %s" % (type(e).__name__, e)
        await loop.settle()
        new_calls = rec.calls[ncall:]
        ncall = len(rec.calls)
        for i, (c, t, rs) in enumerate(zip(conns, transports, reqs_of)):
            if not fed[i]:
                continue
            disp = [project(h, m) for h, m, r in new_calls if h in ("req", "resp") and r is c]
            nout[i] = min(nout[i], len(t.out))
            wr = [x for b in t.out[nout[i] :] for x in b]
            nout[i] = len(t.out)
            observations[i]["steps"].append({"disp": disp, "wr": wr, "closed": t.closed, "pend": pend_state(rs), "exc": excs[i]})
            if t.closed or excs[i]:
                live[i] = False
    for o, t in zip(observations, transports):
        o["late_writes"] = len(t.late)
        o["how_closed"] = t.how_closed
        o["discarded_writes"] = t.discarded
    obs = observations[0]
    obs["others"] = observations[1:]
    obs["loop_exceptions"] = [str(c.get("exception") or c.get("message")) for c in loop.exceptions]
    obs["errors_dispatched"] = [type(e).__name__ if e is not None else "None" for h, e, r in rec.calls if h == "error"]
    for r in requests:
        if not r.response.done():
            r.response.cancel()
    await loop.settle()
    return obs


def run_case(case):
    import warnings

    warnings.simplefilter("ignore")
    loop = VirtualLoop()
    asyncio.set_event_loop(loop)
    try:
        return loop.run_until_complete(_run(loop, case))
    finally:
        try:
            for t in asyncio.all_tasks(loop):
                t.cancel()
            loop.run_until_complete(asyncio.sleep(0))
        except Exception:
            pass
        loop.close()
        asyncio.set_event_loop(None)


def serialize(code, tok, opts, pay):
    """What the implementation puts on the wire for this message: through
    tcp._serialize and through a connection's _send_message."""
    require_repo()
    from aiocoap.transports import tcp

    m = build_message(code, tok, opts, pay)
    direct = tcp._serialize(m)

    class _Ctx:
        _default_port = 5683
        _scheme = "coap+tcp"

    loop = VirtualLoop()
    try:
        conn = tcp.TcpConnection(_Ctx(), logging.getLogger("coap-verif-c15"), loop, is_server=False)
        tr = FakeTransport(loop, conn)
        conn.connection_made(tr)
        n0 = len(tr.out)
        conn._send_message(build_message(code, tok, opts, pay))
        written = b"".join(tr.out[n0:])
    finally:
        loop.close()
    return direct, written
