"""C05 driver: the real block-wise client (Context.request(msg, handle_blockwise=True)
= BlockwiseRequest on the real TokenManager / MessageManager / udp6 stack, fake
socket, virtual time) against an independent RFC 7959 reference server that
lives here.

The reference server is a reactive raw-datagram peer (own codec: harness/wire.py).
It answers every request datagram the SUT sends: assembles Block1 payloads by
[offset, offset+len) intervals, serves Block2 slices of a representation that
carries an ETag, and takes its environment decisions from the schedule.

A schedule describes one transfer (the per-transfer fields at top level) or
several concurrent ones from the same client context to the same server
("transfers": [per-transfer fields, ...], "order": [transfer index, ...]).

per-transfer fields = {
  "code":  request method (1 GET, 2 POST, 3 PUT, 5 FETCH),
  "N":     request body length,   "C": client maximum block size exponent (remote.maximum_block_size_exp),
  "reps":  [{"len": M, "etag": bool}, {"len": M', "etag": True}]   representation 1 and (after an ETag change) 2,
  "s1":    [szx, ...]   size exponent the server uses in its k-th Block1 acknowledgement (clamped to the request's; last repeats),
  "s2":    [szx, ...]   size exponent of the k-th Block2 response (clamped to the requested one; last repeats),
  "ack":   ["a"|"s", ...]   how the k-th Block1 request that is not the last one is acknowledged (last repeats):
                        "a" atomic style: 2.31 Continue, Block1 n/M=1/szx;
                        "s" stateless style (RFC 7959 2.5/2.9.1): the block is written at its offset and acknowledged on
                        its own with "ackcode" (2.04 or 2.01), Block1 n/M=0/szx; the body is complete when the block
                        with the request's M=0 has arrived.  ["a"] atomic, ["s"] stateless, anything else mixed,
  "ackcode": 68 | 65,
  "query": ["v=2", ...] | None, "accept": n | None      further options of the request (part of its cache key),
  "b2req": szx | None     the application's request carries Block2 0/0/szx (the client's own first Block2 request),
  "fault": None | {"kind": ..., "nth": n, ...}    see below,
  "con":   bool
}
top level only = {
  "mid0", "tok0",
  "net":   {"<i>": fate}   fate of the i-th request datagram the SUT sends (1-based, over all transfers):
           "dropreq" | "dropresp" | "dupresp" | "dupreq" |
           "slow"  the response is delivered SLOW units later (after the first retransmission of a CON request, which
                   is answered as well: two copies arrive, the older one last),
           "late"  a second copy of the response is delivered LATE units later (in the middle of later exchanges),
  "lossy": {"p": probability, "seed": n, "maxrun": k}   every request datagram without an explicit fate draws one with
           probability p (seeded); no exchange loses more than k transmissions (k <= MAX_RETRANSMIT),
  "order": [t, t, ...]   with several transfers: the transfer whose pending request the server answers next (a request
           waits until it is its transfer's turn, but no longer than WAIT units -- confirmable requests leave the
           client one at a time (NSTART = 1), so only non-confirmable transfers have requests pending side by side;
           transfers that have completed are skipped; afterwards first come first served),
  "dedup": bool   (the server answers a repeated message ID from its response cache, RFC 7252 4.5)
  "horizon": virtual seconds
}

Faults ("kind"):
  b1num / b1numlo: the acknowledgement names NUM+1 / NUM-1 (lo: only where NUM > 0);
  b1more / b1cont: more-flag / 2.31 on the final acknowledgement;
  b2num / b2numlo: the right bytes under NUM+1 / NUM-1;  b2skip / b2prev: the next / the previous block is
  served instead of the requested one (number and bytes consistent; prev: only from the second block on);
  etag: representation 2 from the n-th Block2 response on; whether representation 1 / 2 carry an ETag is
  reps[i]["etag"] (independent: ETag/ETag, none/ETag, ETag/none, none/none); a representation 2 that ends at or
  before the offset asked for is answered with 4.00 (x = "shrunk");
  b2short / b2empty / b2over ("short": bytes, "over": "one"|"double", "repeat": bool): a Block2 block that announces
  more blocks (M=1) but carries 1..size-1 bytes / no payload at all / more than its size (size+1, or two whole
  blocks; only where two more blocks exist); with "repeat" the server keeps doing that on every later such block;
  e1 ("ecode", "echo": bool, "hint": szx | None, "size1": n | None, "elen"): the n-th Block1 request is not written
  but answered with the error response ecode (4.08, 4.13, 4.00, 5.xx; diagnostic payload of elen bytes), with the
  Block1 option echoed (NUM / M=0 / hint or the usual exponent) or without, 4.13 possibly with a Size1 hint; the
  server forgets the body under assembly;
  e2 ("ecode", "elen"): the n-th Block2 occasion, if it is a continuation request, is answered with that error;
  etsome: from the n-th Block2 occasion (continuations only) on the ETag of the *same* representation is flipped
  (present -> absent, absent -> present): ETag on some blocks only;
  b2grow: a Block2 request (continuation, or the application's own Block2 0/0/szx) is answered one size exponent
  *above* the requested one (only where the offset is a multiple of the larger size and szx < 6): the bytes are the
  right ones, the server violates "never larger than requested";
  b1grow: the acknowledgement of a Block1 request that is not the last one names the exponent above the request's;
  b2big ("by": exponent steps, default up to 6): "restart bigger" -- a continuation request whose offset is no
  multiple of the next larger block size is answered with the block of a larger size (requested exponent + by,
  at most 6) that contains that offset: NUM = floor(offset / larger size), bytes and more-flag consistent with
  that number -- the block starts before the offset asked for (wrong block number), final or not.

Occasions: Block1 acknowledgements and Block2 responses (a response carrying a
Block2 option, or the first response of the representation) are counted from 0
over the requests the server processes for that transfer; a fault fires on the
first applicable occasion with count >= nth whose response is going to be
delivered, once.

Requests are attributed to a transfer by their Uri-Path (one transfer: c05;
several: c05/t<i>) -- an RFC 7959 server keyed by the request can do no
better, the client uses no Request-Tag.  Transfer i (1-based `tr`) has its own
canonical strings: request body cid 0x5a+i-1, representations 0xa1/0xb2 + 2(i-1),
diagnostic payloads 0xc3+i-1.

Events are uniform records (FIELDS).  Bodies are self-describing (drive.canon)."""

import asyncio
import random as _random

from . import wire
from .sut import World
from .fakenet import sockaddr
from .drive import canon, identify, units

REQ_CID = 0x5A
REP_CIDS = (0xA1, 0xB2)
ERR_CID = 0xC3
DELAY = 2  # units of 2**-10 s between a request datagram and the server's answer
SLOW = 2560  # 2.5 s: after the first retransmission (ACK_TIMEOUT 2 s, random factor pinned to 1)
LATE = 9 * 1024
WAIT = 2 * DELAY + 1  # how long a request waits for the turn of its transfer (its predecessor's answer takes DELAY)

FIELDS = {
    "k": "", "t": 0, "q": 0, "code": 0,
    "b1n": -1, "b1m": -1, "b1s": -1, "b2n": -1, "b2m": -1, "b2s": -1,
    "plen": 0, "cid": -1, "off": -1, "cok": True,
    "size1": -1, "len": -1, "etag": -1, "rid": 0, "rt": False, "x": "", "c": -1,
    "rk": 0,   # req: 1 = same method and options (all but Block1/Block2/Size1/Size2) as the first request, 2.. = others
    "tr": 1,   # the transfer the event belongs to (1-based)
    "pok": True,  # done: every 8-byte cell of the returned body is the cell at that position of one of the transfer's
                  # representations (a body mixed from two representations at a block boundary still has this)
}

NOT_IN_KEY = (wire.BLOCK1, wire.BLOCK2, wire.SIZE1, wire.SIZE2)
LEN_FAULTS = ("b2short", "b2empty", "b2over")
ENV_ERRORS = ("e1", "e2", "shrunk")


def size_of(szx):
    return 2 ** (min(szx, 6) + 4)


def locate(payload, cids, hint):
    """(cid, off, consistent): which canonical string the payload is a slice of, and where."""
    n = len(payload)
    if n == 0:
        return -1, -1, True
    for cid in cids:
        if canon(cid, hint, n) == bytes(payload):
            return cid, hint, True
    cid, off, cok = identify(payload, hint)
    return cid, off, cok


def cells_ok(body, cids):
    """every 8-byte cell (the last one possibly partial) is the cell at that position of one of the canonical strings"""
    n = len(body)
    if n == 0:
        return True
    cands = [canon(c, 0, n) for c in cids]
    for i in range(0, n, 8):
        if not any(c[i : i + 8] == body[i : i + 8] for c in cands):
            return False
    return True


def transfers_of(sched):
    if sched.get("transfers"):
        return [dict(t) for t in sched["transfers"]], True
    keys = ("code", "N", "C", "reps", "s1", "s2", "ack", "ackcode", "query", "accept", "fault", "con", "b2req")
    return [{k: sched[k] for k in keys if k in sched}], False


class Transfer:
    """What the reference server knows about one transfer (keyed by the request's Uri-Path)."""

    def __init__(self, idx, d, multi):
        self.idx = idx
        self.tr = idx + 1
        self.d = d
        self.path = ["c05", "t%d" % idx] if multi else ["c05"]
        self.reqcid = REQ_CID + idx
        self.repcids = (REP_CIDS[0] + 2 * idx, REP_CIDS[1] + 2 * idx)
        self.errcid = ERR_CID + idx
        self.N = d["N"]
        self.C = d["C"]
        self.reps = d.get("reps") or [{"len": 0, "etag": True}]
        self.s1 = list(d.get("s1") or [6])
        self.s2 = list(d.get("s2") or [6])
        self.ackstyle = list(d.get("ack") or ["a"])
        self.ackcode = d.get("ackcode", wire.CHANGED)
        self.fault = dict(d["fault"]) if d.get("fault") else None
        self.body = None      # bytearray under assembly (Block1)
        self.rep = None       # current representation {rid, cid, len, etag}
        self.nb1 = 0
        self.nb2 = 0
        self.fired = None
        self.keys = []        # distinct (method, options) of the requests seen, in order of appearance
        self.same = 0
        self.lastoff = None
        self.flooded = False
        self.done = False
        self.etflip = False


def run(sched):
    w = World(mid0=sched.get("mid0", 0), tok0=sched.get("tok0", 0))
    events = []
    frozen = []
    state = {"sock": None}

    def ev(k, **kw):
        if frozen:
            return None
        e = dict(FIELDS)
        e["k"] = k
        e["t"] = units(w.loop)
        e.update(kw)
        events.append(e)
        return e

    tds, multi = transfers_of(sched)
    trs = [Transfer(i, d, multi) for i, d in enumerate(tds)]
    bypath = {tuple(t.path): t for t in trs}
    net = {int(k): v for k, v in (sched.get("net") or {}).items()}
    lossy = sched.get("lossy")
    lrng = _random.Random(lossy.get("seed", 0)) if lossy else None
    dedup = sched.get("dedup", True)
    order = list(sched.get("order") or [])

    # ---------------------------------------------------------------- reference server
    srv = {
        "cache": {},       # (mid, token) -> (datagram, fields)
        "delivered": set(),
        "seen": [],        # datagrams the SUT sent
        "lostrun": {},     # (mid, token) -> transmissions of that exchange lost so far (lossy mode)
        "pending": [],     # requests waiting for their transfer's turn: (transfer, decoded message, datagram index)
    }

    def pick(lst, i):
        return lst[i] if i < len(lst) else lst[-1]

    def new_rep(T, idx):
        d = T.reps[idx] if idx < len(T.reps) else {"len": T.reps[-1]["len"] + 7, "etag": True}
        rid = idx + 1
        rep = {"rid": rid, "cid": T.repcids[idx], "len": d["len"], "etag": (0xE0 + rid) if d.get("etag", True) else -1}
        T.rep = rep
        ev("rep", tr=T.tr, rid=rid, len=rep["len"], cid=rep["cid"], etag=rep["etag"])

    def fault_wants(T, kind, count, deliverable):
        fault = T.fault
        if fault is None or not deliverable or fault["kind"] != kind:
            return False
        if T.fired is not None and not (fault.get("repeat") and kind in LEN_FAULTS):
            return False
        return count >= fault.get("nth", 0)

    def error_response(T, kind, f, options=()):
        fault = T.fault
        elen = fault.get("elen", 0)
        out = canon(T.errcid, 0, elen)
        T.fired = kind
        return fault.get("ecode", wire.code(4, 8)), list(options), out, dict(f, x=kind, cid=T.errcid if elen else -1, off=0 if elen else -1)

    def process(T, m, deliverable):
        """One request as an RFC 7959 server sees it -> (code, options, payload, fields)."""
        b1 = wire.opt(m, wire.BLOCK1)
        b2 = wire.opt(m, wire.BLOCK2)
        payload = m["payload"]
        fault = T.fault
        f = {}
        options = []
        final = True
        x = ""
        if b1 is not None:
            num, more, szx = wire.unblock(b1)
            size = size_of(szx)
            off = num * size
            if szx > 6:
                return wire.code(4, 0), [], b"", {"x": "bad-szx"}
            if more and len(payload) != size:
                return wire.code(4, 0), [], b"", {"x": "bad-size"}
            count = T.nb1
            if fault_wants(T, "e1", count, deliverable):
                # the server cannot (4.13, 5.03) or will not (4.08, 4.00, 5.00) take this block: nothing is written,
                # the body under assembly is forgotten
                T.nb1 += 1
                T.body = None
                eopts = []
                if fault.get("echo"):
                    hint = fault.get("hint")
                    aszx = min(szx, pick(T.s1, count)) if hint is None else hint
                    f.update(b1n=num, b1m=0, b1s=aszx)
                    eopts.append((wire.BLOCK1, wire.block(num, False, aszx)))
                if fault.get("size1") is not None:
                    f.update(size1=fault["size1"])
                    eopts.append((wire.SIZE1, wire.uint(fault["size1"])))
                return error_response(T, "e1", f, eopts)
            if off == 0:
                T.body = bytearray()
            if T.body is None or off > len(T.body):
                return wire.code(4, 8), [], b"", {"x": "incomplete"}
            T.body[off : off + len(payload)] = payload
            T.nb1 += 1
            aszx = min(szx, pick(T.s1, count))
            anum, amore = num, more
            if fault_wants(T, "b1num", count, deliverable):
                anum, x = num + 1, "b1num"
                T.fired = x
            if not x and num > 0 and fault_wants(T, "b1numlo", count, deliverable):
                anum, x = num - 1, "b1numlo"
                T.fired = x
            if not x and more and szx < 6 and fault_wants(T, "b1grow", count, deliverable):
                aszx, x = szx + 1, "b1grow"
                T.fired = x
            if more and pick(T.ackstyle, count) == "s":
                # stateless style: this block has been enacted on its own
                f.update(b1n=anum, b1m=0, b1s=aszx)
                return T.ackcode, [(wire.BLOCK1, wire.block(anum, False, aszx))], b"", dict(f, x=x)
            if more:
                f.update(b1n=anum, b1m=1, b1s=aszx)
                return wire.CONTINUE, [(wire.BLOCK1, wire.block(anum, True, aszx))], b"", dict(f, x=x)
            del T.body[off + len(payload) :]
            body = bytes(T.body)
            cid, _, cok = locate(body, [T.reqcid], 0)
            ev("asm", tr=T.tr, len=len(body), cid=cid, cok=cok and (len(body) == 0 or cid == T.reqcid))
            if not x and fault_wants(T, "b1more", 10**6, deliverable):
                amore, x = True, "b1more"
                T.fired = x
            cont = False
            if not x and fault_wants(T, "b1cont", 10**6, deliverable):
                cont, x = True, "b1cont"
                T.fired = x
            f.update(b1n=anum, b1m=int(amore), b1s=aszx)
            options.append((wire.BLOCK1, wire.block(anum, amore, aszx)))
            if cont:
                return wire.CONTINUE, options, b"", dict(f, x=x)
        elif b2 is None or (wire.unblock(b2)[0] == 0 and T.rep is None):
            body = bytes(payload)
            cid, _, cok = locate(body, [T.reqcid], 0)
            ev("asm", tr=T.tr, len=len(body), cid=cid, cok=cok and (len(body) == 0 or cid == T.reqcid))
        else:
            final = False  # a Block2 continuation (also: block 0 asked for again)
        if final:
            new_rep(T, 0)
        if T.rep is None:
            return wire.code(4, 8), [], b"", {"x": "no-representation"}
        # ---- serve the representation
        count = T.nb2
        T.nb2 += 1
        if not final and not x and fault_wants(T, "e2", count, deliverable):
            return error_response(T, "e2", {})
        if not final and not x and fault_wants(T, "etag", count, deliverable):
            new_rep(T, 1)
            x = "etag"
            T.fired = x
        if not final and not x and fault_wants(T, "etsome", count, deliverable):
            T.etflip = True
            x = "etsome"
            T.fired = x
        if not final and not x and T.rep["rid"] == 1 and keyno(T, m) != 1:
            # a continuation that asks for something else than the request did (other method / options): an RFC 7959
            # server answers it from what *it* asks for -- another representation
            new_rep(T, 1)
            x = "otherkey"
        rep = T.rep
        M = rep["len"]
        want = pick(T.s2, count)
        grow = False
        if b2 is not None:
            rnum, _, rszx = wire.unblock(b2)
            if rszx > 6:
                return wire.code(4, 0), [], b"", {"x": "bad-szx"}
            szx = min(want, rszx)
            off = rnum * size_of(rszx)
            if not x and rszx < 6 and off % size_of(rszx + 1) == 0 and off < M and fault_wants(T, "b2grow", count, deliverable):
                szx = rszx + 1
                grow = True
                x = "b2grow"
                T.fired = x
        else:
            szx = want
            off = 0
        big = False
        if b2 is not None and not x and not final and rszx < 6 and off % size_of(rszx + 1) != 0 and off < M \
                and fault_wants(T, "b2big", count, deliverable):
            # "restart bigger": the block of a larger size that contains the offset asked for -- it starts before it
            szx = min(6, rszx + max(1, fault.get("by", 6)))
            off = (off // size_of(szx)) * size_of(szx)
            big = True
            x = "b2big"
            T.fired = x
        size = size_of(szx)
        code = wire.CONTENT if m["code"] in (1, 5) else wire.CHANGED
        etag = rep["etag"]
        if T.etflip:
            etag = -1 if etag >= 0 else 0xE0 + rep["rid"]
        if etag >= 0:
            options.append((wire.ETAG, bytes([etag])))
        f.update(etag=etag, rid=rep["rid"])
        if b2 is None and M <= size:
            out = canon(rep["cid"], 0, M)
            return code, options, out, dict(f, x=x, cid=rep["cid"] if M else -1, off=0 if M else -1)
        if off >= M and not (off == 0 and M == 0):
            # (the Block1 option of a final block whose representation cannot be served this way is dropped too)
            return wire.code(4, 0), [], b"", {"x": "shrunk" if x == "etag" else "beyond-end"}
        num = off // size
        more = off + size < M
        plen = min(size, M - off)
        if not x and more and fault_wants(T, "b2skip", count, deliverable):
            off += size
            num += 1
            more = off + size < M
            plen = min(size, M - off)
            x = "b2skip"
            T.fired = x
        if not x and fault_wants(T, "b2num", count, deliverable):
            num += 1
            x = "b2num"
            T.fired = x
        if not x and num > 0 and fault_wants(T, "b2numlo", count, deliverable):
            num -= 1
            x = "b2numlo"
            T.fired = x
        if not x and off >= size and fault_wants(T, "b2prev", count, deliverable):
            off -= size
            num = off // size
            more = True
            plen = size
            x = "b2prev"
            T.fired = x
        if not x and more and fault_wants(T, "b2short", count, deliverable):
            plen = max(1, min(size - 1, fault.get("short", size - 1)))
            x = "b2short"
            T.fired = x
        if not x and more and fault_wants(T, "b2empty", count, deliverable):
            plen = 0
            x = "b2empty"
            T.fired = x
        if not x and off + 2 * size < M and fault_wants(T, "b2over", count, deliverable):
            plen = 2 * size if fault.get("over") == "double" else size + 1
            x = "b2over"
            T.fired = x
        out = canon(rep["cid"], off, plen)
        options.append((wire.BLOCK2, wire.block(num, more, szx)))
        f.update(b2n=num, b2m=int(more), b2s=szx, cid=rep["cid"] if plen else -1, off=off if plen else -1)
        return code, options, out, dict(f, x=x)

    def keyno(T, m):
        key = (m["code"], tuple((n, v) for n, v in m["options"] if n not in NOT_IN_KEY))
        if key not in T.keys:
            T.keys.append(key)
        return T.keys.index(key) + 1

    def transfer_of(m):
        return bypath.get(tuple(v.decode("utf8", "replace") for v in wire.opts(m, wire.URI_PATH)), trs[0])

    def inject(data):
        w.net.inject(state["sock"], data, sockaddr(1))

    def deliver(data, rf, key, delay, at_delivery=False, dup=False):
        """hand a response datagram to the network; the `resp` event is recorded when the server sends it (the
        network delivers in order DELAY later) or, for slow / late copies, when it arrives"""
        if at_delivery:
            def arrive():
                ev("resp", **dict(rf, rt=key in srv["delivered"]))
                srv["delivered"].add(key)
                inject(data)

            w.loop.call_later(delay / 1024.0, arrive)
        else:
            ev("resp", **dict(rf, rt=dup or key in srv["delivered"]))
            srv["delivered"].add(key)
            w.loop.call_later(delay / 1024.0, inject, data)

    def respond(T, m, deliverable):
        code, options, payload, rf = process(T, m, deliverable)
        rf = dict(rf, code=code, plen=len(payload), q=1, tr=T.tr)
        ty = wire.ACK if m["type"] == wire.CON else wire.NON
        mid = m["mid"] if m["type"] == wire.CON else (m["mid"] + 0x4000) & 0xFFFF
        return wire.encode(ty, code, mid, m["token"], options, payload), rf

    def fate_of(i, key):
        fate = net.get(i)
        if fate is not None:
            return fate
        if lossy and lrng.random() < lossy.get("p", 0.2):
            fate = lrng.choice(["dropreq", "dropresp", "dupresp", "dupreq", "slow", "late"])
            if fate in ("dropreq", "dropresp"):
                if srv["lostrun"].get(key, 0) >= lossy.get("maxrun", 3):
                    return "ok"
                srv["lostrun"][key] = srv["lostrun"].get(key, 0) + 1
            return fate
        return "ok"

    def serve(T, m, i):
        key = (m["mid"], m["token"])
        fate = fate_of(i, key)
        if fate in ("dropreq", "dropresp", "slow") and m["type"] != wire.CON:
            fate = "ok" if fate != "slow" else "slowdeliver"    # nothing retransmits a NON request: it is only delayed
        if fate == "dropreq":
            ev("lost", tr=T.tr, x="req")
            return
        deliverable = fate != "dropresp"
        if dedup and key in srv["cache"]:
            data, rf = srv["cache"][key]
        else:
            data, rf = respond(T, m, deliverable)
            srv["cache"][key] = (data, rf)
        if fate == "dropresp":
            ev("lost", **rf)
            return
        if fate in ("slow", "slowdeliver"):
            deliver(data, rf, key, SLOW, at_delivery=True)
            return
        deliver(data, rf, key, DELAY)
        if fate == "dupresp":
            deliver(data, rf, key, DELAY + 1, dup=True)
        elif fate == "late":
            deliver(data, rf, key, LATE, at_delivery=True)
        elif fate == "dupreq":
            data2, rf2 = (data, rf) if dedup else respond(T, m, True)
            deliver(data2, rf2, key, DELAY + 1, dup=True)

    def wake():
        srv["wake"] = None
        pump(force=True)

    def pump(force=False):
        """answer pending requests: the transfer named next in `order` first, first come first served afterwards.
        A request waits for the turn of its transfer at most WAIT units: the request of the transfer named next may be
        unable to come (confirmable requests to one peer leave the client one at a time, NSTART = 1)."""
        while srv["pending"]:
            while order and trs[order[0] % len(trs)].done and not any(p[0] is trs[order[0] % len(trs)] for p in srv["pending"]):
                order.pop(0)
            pos = 0
            if order:
                T = trs[order[0] % len(trs)]
                pos = next((j for j, p in enumerate(srv["pending"]) if p[0] is T), None)
                if pos is None:
                    if not force:
                        if srv.get("wake") is None:
                            srv["wake"] = w.loop.call_later(WAIT / 1024.0, wake)
                        return      # its next request is on the way (or its completion will skip it)
                    pos = 0
                else:
                    order.pop(0)
            force = False
            if srv.get("wake") is not None:
                srv["wake"].cancel()      # (the patience starts anew with every answer)
                srv["wake"] = None
            T, m, i = srv["pending"].pop(pos)
            serve(T, m, i)

    def on_sent(rec):
        try:
            m = wire.decode(rec["data"])
        except wire.ParseError:
            ev("req", x="unparsable")
            return
        if not (1 <= m["code"] < 32):
            ev("other", code=m["code"], x=wire.TYPE_NAMES[m["type"]])
            return
        T = transfer_of(m)
        if wire.opt(m, wire.REQUEST_TAG) is not None:
            srv["rtag"] = srv.get("rtag", 0) + 1
        rt = rec["data"] in srv["seen"]
        srv["seen"].append(rec["data"])
        i = len(srv["seen"])
        f = {}
        b1 = wire.opt(m, wire.BLOCK1)
        b2 = wire.opt(m, wire.BLOCK2)
        hint = 0
        if b1 is not None:
            n_, m_, s_ = wire.unblock(b1)
            f.update(b1n=n_, b1m=int(m_), b1s=s_)
            hint = n_ * size_of(s_)
        if b2 is not None:
            n_, m_, s_ = wire.unblock(b2)
            f.update(b2n=n_, b2m=int(m_), b2s=s_)
        cid, off, cok = locate(m["payload"], [T.reqcid], hint)
        sz1 = wire.opt(m, wire.SIZE1)
        ev("req", tr=T.tr, q=1, code=m["code"], plen=len(m["payload"]), cid=cid, off=off, cok=cok, rt=rt, rk=keyno(T, m),
           size1=-1 if sz1 is None else wire.from_uint(sz1), **f)
        # a client that keeps asking for the same block is cut off: no more answers (it then runs into its timeout)
        if b2 is not None and b1 is None and not rt:
            o2 = f["b2n"] * size_of(f["b2s"])
            T.same = T.same + 1 if T.lastoff == o2 else 0
            T.lastoff = o2
        if T.same > 4 or i > 4000:
            if not T.flooded:
                ev("flood", tr=T.tr, x="same-block" if T.same > 4 else "datagrams")
            T.flooded = True
            return
        if rt and order and any(p[0] is T for p in srv["pending"]):
            # a retransmission of a request that is still waiting for its turn: the waiting one will be answered
            return
        srv["pending"].append((T, m, i))
        pump()

    w.net.on_sent = on_sent

    async def main():
        from aiocoap import Message
        from aiocoap.numbers.codes import Code
        from aiocoap.numbers.constants import TransportTuning

        ctx = await w.make_context(site=None)
        state["sock"] = ctx._verif["sock"]
        for T in trs:
            d = T.d
            kw = {}
            if not d.get("con", True):
                kw["transport_tuning"] = type("VT", (TransportTuning,), {"reliability": False})()
            if d.get("query"):
                kw["uri_query"] = tuple(d["query"])
            if d.get("accept") is not None:
                kw["accept"] = d["accept"]
            if d.get("b2req") is not None:
                kw["block2"] = (0, False, d["b2req"])
            msg = Message(code=Code(d.get("code", 2)), uri_path=T.path, payload=canon(T.reqcid, 0, T.N), **kw)
            msg.remote = w.remote(ctx, 1)
            msg.remote.maximum_block_size_exp = T.C
            ev("submit", tr=T.tr, q=1, code=int(msg.code), len=T.N, cid=T.reqcid if T.N else -1, c=T.C)
            req = ctx.request(msg, handle_blockwise=True)

            def done_cb(fut, T=T):
                T.done = True
                if fut.cancelled():
                    ev("done", tr=T.tr, q=1, x="cancelled")
                elif fut.exception() is not None:
                    ev("done", tr=T.tr, q=1, x=type(fut.exception()).__name__)
                else:
                    res = fut.result()
                    body = bytes(res.payload)
                    cid, off, cok = locate(body, list(T.repcids) + [T.errcid], 0)
                    ev("done", tr=T.tr, q=1, x="resp", code=int(res.code), len=len(body), plen=len(body), cid=cid, off=off,
                       cok=cok and (len(body) == 0 or off == 0), pok=cells_ok(body, T.repcids))
                if srv["pending"]:
                    pump()

            req.response.add_done_callback(done_cb)
        await w.loop.settle()
        await w.loop.drain(horizon=sched.get("horizon", 300))
        for c in w.loop.exceptions:
            exc = c.get("exception")
            ev("loopexc", x=type(exc).__name__ if exc is not None else "message")
        ev("end")
        frozen.append(True)
        meta = {
            "loop_exceptions": [repr(c.get("exception") or c.get("message")) for c in w.loop.exceptions],
            "log_errors": [r.getMessage() for r in w.logcap.errors()],
            "fault_fired": trs[0].fired if not multi else [T.fired for T in trs],
            "datagrams": len(srv["seen"]),
            "request_tag_datagrams": srv.get("rtag", 0),
        }
        try:
            await asyncio.wait_for(ctx.shutdown(), 10)
        except Exception:
            pass
        return meta

    try:
        meta = w.run(main())
    finally:
        w.close()
    return {"events": events, "meta": meta}


def run_safe(s):
    try:
        return run(s)
    except Exception:
        import traceback

        return {"error": traceback.format_exc()}


def run_all(scheds, procs=16):
    import os
    from multiprocessing import Pool

    if not scheds:
        return []
    if len(scheds) < 24:
        return [run_safe(s) for s in scheds]
    with Pool(min(procs, os.cpu_count() or 4)) as p:
        return p.map(run_safe, scheds, chunksize=max(1, len(scheds) // 64))
