"""C05 driver: the real block-wise client (Context.request(msg, handle_blockwise=True)
= BlockwiseRequest on the real TokenManager / MessageManager / udp6 stack, fake
socket, virtual time) against an independent RFC 7959 reference server that
lives here.

The reference server is a reactive raw-datagram peer (own codec: harness/wire.py).
It answers every request datagram the SUT sends: assembles Block1 payloads by
[offset, offset+len) intervals, serves Block2 slices of a representation that
carries an ETag, and takes its environment decisions from the schedule.

schedule = {
  "mid0", "tok0",
  "code":  request method (1 GET, 2 POST, 3 PUT, 5 FETCH),
  "N":     request body length,   "C": client maximum block size exponent (remote.maximum_block_size_exp),
  "reps":  [{"len": M, "etag": bool}, {"len": M', "etag": True}]   representation 1 and (after an ETag change) 2,
  "s1":    [szx, ...]   size exponent the server uses in its k-th Block1 acknowledgement (clamped to the request's; last repeats),
  "s2":    [szx, ...]   size exponent of the k-th Block2 response (clamped to the requested one; last repeats),
  "ack":   ["a"|"s", ...]   how the k-th Block1 request that is not the last one is acknowledged (last repeats):
                        "a" atomic style: 2.31 Continue, Block1 n/M=1/szx;
                        "s" stateless style (RFC 7959 2.5/2.9.1): the block is written at its offset and acknowledged on
                        its own with "ackcode" (2.04 or 2.01), Block1 n/M=0/szx; the body is complete when the block
                        with the request's M=0 has arrived.  ["a"] atomic, ["s"] stateless, anything else mixed,
  "ackcode": 68 | 65,
  "net":   {"<i>": "dropreq"|"dropresp"|"dupresp"|"dupreq"}   fate of the i-th request datagram the SUT sends (1-based),
  "query": ["v=2", ...] | None, "accept": n | None      further options of the request (part of its cache key),
  "fault": None | {"kind": "b1num"|"b1numlo"|"b1more"|"b1cont"|"b2num"|"b2numlo"|"b2skip"|"b2prev"|"b2short"|"b2empty"|
                           "b2over"|"etag", "nth": n,
           b1num / b1numlo: the acknowledgement names NUM+1 / NUM-1 (lo: only where NUM > 0);
           b2num / b2numlo: the right bytes under NUM+1 / NUM-1;  b2skip / b2prev: the next / the previous block is
           served instead of the requested one (number and bytes consistent; prev: only from the second block on);
           etag: representation 2 from the n-th Block2 response on; whether representation 1 / 2 carry an ETag is
           reps[i]["etag"] (independent: ETag/ETag, none/ETag, ETag/none, none/none),
                   "short": bytes, "over": "one"|"double", "repeat": bool},
           b2short / b2empty / b2over: a Block2 block that announces more blocks (M=1) but carries 1..size-1 bytes /
           no payload at all / more than its size (size+1, or two whole blocks; only where two more blocks exist);
           with "repeat" the server keeps doing that on every later such block,
  "dedup": bool   (the server answers a repeated message ID from its response cache, RFC 7252 4.5)
  "con":   bool
}

Occasions: Block1 acknowledgements and Block2 responses (a response carrying a
Block2 option, or the first response of the representation) are counted from 0
over the requests the server processes; a fault fires on the first applicable
occasion with count >= nth whose response is going to be delivered, once.

Events are uniform records (FIELDS).  Bodies are self-describing (drive.canon)."""

import asyncio

from . import wire
from .sut import World
from .fakenet import sockaddr
from .drive import canon, identify, units

REQ_CID = 0x5A
REP_CIDS = (0xA1, 0xB2)
DELAY = 2  # units of 2**-10 s between a request datagram and the server's answer

FIELDS = {
    "k": "", "t": 0, "q": 0, "code": 0,
    "b1n": -1, "b1m": -1, "b1s": -1, "b2n": -1, "b2m": -1, "b2s": -1,
    "plen": 0, "cid": -1, "off": -1, "cok": True,
    "size1": -1, "len": -1, "etag": -1, "rid": 0, "rt": False, "x": "", "c": -1,
    "rk": 0,   # req: 1 = same method and options (all but Block1/Block2/Size1/Size2) as the first request, 2.. = others
}

NOT_IN_KEY = (wire.BLOCK1, wire.BLOCK2, wire.SIZE1, wire.SIZE2)


def size_of(szx):
    return 2 ** (min(szx, 6) + 4)


def locate(payload, cids, hint):
    """(cid, off, consistent): which canonical string the payload is a slice of, and where."""
    n = len(payload)
    if n == 0:
        return -1, -1, True
    for cid in cids:
        if canon(cid, hint, n) == bytes(payload):
            return cid, hint, True
    cid, off, cok = identify(payload, hint)
    return cid, off, cok


def run(sched):
    w = World(mid0=sched.get("mid0", 0), tok0=sched.get("tok0", 0))
    events = []
    frozen = []
    state = {"sock": None}

    def ev(k, **kw):
        if frozen:
            return None
        e = dict(FIELDS)
        e["k"] = k
        e["t"] = units(w.loop)
        e.update(kw)
        events.append(e)
        return e

    N = sched["N"]
    C = sched["C"]
    reps = sched.get("reps") or [{"len": 0, "etag": True}]
    s1 = list(sched.get("s1") or [6])
    s2 = list(sched.get("s2") or [6])
    ackstyle = list(sched.get("ack") or ["a"])
    ackcode = sched.get("ackcode", wire.CHANGED)
    net = {int(k): v for k, v in (sched.get("net") or {}).items()}
    fault = dict(sched["fault"]) if sched.get("fault") else None
    dedup = sched.get("dedup", True)

    # ---------------------------------------------------------------- reference server
    srv = {
        "body": None,      # bytearray under assembly (Block1)
        "rep": None,       # current representation {rid, cid, len, etag}
        "nb1": 0, "nb2": 0,
        "cache": {},       # (mid, token) -> (datagram, fields)
        "delivered": set(),
        "seen": [],        # datagrams the SUT sent
        "fired": None,
        "keys": [],        # distinct (method, options) of the requests seen, in order of appearance
    }

    def pick(lst, i):
        return lst[i] if i < len(lst) else lst[-1]

    def new_rep(idx):
        d = reps[idx] if idx < len(reps) else {"len": reps[-1]["len"] + 7, "etag": True}
        rid = idx + 1
        rep = {"rid": rid, "cid": REP_CIDS[idx], "len": d["len"], "etag": (0xE0 + rid) if d.get("etag", True) else -1}
        srv["rep"] = rep
        ev("rep", rid=rid, len=rep["len"], cid=rep["cid"], etag=rep["etag"])

    def fault_wants(kind, count, deliverable):
        if fault is None or not deliverable or fault["kind"] != kind:
            return False
        if srv["fired"] is not None and not (fault.get("repeat") and kind in ("b2short", "b2empty", "b2over")):
            return False
        return count >= fault.get("nth", 0)

    def fire(kind):
        srv["fired"] = kind

    def process(m, deliverable):
        """One request as an RFC 7959 server sees it -> (code, options, payload, fields)."""
        b1 = wire.opt(m, wire.BLOCK1)
        b2 = wire.opt(m, wire.BLOCK2)
        payload = m["payload"]
        f = {}
        options = []
        final = True
        x = ""
        if b1 is not None:
            num, more, szx = wire.unblock(b1)
            size = size_of(szx)
            off = num * size
            if szx > 6:
                return wire.code(4, 0), [], b"", {"x": "bad-szx"}
            if more and len(payload) != size:
                return wire.code(4, 0), [], b"", {"x": "bad-size"}
            if off == 0:
                srv["body"] = bytearray()
            if srv["body"] is None or off > len(srv["body"]):
                return wire.code(4, 8), [], b"", {"x": "incomplete"}
            srv["body"][off : off + len(payload)] = payload
            count = srv["nb1"]
            srv["nb1"] += 1
            aszx = min(szx, pick(s1, count))
            anum, amore = num, more
            if fault_wants("b1num", count, deliverable):
                anum, x = num + 1, "b1num"
                fire(x)
            if not x and num > 0 and fault_wants("b1numlo", count, deliverable):
                anum, x = num - 1, "b1numlo"
                fire(x)
            if more and pick(ackstyle, count) == "s":
                # stateless style: this block has been enacted on its own
                f.update(b1n=anum, b1m=0, b1s=aszx)
                return ackcode, [(wire.BLOCK1, wire.block(anum, False, aszx))], b"", dict(f, x=x)
            if more:
                f.update(b1n=anum, b1m=1, b1s=aszx)
                return wire.CONTINUE, [(wire.BLOCK1, wire.block(anum, True, aszx))], b"", dict(f, x=x)
            del srv["body"][off + len(payload) :]
            body = bytes(srv["body"])
            cid, _, cok = locate(body, [REQ_CID], 0)
            ev("asm", len=len(body), cid=cid, cok=cok and (len(body) == 0 or cid == REQ_CID))
            if not x and fault_wants("b1more", 10**6, deliverable):
                amore, x = True, "b1more"
                fire(x)
            cont = False
            if not x and fault_wants("b1cont", 10**6, deliverable):
                cont, x = True, "b1cont"
                fire(x)
            f.update(b1n=anum, b1m=int(amore), b1s=aszx)
            options.append((wire.BLOCK1, wire.block(anum, amore, aszx)))
            if cont:
                return wire.CONTINUE, options, b"", dict(f, x=x)
        elif b2 is None or (wire.unblock(b2)[0] == 0 and srv["rep"] is None):
            body = bytes(payload)
            cid, _, cok = locate(body, [REQ_CID], 0)
            ev("asm", len=len(body), cid=cid, cok=cok and (len(body) == 0 or cid == REQ_CID))
        else:
            final = False  # a Block2 continuation (also: block 0 asked for again)
        if final:
            new_rep(0)
        if srv["rep"] is None:
            return wire.code(4, 8), [], b"", {"x": "no-representation"}
        # ---- serve the representation
        count = srv["nb2"]
        srv["nb2"] += 1
        if not final and not x and fault_wants("etag", count, deliverable):
            new_rep(1)
            x = "etag"
            fire(x)
        if not final and not x and srv["rep"]["rid"] == 1 and keyno(m) != 1:
            # a continuation that asks for something else than the request did (other method / options): an RFC 7959
            # server answers it from what *it* asks for -- another representation
            new_rep(1)
            x = "otherkey"
        rep = srv["rep"]
        M = rep["len"]
        want = pick(s2, count)
        if b2 is not None:
            rnum, _, rszx = wire.unblock(b2)
            if rszx > 6:
                return wire.code(4, 0), [], b"", {"x": "bad-szx"}
            szx = min(want, rszx)
            off = rnum * size_of(rszx)
        else:
            szx = want
            off = 0
        size = size_of(szx)
        code = wire.CONTENT if m["code"] in (1, 5) else wire.CHANGED
        if rep["etag"] >= 0:
            options.append((wire.ETAG, bytes([rep["etag"]])))
        f.update(etag=rep["etag"], rid=rep["rid"])
        if b2 is None and M <= size:
            out = canon(rep["cid"], 0, M)
            return code, options, out, dict(f, x=x, cid=rep["cid"] if M else -1, off=0 if M else -1)
        if off >= M and not (off == 0 and M == 0):
            return wire.code(4, 0), [], b"", {"x": "beyond-end"}
        num = off // size
        more = off + size < M
        plen = min(size, M - off)
        if not x and more and fault_wants("b2skip", count, deliverable):
            off += size
            num += 1
            more = off + size < M
            plen = min(size, M - off)
            x = "b2skip"
            fire(x)
        if not x and fault_wants("b2num", count, deliverable):
            num += 1
            x = "b2num"
            fire(x)
        if not x and num > 0 and fault_wants("b2numlo", count, deliverable):
            num -= 1
            x = "b2numlo"
            fire(x)
        if not x and off >= size and fault_wants("b2prev", count, deliverable):
            off -= size
            num = off // size
            more = True
            plen = size
            x = "b2prev"
            fire(x)
        if not x and more and fault_wants("b2short", count, deliverable):
            plen = max(1, min(size - 1, fault.get("short", size - 1)))
            x = "b2short"
            fire(x)
        if not x and more and fault_wants("b2empty", count, deliverable):
            plen = 0
            x = "b2empty"
            fire(x)
        if not x and off + 2 * size < M and fault_wants("b2over", count, deliverable):
            plen = 2 * size if fault.get("over") == "double" else size + 1
            x = "b2over"
            fire(x)
        out = canon(rep["cid"], off, plen)
        options.append((wire.BLOCK2, wire.block(num, more, szx)))
        f.update(b2n=num, b2m=int(more), b2s=szx, cid=rep["cid"] if plen else -1, off=off if plen else -1)
        return code, options, out, dict(f, x=x)

    def keyno(m):
        key = (m["code"], tuple((n, v) for n, v in m["options"] if n not in NOT_IN_KEY))
        if key not in srv["keys"]:
            srv["keys"].append(key)
        return srv["keys"].index(key) + 1

    def inject(data):
        w.net.inject(state["sock"], data, sockaddr(1))

    def on_sent(rec):
        try:
            m = wire.decode(rec["data"])
        except wire.ParseError:
            ev("req", x="unparsable")
            return
        if not (1 <= m["code"] < 32):
            ev("other", code=m["code"], x=wire.TYPE_NAMES[m["type"]])
            return
        rt = rec["data"] in srv["seen"]
        srv["seen"].append(rec["data"])
        i = len(srv["seen"])
        f = {}
        b1 = wire.opt(m, wire.BLOCK1)
        b2 = wire.opt(m, wire.BLOCK2)
        hint = 0
        if b1 is not None:
            n_, m_, s_ = wire.unblock(b1)
            f.update(b1n=n_, b1m=int(m_), b1s=s_)
            hint = n_ * size_of(s_)
        if b2 is not None:
            n_, m_, s_ = wire.unblock(b2)
            f.update(b2n=n_, b2m=int(m_), b2s=s_)
        cid, off, cok = locate(m["payload"], [REQ_CID], hint)
        sz1 = wire.opt(m, wire.SIZE1)
        ev("req", q=1, code=m["code"], plen=len(m["payload"]), cid=cid, off=off, cok=cok, rt=rt, rk=keyno(m),
           size1=-1 if sz1 is None else wire.from_uint(sz1), **f)
        # a client that keeps asking for the same block is cut off: no more answers (it then runs into its timeout)
        if b2 is not None and b1 is None and not rt:
            o2 = f["b2n"] * size_of(f["b2s"])
            srv["same"] = srv.get("same", 0) + 1 if srv.get("lastoff") == o2 else 0
            srv["lastoff"] = o2
        if srv.get("same", 0) > 4 or i > 4000:
            if not srv.get("flooded"):
                ev("flood", x="same-block" if srv.get("same", 0) > 4 else "datagrams")
            srv["flooded"] = True
            return
        fate = net.get(i, "ok")
        if fate == "dropreq":
            ev("lost", x="req")
            return
        key = (m["mid"], m["token"])
        deliverable = fate != "dropresp"
        if dedup and key in srv["cache"]:
            data, rf = srv["cache"][key]
        else:
            code, options, payload, rf = process(m, deliverable)
            rf = dict(rf, code=code, plen=len(payload), q=1)
            ty = wire.ACK if m["type"] == wire.CON else wire.NON
            mid = m["mid"] if m["type"] == wire.CON else (m["mid"] + 0x4000) & 0xFFFF
            data = wire.encode(ty, code, mid, m["token"], options, payload)
            srv["cache"][key] = (data, rf)
        if fate == "dropresp":
            ev("lost", **rf)
            return
        ev("resp", **dict(rf, rt=key in srv["delivered"]))
        srv["delivered"].add(key)
        w.loop.call_later(DELAY / 1024.0, inject, data)
        if fate == "dupresp":
            ev("resp", **dict(rf, rt=True))
            w.loop.call_later((DELAY + 1) / 1024.0, inject, data)
        elif fate == "dupreq":
            if dedup:
                data2, rf2 = data, rf
            else:
                code, options, payload, rf2 = process(m, True)
                rf2 = dict(rf2, code=code, plen=len(payload), q=1)
                ty = wire.ACK if m["type"] == wire.CON else wire.NON
                mid = m["mid"] if m["type"] == wire.CON else (m["mid"] + 0x4000) & 0xFFFF
                data2 = wire.encode(ty, code, mid, m["token"], options, payload)
            ev("resp", **dict(rf2, rt=True))
            w.loop.call_later((DELAY + 1) / 1024.0, inject, data2)

    w.net.on_sent = on_sent

    async def main():
        from aiocoap import Message
        from aiocoap.numbers.codes import Code
        from aiocoap.numbers.constants import TransportTuning

        ctx = await w.make_context(site=None)
        state["sock"] = ctx._verif["sock"]
        kw = {}
        if not sched.get("con", True):
            kw["transport_tuning"] = type("VT", (TransportTuning,), {"reliability": False})()
        if sched.get("query"):
            kw["uri_query"] = tuple(sched["query"])
        if sched.get("accept") is not None:
            kw["accept"] = sched["accept"]
        msg = Message(code=Code(sched.get("code", 2)), uri_path=["c05"], payload=canon(REQ_CID, 0, N), **kw)
        msg.remote = w.remote(ctx, 1)
        msg.remote.maximum_block_size_exp = C
        ev("submit", q=1, code=int(msg.code), len=N, cid=REQ_CID if N else -1, c=C)
        req = ctx.request(msg, handle_blockwise=True)

        def done_cb(fut):
            if fut.cancelled():
                ev("done", q=1, x="cancelled")
            elif fut.exception() is not None:
                ev("done", q=1, x=type(fut.exception()).__name__)
            else:
                res = fut.result()
                body = bytes(res.payload)
                cid, off, cok = locate(body, list(REP_CIDS), 0)
                ev("done", q=1, x="resp", code=int(res.code), len=len(body), plen=len(body), cid=cid, off=off,
                   cok=cok and (len(body) == 0 or off == 0))

        req.response.add_done_callback(done_cb)
        await w.loop.settle()
        await w.loop.drain(horizon=sched.get("horizon", 300))
        for c in w.loop.exceptions:
            exc = c.get("exception")
            ev("loopexc", x=type(exc).__name__ if exc is not None else "message")
        ev("end")
        frozen.append(True)
        meta = {
            "loop_exceptions": [repr(c.get("exception") or c.get("message")) for c in w.loop.exceptions],
            "log_errors": [r.getMessage() for r in w.logcap.errors()],
            "fault_fired": srv["fired"],
            "datagrams": len(srv["seen"]),
        }
        try:
            await asyncio.wait_for(ctx.shutdown(), 10)
        except Exception:
            pass
        return meta

    try:
        meta = w.run(main())
    finally:
        w.close()
    return {"events": events, "meta": meta}


def run_safe(s):
    try:
        return run(s)
    except Exception:
        import traceback

        return {"error": traceback.format_exc()}


def run_all(scheds, procs=16):
    import os
    from multiprocessing import Pool

    if not scheds:
        return []
    if len(scheds) < 24:
        return [run_safe(s) for s in scheds]
    with Pool(min(procs, os.cpu_count() or 4)) as p:
        return p.map(run_safe, scheds, chunksize=max(1, len(scheds) // 64))
