"""Verification harness for aiocoap (model-based, TLA+/TLC).

Every check runs /venv/bin/python with PYTHONPATH=<repo> and refuses to start
unless aiocoap is imported from that tree (see ``require_repo``)."""

import os
import sys

VERIF = os.path.dirname(os.path.dirname(os.path.abspath(__file__)))
REPO = os.environ.get("VERIF_REPO", "/repo")


class MachineryError(Exception):
    """Anything that is the framework's fault (exit 2), never a VIOLATION."""


def require_repo():
    """Make sure ``import aiocoap`` resolves to REPO, not to the copy that is
    installed in /venv's site-packages."""
    repo = os.path.realpath(REPO)
    if sys.path[0] != repo:
        sys.path.insert(0, repo)
    for name in list(sys.modules):
        if name == "aiocoap" or name.startswith("aiocoap."):
            mod = sys.modules[name]
            f = getattr(mod, "__file__", None) or ""
            if not os.path.realpath(f).startswith(repo + os.sep):
                del sys.modules[name]
    import aiocoap

    f = os.path.realpath(aiocoap.__file__)
    if not f.startswith(repo + os.sep):
        raise MachineryError("aiocoap imported from %s, expected under %s" % (f, repo))
    return aiocoap
