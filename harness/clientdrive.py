"""Client-role driver: executes a schedule (application submissions, datagrams
from scripted peers, ICMP-style errors, at exact virtual instants) against the
real Context/TokenManager/MessageManager/udp6 stack and records the observable
events in the vocabulary of spec/MsgClientObs.tla.

Time unit of schedules and traces: U = 2**-10 s."""

import zlib

from . import wire
from .sut import World
from .fakenet import sockaddr
from .vloop import TICKS_PER_S

UNIT = TICKS_PER_S >> 10  # loop ticks per trace unit


def units(loop):
    t = loop.ticks()
    if t % UNIT:
        # off-grid instants are reported in the trace as negative so that no
        # clause can silently accept them
        return -1 - t // UNIT
    return t // UNIT


def make_tuning(aiocoap, d):
    from aiocoap.numbers.constants import TransportTuning

    attrs = {k: v for k, v in d.items() if k in ("ACK_TIMEOUT", "ACK_RANDOM_FACTOR", "MAX_RETRANSMIT", "EMPTY_ACK_DELAY")}
    return type("VerifTuning", (TransportTuning,), attrs)()


def err_class(exc):
    from aiocoap import error

    if isinstance(exc, error.NetworkError) and isinstance(exc, error.TimeoutError):
        return "timeout"
    if isinstance(exc, error.NetworkError):
        return "net"
    if isinstance(exc, error.Error):
        return "lib"
    return "other"


def code_class(c):
    if c == 0:
        return "empty"
    if 1 <= c < 32:
        return "req"
    if 64 <= c < 192:
        return "resp"
    return "other"


def run_schedule(sched):
    """Returns dict(events=[...], meta={...}).  Every event has all fields
    k, t, r, ty, mid, q, dig, con, cls (uniform records for TLC)."""
    w = World(mid0=sched.get("mid0", 0), tok0=sched.get("tok0", 0), fractions=())
    events = []
    raw = []  # (event, token) pending q resolution
    reqs = {}  # q -> dict(msg, req)
    addr2r = {}

    def rnum(address):
        return addr2r.get(tuple(address[:2]), 0)

    frozen = []

    def ev(k, r=0, ty="", mid=0, q=0, dig=0, con=False, cls="", tok=None):
        if frozen:
            return None
        e = {"k": k, "t": units(w.loop), "r": r, "ty": ty, "mid": mid, "q": q, "dig": dig, "con": con, "cls": cls, "g": 0, "cb": w.loop.cb_seq, "ccb": -1, "tf": w.loop.ticks()}
        events.append(e)
        if tok is not None:
            raw.append((e, tok))
        return e

    copies = {}  # q -> number of copies seen
    state = {"sock": None}

    def q_of(r, token):
        for q, d in reqs.items():
            if d["msg"].token is not None and bytes(d["msg"].token) == bytes(token) and d["r"] == r:
                return q
        return 0

    def free_mid(k):
        """A message ID no request of this run uses (k distinguishes several)."""
        return (sched.get("mid0", 0) + 0x8000 + k) & 0xFFFF

    def fire(trig):
        inject_rx(trig["rx"])

    def inject_rx(step):
        mid = step.get("mid")
        if isinstance(mid, dict):
            if "free" in mid:
                mid = free_mid(mid["free"])
            else:
                base = reqs[mid["of"]]["msg"].mid if "of" in mid else reqs[mid["wrong"]]["msg"].mid
                mid = base if "of" in mid else (base + mid.get("delta", 7)) & 0xFFFF
        tok = step.get("tok", b"")
        if isinstance(tok, dict):
            tok = reqs[tok["of"]]["msg"].token
        elif isinstance(tok, str):
            tok = bytes.fromhex(tok)
        ty = {"CON": 0, "NON": 1, "ACK": 2, "RST": 3}[step["ty"]]
        data = wire.encode(ty, step.get("code", 0), mid, tok, step.get("options", ()), step.get("payload", b""))
        w.rand.fractions.clear()
        if "f" in step:
            w.rand.fractions.append(step["f"])
        w.net.inject(state["sock"], data, sockaddr(step["r"]))

    def on_sent(rec):
        try:
            m = wire.decode(rec["data"])
        except wire.ParseError:
            ev("tx", r=rnum(rec["to"]), ty="?", cls="unparsable")
            return
        if 1 <= m["code"] < 32:
            q = q_of(rnum(rec["to"]), m["token"])
            if q:
                copies[q] = copies.get(q, 0) + 1
                for trig in sched.get("triggers", ()):
                    if trig["on"]["q"] == q and trig["on"]["copy"] == copies[q]:
                        w.loop.call_later(trig["delay"] / 1024.0, fire, trig)
        e = ev(
            "tx",
            r=rnum(rec["to"]),
            ty=wire.TYPE_NAMES[m["type"]],
            mid=m["mid"],
            dig=zlib.crc32(rec["data"]) & 0x3FFFFFFF,
            cls=code_class(m["code"]),
            tok=m["token"],
        )
        if e is not None and m["type"] == 0 and len(w.rand.uniform_calls) > state.get("ucalls", 0):
            # a new exchange was just created: the initial timeout it drew (in trace units)
            state["ucalls"] = len(w.rand.uniform_calls)
            e["g"] = int(round(w.rand.uniform_calls[-1][2] * 1024))

    def on_read(data, src):
        try:
            m = wire.decode(data)
        except wire.ParseError:
            ev("rx", r=rnum(src), ty="?", cls="unparsable")
            return
        ev("rx", r=rnum(src), ty=wire.TYPE_NAMES[m["type"]], mid=m["mid"], cls=code_class(m["code"]), tok=m["token"])

    w.net.on_sent = on_sent
    tuning = make_tuning(w.aiocoap, sched.get("tuning", {}))
    nrem = sched.get("nremotes", 4)
    for n in range(1, nrem + 1):
        addr2r[sockaddr(n)[:2]] = n

    async def main():
        from aiocoap import Message, GET

        ctx = await w.make_context()
        sock = ctx._verif["sock"]
        state["sock"] = sock
        orig_recvmsg = sock.recvmsg

        def recvmsg(bufsize, ancbufsize=0, flags=0):
            res = orig_recvmsg(bufsize, ancbufsize, flags)
            if not (flags & 8192):
                on_read(res[0], res[3])
            return res

        sock.recvmsg = recvmsg

        for step in sched["steps"]:
            await w.loop.advance_to(step["at"] / 1024.0)
            do = step["do"]
            w.rand.fractions.clear()
            if "f" in step:
                w.rand.fractions.append(step["f"])
            if do == "submit":
                q = step["q"]
                m = Message(code=GET, uri_path=["q%d" % q], transport_tuning=tuning)
                if not step["con"]:
                    from aiocoap import Unreliable

                    t2 = type("VerifTuningNon", (type(tuning),), {"reliability": False})()
                    m.transport_tuning = t2
                else:
                    t2 = type("VerifTuningCon", (type(tuning),), {"reliability": True})()
                    m.transport_tuning = t2
                m.remote = w.remote(ctx, step["r"])
                ev("submit", r=step["r"], q=q, con=bool(step["con"]))
                req = ctx.request(m, handle_blockwise=False)
                reqs[q] = {"msg": m, "req": req, "r": step["r"]}

                def done_cb(fut, q=q):
                    if fut.cancelled():
                        e = ev("done", q=q, cls="cancelled")
                    elif fut.exception() is not None:
                        e = ev("done", q=q, cls=err_class(fut.exception()))
                    else:
                        e = ev("done", q=q, cls="resp")
                    if e is not None:
                        e["ccb"] = getattr(fut, "_verif_cb_seq", -1)

                req.response.add_done_callback(done_cb)
                await w.loop.settle()
            elif do == "rx":
                inject_rx(step)
                await w.loop.settle()
            elif do == "err":
                ev("err", r=step["r"])
                w.net.inject_error(sock, sockaddr(step["r"]))
                await w.loop.settle()
            elif do == "wait":
                pass
            else:
                raise ValueError(do)
        # an endpoint that never stops retransmitting (possible on a changed tree) must not keep the run going for
        # ever: beyond a generous budget of events / virtual time the run is cut (the clauses have spoken by then)
        await w.loop.drain(horizon=sched.get("horizon"), stop=lambda: len(events) > 4000 or w.loop.time() > 1.0e6)
        ev("end")
        frozen.append(True)
        # resolve tokens to request numbers
        tokmap = {}
        for q, d in reqs.items():
            if d["msg"].token is not None:
                tokmap[(d["msg"].remote.sockaddr[:2], bytes(d["msg"].token))] = q
        for e, tok in raw:
            if e["r"]:
                e["q"] = tokmap.get((sockaddr(e["r"])[:2], bytes(tok)), 0)
        meta = {
            "loop_exceptions": [str(c.get("exception") or c.get("message")) for c in w.loop.exceptions],
            "log_errors": [r.getMessage() for r in w.logcap.errors()],
            "uniform_calls": list(w.rand.uniform_calls),
            "mids": {q: d["msg"].mid for q, d in reqs.items()},
        }
        await ctx.shutdown()
        return meta

    try:
        meta = w.run(main())
    finally:
        w.close()
    return {"events": events, "meta": meta}


def causal_order(events):
    """The completion of a request is logged by a done-callback, i.e. one loop iteration after the
    callback that completed it.  For strict validation each done event is moved to the end of the
    events of the completing callback (where the specification's action emits it); everything else
    keeps its order (events are logged in callback order)."""
    keyed = []
    for i, e in enumerate(events):
        if e["k"] == "done" and e.get("ccb", -1) >= 0:
            keyed.append(((e["ccb"], 1, i), e))
        else:
            keyed.append(((e.get("cb", 0), 0, i), e))
    keyed.sort(key=lambda x: x[0])
    return [e for _, e in keyed]
