"""Common entry-point plumbing for checks: tiers, seeds, verdicts, evidence,
known findings, replay files, exit codes.

exit 0  property held on everything explored (DRIFT / KNOWN-FINDING lines allowed)
exit 1  VIOLATION property=<id> replay=<path>
exit 2  machinery failure (never a VIOLATION line)
"""

import hashlib
import json
import os
import sys
import time
import traceback

from . import VERIF, REPO, MachineryError

EVIDENCE_DIR = os.path.join(VERIF, "evidence")
REPLAY_DIR = os.path.join(VERIF, "replays")
KNOWN = os.path.join(VERIF, "known_findings.json")


class Violation:
    def __init__(self, clause, signature, detail, replay=None):
        self.clause = clause  # name of the property clause that is false
        self.signature = signature  # stable identification of the failing input/history
        self.detail = detail  # human-readable
        self.replay = replay or {}  # data to write to the replay file


class Report:
    def __init__(self, prop, tier, seed):
        self.prop = prop
        self.tier = tier
        self.seed = seed
        self.t0 = time.time()
        self.violations = []
        self.drift = []
        self.coverage = {}
        self.assumptions = []
        self.notes = []
        self.level = "model_checking"

    def violation(self, clause, signature, detail, replay=None):
        self.violations.append(Violation(clause, signature, detail, replay))

    def add_drift(self, what):
        self.drift.append(what)


def load_known(prop):
    try:
        with open(KNOWN) as f:
            data = json.load(f)
    except FileNotFoundError:
        return []
    return [e for e in data.get("findings", []) if e.get("property") == prop]


def _write_replay(prop, v):
    os.makedirs(REPLAY_DIR, exist_ok=True)
    h = hashlib.sha256((v.signature + json.dumps(v.replay, sort_keys=True, default=str)).encode()).hexdigest()[:12]
    path = os.path.join(REPLAY_DIR, "%s-%s.json" % (prop, h))
    with open(path, "w") as f:
        json.dump(
            {"property": prop, "clause": v.clause, "signature": v.signature, "detail": v.detail, "replay": v.replay},
            f,
            indent=1,
            default=str,
        )
    return path


def finish(rep):
    """Print verdict lines, write evidence, return exit code."""
    known = load_known(rep.prop)
    known_sigs = {}
    for e in known:
        if e.get("status") == "known":
            for s in e.get("signatures", [e.get("signature")]):
                known_sigs[s] = e
    new = []
    seen_known = {}
    for v in rep.violations:
        if v.signature in known_sigs:
            seen_known.setdefault(v.signature, v)
        else:
            new.append(v)
    for sig, v in seen_known.items():
        print("KNOWN-FINDING: property=%s %s [%s]" % (rep.prop, known_sigs[sig].get("what", ""), sig))
    for d in rep.drift[:20]:
        print("DRIFT: property=%s %s" % (rep.prop, d))
    if len(rep.drift) > 20:
        print("DRIFT: property=%s ... %d more" % (rep.prop, len(rep.drift) - 20))
    # one VIOLATION line per distinct signature
    printed = set()
    for v in new:
        if v.signature in printed:
            continue
        printed.add(v.signature)
        path = _write_replay(rep.prop, v)
        print("VIOLATION property=%s replay=%s" % (rep.prop, path))
        print("  clause=%s signature=%s" % (v.clause, v.signature))
        print("  " + v.detail.replace("\n", "\n  "))
    cov = dict(rep.coverage)
    cov.setdefault("drift", len(rep.drift))
    cov.setdefault("known_findings_seen", sorted(seen_known))
    ev = {
        "property_id": rep.prop,
        "tier": rep.tier,
        "seed": rep.seed,
        "level": rep.level,
        "coverage": cov,
        "assumptions": rep.assumptions,
        "wall_s": round(time.time() - rep.t0, 2),
        "violations": len(printed),
        "notes": rep.notes,
        "repo": REPO,
    }
    os.makedirs(EVIDENCE_DIR, exist_ok=True)
    if REPO == "/repo":
        with open(os.path.join(EVIDENCE_DIR, rep.prop + ".json"), "w") as f:
            json.dump(ev, f, indent=1, default=str)
            f.write("\n")
    else:
        # runs against a scratch copy (self-test) never overwrite evidence
        alt = os.environ.get("VERIF_EVIDENCE_OUT")
        if alt:
            with open(alt, "w") as f:
                json.dump(ev, f, indent=1, default=str)
    print(
        "RESULT property=%s tier=%s seed=%s violations=%d known=%d drift=%d wall=%.1fs"
        % (rep.prop, rep.tier, rep.seed, len(printed), len(seen_known), len(rep.drift), time.time() - rep.t0)
    )
    return 1 if printed else 0


def main(prop, fn):
    """fn(rep, args) does the work; args: tier, seed, replay path."""
    import argparse

    ap = argparse.ArgumentParser()
    ap.add_argument("--tier", default=os.environ.get("VERIF_TIER", "quick"), choices=["quick", "thorough"])
    ap.add_argument("--seed", type=int, default=int(os.environ.get("VERIF_SEED", "0") or 0))
    ap.add_argument("--replay", default=None)
    args = ap.parse_args(sys.argv[2:] if len(sys.argv) > 1 and sys.argv[1] == prop else sys.argv[1:])
    rep = Report(prop, args.tier, args.seed)
    try:
        fn(rep, args)
        rc = finish(rep)
    except MachineryError as e:
        print("MACHINERY-FAILURE property=%s: %s" % (prop, e))
        rc = 2
    except Exception:
        print("MACHINERY-FAILURE property=%s: unexpected exception" % prop)
        traceback.print_exc()
        rc = 2
    sys.stdout.flush()
    return rc
