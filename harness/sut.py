"""Builds the system under test: real Context + TokenManager + MessageManager +
MessageInterfaceUDP6 over the real RecvmsgSelectorDatagramTransport, on a fake
socket and a virtual-time loop.  Nothing in /repo is instrumented."""

import asyncio
import logging

from . import require_repo, MachineryError
from .vloop import VirtualLoop, TICKS_PER_S
from .fakenet import FakeSocket, Net, sockaddr
from . import wire


class Rand:
    """Driver-controlled replacement for the ``random`` module as seen by
    messagemanager / tokenmanager.  ``uniform`` answers come from a list of
    fractions in [0,1] (position inside the interval), default 0."""

    def __init__(self, mid0=0, tok0=0, fractions=()):
        self.mid0 = mid0
        self.tok0 = tok0
        self.fractions = list(fractions)
        self.uniform_calls = []
        self._randint_calls = 0
        self.which = None

    def randint(self, a, b):
        # first call in MessageManager.__init__ (mid), TokenManager.__init__ (token)
        # each context draws one token and one message ID; later contexts get shifted
        # values so that two contexts in one loop never share tokens / IDs
        n = self._randint_calls // 2
        self._randint_calls += 1
        base = self.mid0 if self.which == "mid" else self.tok0
        return (base + 0x1111 * n) & 0xFFFF

    def uniform(self, a, b):
        f = self.fractions.pop(0) if self.fractions else 0.0
        v = a + (b - a) * f
        self.uniform_calls.append((a, b, v))
        return v

    def random(self):
        # an implementation may draw its initial timeout from random() as well: same fractions
        f = self.fractions.pop(0) if self.fractions else 0.0
        self.random_calls = getattr(self, "random_calls", 0) + 1
        return f


class _RandFor:
    def __init__(self, rand, which):
        self._r = rand
        self._w = which

    def randint(self, a, b):
        self._r.which = self._w
        return self._r.randint(a, b)

    def uniform(self, a, b):
        return self._r.uniform(a, b)

    def random(self):
        return self._r.random()

    def __getattr__(self, name):
        import random

        return getattr(random, name)


class _Clock:
    def __init__(self, loop):
        self._loop = loop

    def time(self):
        return self._loop.time()

    def __getattr__(self, name):
        import time

        return getattr(time, name)


class LogCapture(logging.Handler):
    def __init__(self):
        super().__init__(level=logging.DEBUG)
        self.records = []

    def emit(self, record):
        if record.levelno >= logging.WARNING:
            self.records.append(record)

    def errors(self):
        return [r for r in self.records if r.levelno >= logging.ERROR]


class World:
    """One virtual-time loop, one fake network, any number of contexts."""

    def __init__(self, mid0=0, tok0=0, fractions=()):
        self.aiocoap = require_repo()
        import aiocoap.messagemanager as mm
        import aiocoap.tokenmanager as tm
        import aiocoap.protocol as proto

        self.loop = VirtualLoop()
        asyncio.set_event_loop(self.loop)
        self.net = Net(self.loop)
        self.rand = Rand(mid0, tok0, fractions)
        self._patched = []
        self._patch(mm, "random", _RandFor(self.rand, "mid"))
        self._patch(tm, "random", _RandFor(self.rand, "tok"))
        self._patch(proto, "time", _Clock(self.loop))
        self.logcap = LogCapture()
        self._loggers = []
        self.contexts = []

    def _patch(self, mod, name, value):
        self._patched.append((mod, name, getattr(mod, name)))
        setattr(mod, name, value)

    def patch(self, obj, name, value):
        self._patch(obj, name, value)

    def close(self):
        for mod, name, old in reversed(self._patched):
            setattr(mod, name, old)
        for lg in self._loggers:
            lg.removeHandler(self.logcap)
        try:
            # cancel whatever is left so the loop can be closed silently
            for t in asyncio.all_tasks(self.loop):
                t.cancel()
            self.loop.run_until_complete(asyncio.sleep(0))
        except Exception:
            pass
        self.loop.close()
        asyncio.set_event_loop(None)

    async def make_context(self, site=None, name="sut"):
        """Equivalent of create_server_context(site) restricted to udp6, with
        the socket replaced."""
        from aiocoap.protocol import Context
        from aiocoap.tokenmanager import TokenManager
        from aiocoap.messagemanager import MessageManager
        from aiocoap.transports.udp6 import MessageInterfaceUDP6
        from aiocoap.util.asyncio.recvmsg import create_recvmsg_datagram_endpoint

        loggername = "coap-verif-" + name
        log = logging.getLogger(loggername)
        log.setLevel(logging.DEBUG)
        log.propagate = False
        log.addHandler(self.logcap)
        self._loggers.append(log)

        ctx = Context(loop=self.loop, serversite=site, loggername=loggername)
        sock = FakeSocket(self.net, name)
        address = ("::", 5683, 0, 0)
        transport, mint = await create_recvmsg_datagram_endpoint(
            self.loop, lambda: MessageInterfaceUDP6(bind=address, log=log, loop=self.loop), sock=sock
        )
        await mint.ready
        tman = TokenManager(ctx)
        mman = MessageManager(tman)
        mint._ctx = mman
        mman.message_interface = mint
        tman.token_interface = mman
        ctx.request_interfaces.append(tman)
        await mint.start_transport_endpoint()
        ctx._verif = {"sock": sock, "mint": mint, "mman": mman, "tman": tman, "name": name}
        self.contexts.append(ctx)
        return ctx

    def remote(self, ctx, n, port=5683):
        """EndpointAddress of scripted peer n, bound to ctx's interface."""
        from aiocoap.transports.udp6 import UDP6EndpointAddress

        return UDP6EndpointAddress(sockaddr(n, port), ctx._verif["mint"])

    def run(self, coro):
        return self.loop.run_until_complete(coro)

    def ticks(self):
        return self.loop.ticks()


def sec(ticks):
    return ticks / TICKS_PER_S


def decode_sent(rec):
    """Decode a datagram the SUT sent with the independent codec."""
    try:
        m = wire.decode(rec["data"])
    except wire.ParseError as e:  # the SUT emitted garbage: a finding for the caller
        return {"unparsable": str(e)}
    return m
