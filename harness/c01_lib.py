"""Helpers for check C01 (datagram codec): reading TLC's printed values fast,
building / dissecting aiocoap messages, generating messages and byte-string
mutations, and pushing datagrams through the real udp6 receive path.

Nothing in here decides a verdict: expected bytes / fields / classes always
come from TLC evaluating spec/CoapWire.tla."""

import json
import re
import traceback

from . import MachineryError

# --------------------------------------------------------------------------
# TLC output -> Python.  The C01 modules print nothing but nested tuples of
# integers and strings, so "<<" / ">>" -> "[" / "]" turns every printed value
# into JSON, which the C parser reads two orders of magnitude faster than a
# character-level TLA+ value parser.
_start = re.compile(r'^\[ ?"(DG|E|D)"', re.M)


def tlc_values_iter(out):
    """Yields (value, json text of the value) for every value TLC printed."""
    text = out.replace("<<", "[").replace(">>", "]")
    dec = json.JSONDecoder()
    pos = 0
    while True:
        m = _start.search(text, pos)
        if not m:
            break
        try:
            v, end = dec.raw_decode(text, m.start())
        except ValueError as e:
            raise MachineryError("unreadable TLC value at offset %d: %s: %r" % (m.start(), e, text[m.start() : m.start() + 200]))
        yield v, text[m.start() : end]
        pos = end


def tlc_values(out):
    return [v for v, _ in tlc_values_iter(out)]


# --------------------------------------------------------------------------
# abstract messages: (type, code, mid, token bytes, [(number, value bytes)], payload bytes)
def msg_to_json(m):
    ty, code, mid, tok, opts, pay = m
    return [ty, code, mid, list(tok), [[n, list(v)] for n, v in opts], list(pay)]


def fields_key(m):
    ty, code, mid, tok, opts, pay = m
    return (ty, code, mid, bytes(tok), tuple((n, bytes(v)) for n, v in opts), bytes(pay))


def ext_flag(opts):
    """'ext65804' if an option delta or value length sits at the format's
    maximum (the only structural class signatures distinguish)."""
    prev = 0
    for n, v in opts:
        if n - prev == 65804 or len(v) == 65804:
            return "ext65804"
        prev = n
    return "-"


# --------------------------------------------------------------------------
# the implementation side
class Impl:
    """Thin access layer to aiocoap's codec (imported from $VERIF_REPO)."""

    def __init__(self):
        from . import require_repo

        require_repo()
        from aiocoap.message import Message
        from aiocoap import error, optiontypes
        from aiocoap.numbers.optionnumbers import OptionNumber
        from aiocoap.numbers.contentformat import ContentFormat
        from aiocoap.message import Direction

        self.Message = Message
        self.Unparsable = error.UnparsableMessage
        self.OptionNumber = OptionNumber
        self.ot = optiontypes
        self.ContentFormat = ContentFormat
        self.Direction = Direction

    def category(self, number):
        f = self.OptionNumber(number).format
        ot = self.ot
        if f is ot.StringOption:
            return "string"
        if f is ot.OpaqueOption:
            return "opaque"
        if f is ot.UintOption:
            return "uint"
        if f is ot.BlockOption:
            return "block"
        if f is ot.ContentFormatOption:
            return "cf"
        return "other"

    def build(self, m):
        """aiocoap Message from an abstract message, through the typed value
        interface of each option format."""
        ty, code, mid, tok, opts, pay = m
        msg = self.Message(code=code, _mtype=ty, _mid=mid, _token=bytes(tok), payload=bytes(pay))
        for n, v in opts:
            num = self.OptionNumber(n)
            cat = self.category(n)
            v = bytes(v)
            if cat == "string":
                o = num.create_option(value=v.decode("utf-8"))
            elif cat == "opaque":
                o = num.create_option(value=v)
            elif cat == "uint":
                o = num.create_option(value=int.from_bytes(v, "big"))
            elif cat == "block":
                i = int.from_bytes(v, "big")
                o = num.create_option(value=self.ot.BlockOption.BlockwiseTuple(i >> 4, bool(i & 8), i & 7))
            elif cat == "cf":
                o = num.create_option(value=self.ContentFormat(int.from_bytes(v, "big")))
            else:
                o = num.create_option(decode=v)
            msg.opt.add_option(o)
        return msg

    def fields(self, msg):
        return (
            int(msg.mtype),
            int(msg.code),
            int(msg.mid),
            bytes(msg.token),
            tuple((int(o.number), bytes(o.encode())) for o in msg.opt.option_list()),
            bytes(msg.payload),
        )

    def values(self, msg):
        """The typed option values as the application sees them (str, bytes,
        int, block tuple ...): a round trip must preserve these as well, not
        only what they serialise to."""
        return tuple((int(o.number), o.value) for o in msg.opt.option_list())

    def encode(self, msg):
        msg.direction = self.Direction.OUTGOING
        return msg.encode()


def exc_origin(e):
    """module.function of the innermost aiocoap frame of the traceback: groups
    all inputs that die at the same place into one signature."""
    org = "?"
    for fs in traceback.extract_tb(e.__traceback__):
        fn = fs.filename.replace("\\", "/")
        if "/aiocoap/" in fn:
            org = fn.split("/aiocoap/", 1)[1].rsplit(".", 1)[0].replace("/", ".") + "." + fs.name
    return org


# --------------------------------------------------------------------------
# generation of abstract messages legal for the library's option formats
# String option values are Unicode strings that travel as their UTF-8 bytes,
# verbatim: RFC 7252 treats them as opaque, a codec must not normalise.  So the
# value alphabet has strings that are NOT in one or more of the Unicode normal
# forms next to ones that are in all of them (escapes, so that no editor
# normalises this file):
UNICODE_SAMPLES = [
    "plain",  # in every normal form
    "bl\u00e5b\u00e6r",  # precomposed: NFC/NFKC, not NFD/NFKD
    "\uac00",  # precomposed Hangul syllable: not NFD/NFKD
    "cafe\u0301",  # e + COMBINING ACUTE: NFD, not NFC/NFKC
    "A\u030a",  # A + COMBINING RING ABOVE: not NFC
    "\u212b",  # ANGSTROM SIGN, singleton: in no normal form
    "\u2126m",  # OHM SIGN, singleton
    "\u0340",  # COMBINING GRAVE TONE MARK, singleton -> U+0300 (two bytes CD 80)
    "\u037e",  # GREEK QUESTION MARK, singleton -> ';'
    "\uf900",  # CJK compatibility ideograph, singleton
    "\u1100\u1161\u11a8",  # conjoining Hangul jamo: NFD, not NFC
    "q\u0323\u0307",  # two combining marks in canonical order: all forms
    "q\u0307\u0323",  # the same marks misordered: in no normal form
    "\ufb01n",  # LATIN SMALL LIGATURE FI: NFC/NFD, not NFKC/NFKD
    "\u00b5s",  # MICRO SIGN: not NFKC/NFKD
    "\u2460\uff21",  # CIRCLED DIGIT ONE, FULLWIDTH A: compatibility characters
    "x\u00b2",  # SUPERSCRIPT TWO: not NFKC/NFKD
    "\u1e9b\u0323",  # LONG S WITH DOT ABOVE + DOT BELOW: differs in all four forms
]
# Control characters: Net-Unicode discourages them and wants CR LF for line
# ends, but a value that contains them is still a value the library can hold,
# and the codec must not rewrite it (TAB and NUL were always in STRINGS).
CONTROL_SAMPLES = [
    "a\nb",  # bare LF
    "a\r\nb",  # CR LF
    "a\rb",  # bare CR
    "\n",
    "line\n",
    "\r\n\r\n",
    "\x7f",  # DEL
    "a\x7fb",
    "\u0085",  # NEL (C1)
    "\u009b1m",  # CSI (C1)
    "\x1b[0m",  # ESC
    "\x00",
    "\tq",
    "\x0b\x0c",
]
# Values that mean something to RFC 3986 / RFC 7252 sections 5.10 and 6 (dot
# segments, percent-encodings, delimiters, IP literals, case, the empty
# segment): to the codec they are strings like any other -- it must neither
# reject nor decode nor canonicalise them.
SEGMENTS = [".", "..", "...", "%41", "%2F", "%2e%2e", "a%2Fb", "%", "%zz", "a/b", "a b", " a", "a?b", "a&b=c", "a?b=c&d", "a=b", "a#b", "[::1]", "[fe80::1%25eth0]", "", "EXAMPLE.com.", "Example.COM", "192.168.0.1", "*", "~", "+", "coap://h/p?q"]
STRING_SWEEP = UNICODE_SAMPLES + CONTROL_SAMPLES + SEGMENTS
# uint values with a protocol meaning (defaults and registered values of
# RFC 7252 5.10 / 12.3, RFC 7641, RFC 7959, RFC 7967, RFC 8768), per option;
# each is also tried in every other uint-format option
UINT_SPECIALS = {
    14: [60, 0, 59, 61, 2**32 - 1],  # Max-Age: default 60
    7: [5683, 5684, 0, 80, 65535],  # Uri-Port: default ports
    16: [16, 0, 1, 255],  # Hop-Limit: default 16
    12: [0, 40, 41, 42, 47, 50, 60, 11050, 11542, 65535],  # Content-Format registry
    17: [0, 40, 41, 42, 47, 50, 60, 11050, 65535],  # Accept
    23: list(range(0, 16)) + [16 + 6, 16 + 8 + 6, (1 << 20) - 1, 7, 15],  # Block2: szx 0..7, M, NUM
    27: list(range(0, 16)) + [16 + 6, 16 + 8 + 2],  # Block1
    6: [0, 1, 2, 2**24 - 1],  # Observe: register / deregister
    258: [0, 2, 8, 16, 24, 26, 127],  # No-Response bit masks
    28: [0, 1, 1024],  # Size2
    60: [0, 1, 1024, 2**32 - 1],  # Size1
    13: [0, 1],
}
PROTOCOL_UINTS = sorted(set(v for vs in UINT_SPECIALS.values() for v in vs))
UINTS = [0, 1, 12, 13, 255, 256, 65535, 65536, 2**24 - 1, 2**32 - 1, 2**32, 2**64 - 1, 2 ** (8 * 12) - 1, 2 ** (8 * 12), 2 ** (8 * 13) - 1] + PROTOCOL_UINTS
STRINGS = ["", "a", "core", ".well-known", "\u00e9", "\u65e5\u672c", "\U0001f600", "a" * 12, "b" * 13, "\u00e9" * 6, "x" * 268, "y" * 269, "z" * 300, "nul\x00", "tab\t"] + STRING_SWEEP
# string-format options of RFC 7252 (Uri-Host, Location-Path, Uri-Path, Uri-Query, Location-Query, Proxy-Uri, Proxy-Scheme)
STRING_OPTS = [3, 8, 11, 15, 20, 35, 39]


def check_unicode_samples():
    """The value alphabet must really contain, for every normal form, values
    outside it (and values inside all of them); judged with Python's Unicode
    database, which is only used to *choose* inputs."""
    import unicodedata

    for form in ("NFC", "NFD", "NFKC", "NFKD"):
        outside = [s for s in UNICODE_SAMPLES if not unicodedata.is_normalized(form, s)]
        if len(outside) < 3:
            raise MachineryError("string value alphabet has only %d values outside %s" % (len(outside), form))
    if not any(all(unicodedata.is_normalized(f, s) for f in ("NFC", "NFD", "NFKC", "NFKD")) and not s.isascii() for s in UNICODE_SAMPLES):
        raise MachineryError("string value alphabet has no non-ASCII value that is in all normal forms")
KNOWN = [1, 3, 4, 5, 6, 7, 8, 9, 11, 12, 13, 14, 15, 16, 17, 19, 20, 21, 23, 27, 28, 31, 35, 39, 60, 252, 258, 292, 548]
UNKNOWN = [0, 2, 10, 24, 25, 26, 61, 100, 268, 269, 270, 281, 282, 300, 2048, 4096, 65000, 65534, 65535]
LENS = [0, 1, 2, 8, 11, 12, 13, 14, 255, 267, 268, 269, 270, 300]


def uint_bytes(v):
    return v.to_bytes((v.bit_length() + 7) // 8, "big")


def gen_value(rng, cat, length=None):
    if cat == "string":
        if length is not None:
            # exactly `length` bytes of valid UTF-8
            r = rng.random()
            if length >= 2 and r < 0.25:
                return ("\u00e9" * (length // 2)).encode() + (b"a" if length % 2 else b"")
            if length >= 3 and r < 0.5:
                # decomposed (not NFC) / singleton (in no normal form), exactly `length` bytes
                unit = rng.choice(["e\u0301", "\u212b", "\uf900", "\u1100"])
                return (unit * (length // 3)).encode() + b"a" * (length % 3)
            return bytes(rng.choice(b"abcxyz-._~") for _ in range(length))
        return rng.choice(STRINGS).encode("utf-8")
    if cat in ("uint", "block", "cf"):
        if length is not None:
            if length == 0:
                return b""
            return bytes([rng.randint(1, 255)]) + bytes(rng.randrange(256) for _ in range(length - 1))
        if rng.random() < 0.7:
            return uint_bytes(rng.choice(UINTS))
        return uint_bytes(rng.getrandbits(rng.choice([1, 4, 8, 12, 16, 20, 32, 64])))
    # opaque / unknown
    n = length if length is not None else rng.choice(LENS[:9] + [rng.randint(0, 40)])
    r = rng.random()
    if r < 0.15:
        return bytes(n)
    if r < 0.3:
        return b"\xff" * n
    return bytes(rng.randrange(256) for _ in range(n))


def gen_message(rng, impl, rich=True):
    ty = rng.randrange(4)
    code = rng.choice([0, 1, 2, 3, 4, 5, 7, 31, 32, 65, 68, 69, 95, 128, 132, 160, 165, 224, 255, rng.randrange(256)])
    mid = rng.choice([0, 1, 255, 256, 0x1234, 65534, 65535, rng.randrange(65536)])
    tkl = rng.choice([0, 0, 1, 2, 4, 7, 8, rng.randint(0, 8)])
    tok = bytes(rng.randrange(256) for _ in range(tkl))
    nopts = rng.choice([0, 1, 1, 2, 2, 3, 4, 6]) if rich else rng.choice([0, 1, 2])
    nums = []
    style = rng.random()
    for _ in range(nopts):
        if style < 0.5:
            nums.append(rng.choice(KNOWN))
        elif style < 0.8:
            nums.append(rng.choice(KNOWN + UNKNOWN))
        else:
            nums.append(rng.choice(UNKNOWN + [rng.randint(0, 70000)]))
    if nums and rng.random() < 0.4:
        nums.append(rng.choice(nums))  # repeated option
    nums.sort()
    # keep deltas encodable
    out = []
    prev = 0
    for n in nums:
        if n - prev > 65804:
            n = prev + 65804
        out.append(n)
        prev = n
    opts = []
    for n in out:
        cat = impl.category(n)
        length = rng.choice(LENS) if rng.random() < 0.35 else None
        if cat in ("uint", "block", "cf") and length is not None and length > 14:
            length = rng.choice([12, 13, 14])
        opts.append((n, gen_value(rng, cat, length)))
    pay = rng.choice([b"", b"", b"\x00", b"\xff", b"hello", b"\xff\xff", bytes(rng.randrange(256) for _ in range(rng.randint(1, 40)))])
    return (ty, code, mid, tok, opts, pay)


def boundary_messages(impl):
    """Deterministic sweep: every extended-field boundary as option delta (as
    first option and after a predecessor) and as value length, for every
    option format; all four types; code / mid / token-length extremes."""
    B = [0, 1, 12, 13, 14, 268, 269, 270, 65803, 65804]
    out = []
    for d in B:
        out.append((0, 1, 1, b"", [(d, b"")], b""))
        out.append((1, 2, 2, b"\x01", [(11, b"p"), (11 + d, b"\x01")], b"x"))
        out.append((2, 69, 3, b"", [(60000, b""), (60000 + d, b"\x07\x08")], b""))
    for l in [0, 1, 12, 13, 14, 268, 269, 270]:
        for n in [1, 11, 4, 300, 65535]:
            cat = impl.category(n)
            v = b"a" * l if cat == "string" else (b"\x01" + b"\x00" * (l - 1) if l else b"")
            out.append((0, 2, 7, b"\xaa\xbb", [(n, v)], b""))
            out.append((0, 2, 7, b"\xaa\xbb", [(n, v), (n, v[:1])], b"\xffpayload"))
    for l in [0, 1, 2, 3, 4, 8, 12, 13]:
        for n in [6, 7, 12, 14, 17, 23, 27, 28, 60, 258, 16, 13]:
            v = (b"\x01" + b"\xfe" * (l - 1)) if l else b""
            out.append((1, 69, 9, b"", [(n, v)], b""))
    for ty in range(4):
        for code in (0, 1, 31, 32, 69, 255):
            for tkl in (0, 1, 8):
                out.append((ty, code, 0xFFFF if tkl else 0, bytes(range(1, tkl + 1)), [], b"" if code == 0 else b"\x00"))
    for code in range(256):
        out.append((0, code, 0x8001, b"\x00", [], b""))
    return out


def unicode_messages(impl):
    """Every value of the string sweep (Unicode normal forms, control
    characters, RFC 3986-meaningful segments) in every string-format option:
    alone, between two ordinary values, repeated, and all string options
    together.  Deterministic: the same at every seed."""
    nums = sorted(set(STRING_OPTS) | set(n for n in KNOWN if impl.category(n) == "string"))
    out = []
    for n in nums:
        for s in STRING_SWEEP:
            out.append((0, 1, 0x0101, b"\x07", [(n, s.encode("utf-8"))], b""))
        for s in CONTROL_SAMPLES + SEGMENTS:
            out.append((2, 65, 0x0103, b"", [(n, b"a"), (n, s.encode("utf-8")), (n, b"b")], b""))
        out.append((1, 2, 0x0102, b"", [(n, s.encode("utf-8")) for s in UNICODE_SAMPLES[3:9]], b"p"))
    for k, s in enumerate(UNICODE_SAMPLES):
        out.append((0, 69, 0x0200 + k, b"tk", [(n, UNICODE_SAMPLES[(k + j) % len(UNICODE_SAMPLES)].encode("utf-8")) for j, n in enumerate(nums)], b"\xffx"))
    return out


def uint_messages(impl):
    """Every protocol-significant uint value in every uint-format option
    (alone), and each option's own special values next to other options."""
    nums = sorted(set(UINT_SPECIALS) | set(n for n in KNOWN if impl.category(n) in ("uint", "block", "cf")))
    out = []
    for n in nums:
        for v in PROTOCOL_UINTS:
            out.append((1, 69, 0x0301, b"u", [(n, uint_bytes(v))], b""))
        for v in UINT_SPECIALS.get(n, [0, 1]):
            opts = sorted([(4, b"\xe7"), (11, b"res"), (n, uint_bytes(v)), (292, b"")], key=lambda o: o[0])
            out.append((0, 69, 0x0302, b"\x01\x02", opts, b"x"))
    # all of them in one message, each with its default / first special value
    out.append((2, 69, 0x0303, b"", [(n, uint_bytes(UINT_SPECIALS.get(n, [0])[0])) for n in nums], b"\x00"))
    return out


def huge_messages():
    """65803 / 65804 as value length and as delta, real bytes."""
    out = []
    for l in (65803, 65804):
        out.append((0, 2, 1, b"", [(1, b"\x5a" * l)], b""))
        out.append((0, 2, 1, b"t", [(11, b"a" * l)], b"p"))
        out.append((0, 2, 1, b"", [(l, b"")], b""))
        out.append((0, 2, 1, b"", [(11, b"a"), (11 + l, b"\x01\x02")], b""))
        out.append((0, 2, 1, b"", [(l, b""), (2 * l, b"\x01")], b""))
    return out


# --------------------------------------------------------------------------
# byte-string mutations of valid datagrams
def structure(d):
    """Positions of a *valid* datagram that carry structure (header bytes,
    option header bytes, extension bytes, payload marker).  Only used to choose
    where to substitute all 256 values; not an oracle."""
    pos = set(range(min(4, len(d))))
    tkl = d[0] & 15
    i = 4 + tkl
    while i < len(d):
        pos.add(i)
        if d[i] == 0xFF:
            break
        dn, ln = d[i] >> 4, d[i] & 15
        j = i + 1
        vals = []
        for nib in (dn, ln):
            if nib == 13:
                pos.add(j)
                vals.append(d[j] + 13 if j < len(d) else 0)
                j += 1
            elif nib == 14:
                pos.update((j, j + 1))
                vals.append(int.from_bytes(d[j : j + 2], "big") + 269)
                j += 2
            else:
                vals.append(nib)
        i = j + vals[1]
    return {p for p in pos if p < len(d)}


INSERT_BYTES = [0x00, 0x01, 0x0D, 0x0F, 0x61, 0x80, 0xB1, 0xC3, 0xE0, 0xFF]


def mutations(d, rng, max_plain=24):
    """Every single-byte substitution at structural positions, all 8 bit flips
    at the other positions (sampled when the datagram is long), every
    truncation, insertions of characteristic bytes at every position, single
    deletions."""
    d = bytes(d)
    st = structure(d)
    out = set()
    plain = [p for p in range(len(d)) if p not in st]
    if len(plain) > max_plain:
        keep = set(plain[:3] + plain[-3:])
        keep.update(rng.sample(plain, max_plain - 6))
        plain = sorted(keep)
    for p in st:
        for x in range(256):
            if x != d[p]:
                out.add(d[:p] + bytes([x]) + d[p + 1 :])
    for p in plain:
        for bit in range(8):
            out.add(d[:p] + bytes([d[p] ^ (1 << bit)]) + d[p + 1 :])
    cuts = range(len(d)) if len(d) <= 80 else sorted(set(list(range(40)) + list(range(len(d) - 20, len(d))) + rng.sample(range(len(d)), 20)))
    for n in cuts:
        out.add(d[:n])
    ins = range(len(d) + 1) if len(d) <= 60 else sorted(set(list(range(30)) + [len(d) - 1, len(d)] + rng.sample(range(len(d)), 10)))
    for p in ins:
        for x in INSERT_BYTES:
            out.add(d[:p] + bytes([x]) + d[p:])
    dels = range(len(d)) if len(d) <= 60 else list(range(30))
    for p in dels:
        out.add(d[:p] + d[p + 1 :])
    out.discard(d)
    return out


# --------------------------------------------------------------------------
# the real UDP receive path
class UdpPath:
    """Real MessageInterfaceUDP6 on the fake socket; the message manager behind
    it is replaced by a recorder, so that what is observed is exactly the
    transport's reaction to one datagram: handed on, or dropped, and whether
    anything reached the loop's exception handler."""

    class _Recorder:
        def __init__(self):
            self.msgs = []

        def dispatch_message(self, message):
            self.msgs.append(message)

        def dispatch_error(self, *a, **k):
            pass

    def __init__(self):
        from .sut import World
        from .fakenet import sockaddr

        self.w = World()
        self.ctx = self.w.run(self.w.make_context())
        self.mint = self.ctx._verif["mint"]
        self.sock = self.ctx._verif["sock"]
        self.rec = self._Recorder()
        self.mint._ctx = self.rec
        self.src = sockaddr(1)

    async def _push(self, data):
        w = self.w
        n0 = len(w.loop.exceptions)
        self.rec.msgs.clear()
        w.logcap.records.clear()
        sent0 = len(w.net.sent)
        if not w.net.inject(self.sock, data, self.src):
            raise MachineryError("fake socket refused a datagram")
        await w.loop.settle()
        excs = [c.get("exception") for c in w.loop.exceptions[n0:]]
        del w.loop.exceptions[n0:]
        errs = [r.getMessage() for r in w.logcap.errors()]
        return list(self.rec.msgs), excs, errs, len(w.net.sent) - sent0

    def push(self, data):
        return self.w.run(self._push(data))

    def close(self):
        try:
            self.w.close()
        except Exception:
            pass
