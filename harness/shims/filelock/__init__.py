"""Stand-in for the `filelock` package: an advisory lock on a lock file
(fcntl.flock, non-blocking with polling up to `timeout`).  Used only when the
real package is missing."""

import fcntl
import os
import time

__all__ = ["FileLock", "Timeout", "BaseFileLock", "UnixFileLock"]


class Timeout(TimeoutError):
    def __init__(self, lock_file):
        super().__init__("The file lock '%s' could not be acquired." % lock_file)
        self.lock_file = lock_file


class BaseFileLock:
    def __init__(self, lock_file, timeout=-1, mode=0o644, **kwargs):
        self._lock_file = os.fspath(lock_file)
        self.timeout = timeout
        self._mode = mode
        self._fd = None
        self._counter = 0

    @property
    def lock_file(self):
        return self._lock_file

    @property
    def is_locked(self):
        return self._fd is not None

    def acquire(self, timeout=None, poll_interval=0.05, **kwargs):
        if timeout is None:
            timeout = self.timeout
        self._counter += 1
        if self._fd is not None:
            return self
        start = time.monotonic()
        while True:
            fd = os.open(self._lock_file, os.O_RDWR | os.O_CREAT | os.O_TRUNC, self._mode)
            try:
                fcntl.flock(fd, fcntl.LOCK_EX | fcntl.LOCK_NB)
            except OSError:
                os.close(fd)
                if 0 <= timeout <= time.monotonic() - start:
                    self._counter -= 1
                    raise Timeout(self._lock_file)
                time.sleep(poll_interval)
                continue
            self._fd = fd
            return self

    def release(self, force=False):
        if self._fd is None:
            return
        self._counter -= 1
        if self._counter <= 0 or force:
            fd, self._fd = self._fd, None
            self._counter = 0
            try:
                fcntl.flock(fd, fcntl.LOCK_UN)
            finally:
                os.close(fd)

    def __enter__(self):
        self.acquire()
        return self

    def __exit__(self, *a):
        self.release()

    def __del__(self):
        try:
            self.release(force=True)
        except Exception:
            pass


class UnixFileLock(BaseFileLock):
    pass


FileLock = UnixFileLock
