class _Backend:
    name = "verif-shim"


_backend = _Backend()


def default_backend():
    return _backend
