"""HKDF (RFC 5869) on top of hmac/hashlib."""
import hashlib
import hmac

from cryptography.exceptions import AlreadyFinalized, InvalidKey


class HKDFExpand:
    def __init__(self, algorithm, length, info, backend=None):
        self._name = algorithm.name
        self._hlen = algorithm.digest_size
        if length > 255 * self._hlen:
            raise ValueError("Cannot derive keys larger than %d octets." % (255 * self._hlen))
        self._length = length
        self._info = b"" if info is None else bytes(info)
        self._used = False

    def _expand(self, prk):
        out = b""
        t = b""
        i = 1
        while len(out) < self._length:
            t = hmac.new(prk, t + self._info + bytes((i,)), self._name).digest()
            out += t
            i += 1
        return out[: self._length]

    def derive(self, key_material):
        if self._used:
            raise AlreadyFinalized
        self._used = True
        return self._expand(bytes(key_material))

    def verify(self, key_material, expected_key):
        if not hmac.compare_digest(self.derive(key_material), expected_key):
            raise InvalidKey


class HKDF:
    def __init__(self, algorithm, length, salt, info, backend=None):
        self._name = algorithm.name
        self._hlen = algorithm.digest_size
        if salt is None or len(salt) == 0:
            salt = b"\0" * self._hlen
        self._salt = bytes(salt)
        self._expander = HKDFExpand(algorithm, length, info)
        self._used = False

    def _extract(self, ikm):
        return hmac.new(self._salt, ikm, self._name).digest()

    def derive(self, key_material):
        if self._used:
            raise AlreadyFinalized
        self._used = True
        return self._expander._expand(self._extract(bytes(key_material)))

    def verify(self, key_material, expected_key):
        if not hmac.compare_digest(self.derive(key_material), expected_key):
            raise InvalidKey
