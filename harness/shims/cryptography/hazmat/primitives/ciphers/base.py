class Cipher:
    """Name only: block-cipher modes other than CCM (A128CBC is used by Group
    OSCORE only) are not implemented in the stand-in."""

    def __init__(self, algorithm, mode, backend=None):
        self.algorithm = algorithm
        self.mode = mode

    def encryptor(self):
        raise NotImplementedError("Cipher contexts are not implemented in the verification stand-in for `cryptography`")

    def decryptor(self):
        raise NotImplementedError("Cipher contexts are not implemented in the verification stand-in for `cryptography`")
