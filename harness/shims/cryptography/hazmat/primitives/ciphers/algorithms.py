class AES:
    name = "AES"
    block_size = 128

    def __init__(self, key):
        self.key = bytes(key)
        if len(self.key) not in (16, 24, 32):
            raise ValueError("Invalid key size (%d) for AES." % (len(self.key) * 8))

    @property
    def key_size(self):
        return len(self.key) * 8


AES128 = AES
AES256 = AES
