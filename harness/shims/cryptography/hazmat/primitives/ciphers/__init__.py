from cryptography.hazmat.primitives.ciphers import base, algorithms, modes  # noqa: F401
from cryptography.hazmat.primitives.ciphers.base import Cipher  # noqa: F401
