"""AES block encryption (FIPS 197), table based, forward direction only (that
is all CCM/CTR need).  Key schedules are cached per key."""

import functools


def _xtime(a):
    a <<= 1
    return (a ^ 0x11B) & 0xFF if a & 0x100 else a


def _build():
    # multiplicative inverse via log/antilog tables with generator 3
    exp = [0] * 510
    log = [0] * 256
    x = 1
    for i in range(255):
        exp[i] = x
        log[x] = i
        x ^= _xtime(x)  # multiply by 3
    for i in range(255, 510):
        exp[i] = exp[i - 255]
    sbox = [0] * 256
    for a in range(256):
        inv = 0 if a == 0 else exp[255 - log[a]]
        s = inv
        r = inv
        for _ in range(4):
            r = ((r << 1) | (r >> 7)) & 0xFF
            s ^= r
        sbox[a] = s ^ 0x63
    t0 = [0] * 256
    t1 = [0] * 256
    t2 = [0] * 256
    t3 = [0] * 256
    for a in range(256):
        s = sbox[a]
        s2 = _xtime(s)
        s3 = s2 ^ s
        w = (s2 << 24) | (s << 16) | (s << 8) | s3
        t0[a] = w
        t1[a] = ((w >> 8) | (w << 24)) & 0xFFFFFFFF
        t2[a] = ((w >> 16) | (w << 16)) & 0xFFFFFFFF
        t3[a] = ((w >> 24) | (w << 8)) & 0xFFFFFFFF
    return sbox, t0, t1, t2, t3


SBOX, T0, T1, T2, T3 = _build()
assert SBOX[0] == 0x63 and SBOX[0x53] == 0xED and SBOX[0xFF] == 0x16


@functools.lru_cache(maxsize=4096)
def expand_key(key):
    nk = len(key) // 4
    if len(key) not in (16, 24, 32):
        raise ValueError("Invalid AES key size")
    nr = nk + 6
    w = [int.from_bytes(key[4 * i : 4 * i + 4], "big") for i in range(nk)]
    rcon = 1
    sb = SBOX
    for i in range(nk, 4 * (nr + 1)):
        t = w[i - 1]
        if i % nk == 0:
            t = ((t << 8) | (t >> 24)) & 0xFFFFFFFF
            t = (sb[t >> 24] << 24) | (sb[(t >> 16) & 255] << 16) | (sb[(t >> 8) & 255] << 8) | sb[t & 255]
            t ^= rcon << 24
            rcon = _xtime(rcon)
        elif nk > 6 and i % nk == 4:
            t = (sb[t >> 24] << 24) | (sb[(t >> 16) & 255] << 16) | (sb[(t >> 8) & 255] << 8) | sb[t & 255]
        w.append(w[i - nk] ^ t)
    return tuple(w), nr


def encrypt_block(rk, nr, block):
    """block: 16 bytes -> 16 bytes"""
    t0, t1, t2, t3, sb = T0, T1, T2, T3, SBOX
    n = int.from_bytes(block, "big")
    s0 = (n >> 96) ^ rk[0]
    s1 = ((n >> 64) & 0xFFFFFFFF) ^ rk[1]
    s2 = ((n >> 32) & 0xFFFFFFFF) ^ rk[2]
    s3 = (n & 0xFFFFFFFF) ^ rk[3]
    k = 4
    for _ in range(nr - 1):
        a0 = t0[s0 >> 24] ^ t1[(s1 >> 16) & 255] ^ t2[(s2 >> 8) & 255] ^ t3[s3 & 255] ^ rk[k]
        a1 = t0[s1 >> 24] ^ t1[(s2 >> 16) & 255] ^ t2[(s3 >> 8) & 255] ^ t3[s0 & 255] ^ rk[k + 1]
        a2 = t0[s2 >> 24] ^ t1[(s3 >> 16) & 255] ^ t2[(s0 >> 8) & 255] ^ t3[s1 & 255] ^ rk[k + 2]
        a3 = t0[s3 >> 24] ^ t1[(s0 >> 16) & 255] ^ t2[(s1 >> 8) & 255] ^ t3[s2 & 255] ^ rk[k + 3]
        s0, s1, s2, s3 = a0, a1, a2, a3
        k += 4
    b0 = ((sb[s0 >> 24] << 24) | (sb[(s1 >> 16) & 255] << 16) | (sb[(s2 >> 8) & 255] << 8) | sb[s3 & 255]) ^ rk[k]
    b1 = ((sb[s1 >> 24] << 24) | (sb[(s2 >> 16) & 255] << 16) | (sb[(s3 >> 8) & 255] << 8) | sb[s0 & 255]) ^ rk[k + 1]
    b2 = ((sb[s2 >> 24] << 24) | (sb[(s3 >> 16) & 255] << 16) | (sb[(s0 >> 8) & 255] << 8) | sb[s1 & 255]) ^ rk[k + 2]
    b3 = ((sb[s3 >> 24] << 24) | (sb[(s0 >> 16) & 255] << 16) | (sb[(s1 >> 8) & 255] << 8) | sb[s2 & 255]) ^ rk[k + 3]
    return ((b0 << 96) | (b1 << 64) | (b2 << 32) | b3).to_bytes(16, "big")


def encrypt_int(rk, nr, n):
    """Same on a 128-bit integer, returning an integer (saves conversions in CBC-MAC/CTR)."""
    t0, t1, t2, t3, sb = T0, T1, T2, T3, SBOX
    s0 = (n >> 96) ^ rk[0]
    s1 = ((n >> 64) & 0xFFFFFFFF) ^ rk[1]
    s2 = ((n >> 32) & 0xFFFFFFFF) ^ rk[2]
    s3 = (n & 0xFFFFFFFF) ^ rk[3]
    k = 4
    for _ in range(nr - 1):
        a0 = t0[s0 >> 24] ^ t1[(s1 >> 16) & 255] ^ t2[(s2 >> 8) & 255] ^ t3[s3 & 255] ^ rk[k]
        a1 = t0[s1 >> 24] ^ t1[(s2 >> 16) & 255] ^ t2[(s3 >> 8) & 255] ^ t3[s0 & 255] ^ rk[k + 1]
        a2 = t0[s2 >> 24] ^ t1[(s3 >> 16) & 255] ^ t2[(s0 >> 8) & 255] ^ t3[s1 & 255] ^ rk[k + 2]
        a3 = t0[s3 >> 24] ^ t1[(s0 >> 16) & 255] ^ t2[(s1 >> 8) & 255] ^ t3[s2 & 255] ^ rk[k + 3]
        s0, s1, s2, s3 = a0, a1, a2, a3
        k += 4
    b0 = ((sb[s0 >> 24] << 24) | (sb[(s1 >> 16) & 255] << 16) | (sb[(s2 >> 8) & 255] << 8) | sb[s3 & 255]) ^ rk[k]
    b1 = ((sb[s1 >> 24] << 24) | (sb[(s2 >> 16) & 255] << 16) | (sb[(s3 >> 8) & 255] << 8) | sb[s0 & 255]) ^ rk[k + 1]
    b2 = ((sb[s2 >> 24] << 24) | (sb[(s3 >> 16) & 255] << 16) | (sb[(s0 >> 8) & 255] << 8) | sb[s1 & 255]) ^ rk[k + 2]
    b3 = ((sb[s3 >> 24] << 24) | (sb[(s0 >> 16) & 255] << 16) | (sb[(s1 >> 8) & 255] << 8) | sb[s2 & 255]) ^ rk[k + 3]
    return (b0 << 96) | (b1 << 64) | (b2 << 32) | b3
