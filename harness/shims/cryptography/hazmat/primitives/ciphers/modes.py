class Mode:
    name = ""


class CBC(Mode):
    name = "CBC"

    def __init__(self, initialization_vector):
        self.initialization_vector = bytes(initialization_vector)


class CTR(Mode):
    name = "CTR"

    def __init__(self, nonce):
        self.nonce = bytes(nonce)


class ECB(Mode):
    name = "ECB"
