"""AEAD constructions.  AESCCM (RFC 3610 / SP 800-38C) is implemented; AESGCM
and ChaCha20Poly1305 only exist so that imports succeed."""

import hmac

from cryptography.exceptions import InvalidTag
from cryptography.hazmat.primitives.ciphers import _aes


class AESCCM:
    _MAX_SIZE = 2**31 - 1

    def __init__(self, key, tag_length=16):
        key = bytes(key)
        if len(key) not in (16, 24, 32):
            raise ValueError("AESCCM key must be 128, 192, or 256 bits.")
        if not isinstance(tag_length, int):
            raise TypeError("tag_length must be an integer")
        if tag_length not in (4, 6, 8, 10, 12, 14, 16):
            raise ValueError("Invalid tag_length")
        self._key = key
        self._tag_length = tag_length
        self._rk, self._nr = _aes.expand_key(key)

    @classmethod
    def generate_key(cls, bit_length):
        import os

        if bit_length not in (128, 192, 256):
            raise ValueError("bit_length must be 128, 192, or 256")
        return os.urandom(bit_length // 8)

    def _check(self, nonce, data, associated_data):
        if not isinstance(nonce, (bytes, bytearray, memoryview)):
            raise TypeError("nonce must be bytes-like")
        if not isinstance(data, (bytes, bytearray, memoryview)):
            raise TypeError("data must be bytes-like")
        if associated_data is not None and not isinstance(associated_data, (bytes, bytearray, memoryview)):
            raise TypeError("associated_data must be bytes-like")
        if not 7 <= len(nonce) <= 13:
            raise ValueError("Nonce must be between 7 and 13 bytes")

    def _mac(self, nonce, msg, aad):
        """CBC-MAC T over B0 | encoded aad | msg (integer)"""
        rk, nr = self._rk, self._nr
        enc = _aes.encrypt_int
        L = 15 - len(nonce)
        t = self._tag_length
        flags = (64 if aad else 0) | (((t - 2) // 2) << 3) | (L - 1)
        b0 = bytes((flags,)) + nonce + len(msg).to_bytes(L, "big")
        x = enc(rk, nr, int.from_bytes(b0, "big"))
        if aad:
            la = len(aad)
            if la < 0xFF00:
                a = la.to_bytes(2, "big") + aad
            elif la < 1 << 32:
                a = b"\xff\xfe" + la.to_bytes(4, "big") + aad
            else:
                a = b"\xff\xff" + la.to_bytes(8, "big") + aad
            if len(a) % 16:
                a += b"\0" * (16 - len(a) % 16)
            for i in range(0, len(a), 16):
                x = enc(rk, nr, x ^ int.from_bytes(a[i : i + 16], "big"))
        if msg:
            m = msg
            if len(m) % 16:
                m = m + b"\0" * (16 - len(m) % 16)
            for i in range(0, len(m), 16):
                x = enc(rk, nr, x ^ int.from_bytes(m[i : i + 16], "big"))
        return x

    def _ctr(self, nonce, data):
        """returns (S0 as int, data xor keystream S1..)"""
        rk, nr = self._rk, self._nr
        enc = _aes.encrypt_int
        L = 15 - len(nonce)
        base = int.from_bytes(bytes((L - 1,)) + nonce + b"\0" * L, "big")
        s0 = enc(rk, nr, base)
        n = len(data)
        if n == 0:
            return s0, b""
        nblocks = (n + 15) // 16
        ks = b"".join(enc(rk, nr, base + i).to_bytes(16, "big") for i in range(1, nblocks + 1))
        out = (int.from_bytes(data, "big") ^ int.from_bytes(ks[:n], "big")).to_bytes(n, "big")
        return s0, out

    def encrypt(self, nonce, data, associated_data):
        self._check(nonce, data, associated_data)
        nonce, data = bytes(nonce), bytes(data)
        aad = b"" if associated_data is None else bytes(associated_data)
        L = 15 - len(nonce)
        if len(data) >= 1 << (8 * L):
            raise ValueError("Data too long for nonce")
        t = self._tag_length
        mac = self._mac(nonce, data, aad)
        s0, ct = self._ctr(nonce, data)
        tag = ((mac ^ s0) >> (8 * (16 - t))).to_bytes(t, "big")
        return ct + tag

    def decrypt(self, nonce, data, associated_data):
        self._check(nonce, data, associated_data)
        nonce, data = bytes(nonce), bytes(data)
        aad = b"" if associated_data is None else bytes(associated_data)
        t = self._tag_length
        if len(data) < t:
            raise InvalidTag
        L = 15 - len(nonce)
        ct, tag = data[:-t], data[-t:]
        if len(ct) >= 1 << (8 * L):
            raise ValueError("Data too long for nonce")
        s0, pt = self._ctr(nonce, ct)
        mac = self._mac(nonce, pt, aad)
        expected = ((mac ^ s0) >> (8 * (16 - t))).to_bytes(t, "big")
        if not hmac.compare_digest(expected, tag):
            raise InvalidTag
        return pt


class _Unavailable:
    _what = "?"

    def __init__(self, key, *a, **kw):
        self._key = bytes(key)

    def encrypt(self, nonce, data, associated_data):
        raise NotImplementedError("%s is not implemented in the verification stand-in for `cryptography`" % self._what)

    def decrypt(self, nonce, data, associated_data):
        raise NotImplementedError("%s is not implemented in the verification stand-in for `cryptography`" % self._what)


class AESGCM(_Unavailable):
    _what = "AESGCM"


class ChaCha20Poly1305(_Unavailable):
    _what = "ChaCha20Poly1305"


class AESOCB3(_Unavailable):
    _what = "AESOCB3"


class AESSIV(_Unavailable):
    _what = "AESSIV"
