import enum


class Encoding(enum.Enum):
    PEM = "PEM"
    DER = "DER"
    OpenSSH = "OpenSSH"
    Raw = "Raw"
    X962 = "ANSI X9.62"
    SMIME = "S/MIME"


class PrivateFormat(enum.Enum):
    PKCS8 = "PKCS8"
    TraditionalOpenSSL = "TraditionalOpenSSL"
    Raw = "Raw"
    OpenSSH = "OpenSSH"


class PublicFormat(enum.Enum):
    SubjectPublicKeyInfo = "X.509 subjectPublicKeyInfo with PKCS#1"
    PKCS1 = "Raw PKCS#1"
    OpenSSH = "OpenSSH"
    Raw = "Raw"
    CompressedPoint = "X9.62 Compressed Point"
    UncompressedPoint = "X9.62 Uncompressed Point"


class KeySerializationEncryption:
    pass


class NoEncryption(KeySerializationEncryption):
    pass


class BestAvailableEncryption(KeySerializationEncryption):
    def __init__(self, password):
        self.password = password
