from cryptography.hazmat.primitives.asymmetric._na import not_available

decode_dss_signature = not_available("decode_dss_signature")
encode_dss_signature = not_available("encode_dss_signature")
