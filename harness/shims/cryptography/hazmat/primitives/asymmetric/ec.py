from cryptography.hazmat.primitives.asymmetric._na import NotAvailable, not_available


class EllipticCurve:
    name = ""
    key_size = 0


class SECP256R1(EllipticCurve):
    name = "secp256r1"
    key_size = 256


class SECP384R1(EllipticCurve):
    name = "secp384r1"
    key_size = 384


class ECDSA:
    def __init__(self, algorithm, deterministic_signing=False):
        self.algorithm = algorithm


class ECDH:
    pass


class EllipticCurvePublicNumbers(NotAvailable):
    pass


class EllipticCurvePrivateNumbers(NotAvailable):
    pass


class EllipticCurvePublicKey(NotAvailable):
    pass


class EllipticCurvePrivateKey(NotAvailable):
    pass


generate_private_key = not_available("ec.generate_private_key")
derive_private_key = not_available("ec.derive_private_key")
