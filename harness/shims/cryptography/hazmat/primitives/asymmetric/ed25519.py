from cryptography.hazmat.primitives.asymmetric._na import NotAvailable


class Ed25519PrivateKey(NotAvailable):
    pass


class Ed25519PublicKey(NotAvailable):
    pass
