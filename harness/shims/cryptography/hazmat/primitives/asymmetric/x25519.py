from cryptography.hazmat.primitives.asymmetric._na import NotAvailable


class X25519PrivateKey(NotAvailable):
    pass


class X25519PublicKey(NotAvailable):
    pass
