def not_available(name):
    def f(*a, **kw):
        raise NotImplementedError("%s is not implemented in the verification stand-in for `cryptography`" % name)

    return f


class NotAvailable:
    """Base of the asymmetric names: they exist, but cannot be used."""

    def __init__(self, *a, **kw):
        raise NotImplementedError(
            "%s is not implemented in the verification stand-in for `cryptography`" % type(self).__name__
        )

    @classmethod
    def generate(cls, *a, **kw):
        raise NotImplementedError("%s is not implemented in the verification stand-in for `cryptography`" % cls.__name__)

    @classmethod
    def from_private_bytes(cls, *a, **kw):
        raise NotImplementedError("%s is not implemented in the verification stand-in for `cryptography`" % cls.__name__)

    @classmethod
    def from_public_bytes(cls, *a, **kw):
        raise NotImplementedError("%s is not implemented in the verification stand-in for `cryptography`" % cls.__name__)
