from cryptography.hazmat.primitives.asymmetric import ed25519, x25519, ec, utils  # noqa: F401
