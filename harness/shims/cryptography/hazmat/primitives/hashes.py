import hashlib

from cryptography.exceptions import AlreadyFinalized


class HashAlgorithm:
    name = ""
    digest_size = 0
    block_size = 0


class SHA1(HashAlgorithm):
    name, digest_size, block_size = "sha1", 20, 64


class SHA224(HashAlgorithm):
    name, digest_size, block_size = "sha224", 28, 64


class SHA256(HashAlgorithm):
    name, digest_size, block_size = "sha256", 32, 64


class SHA384(HashAlgorithm):
    name, digest_size, block_size = "sha384", 48, 128


class SHA512(HashAlgorithm):
    name, digest_size, block_size = "sha512", 64, 128


class HashContext:
    pass


class Hash(HashContext):
    def __init__(self, algorithm, backend=None):
        if not isinstance(algorithm, HashAlgorithm):
            raise TypeError("Expected instance of hashes.HashAlgorithm.")
        self._algorithm = algorithm
        self._h = hashlib.new(algorithm.name)

    @property
    def algorithm(self):
        return self._algorithm

    def update(self, data):
        if self._h is None:
            raise AlreadyFinalized("Context was already finalized.")
        self._h.update(bytes(data))

    def copy(self):
        if self._h is None:
            raise AlreadyFinalized("Context was already finalized.")
        c = Hash(self._algorithm)
        c._h = self._h.copy()
        return c

    def finalize(self):
        if self._h is None:
            raise AlreadyFinalized("Context was already finalized.")
        d = self._h.digest()
        self._h = None
        return d
