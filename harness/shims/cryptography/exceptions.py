class UnsupportedAlgorithm(Exception):
    def __init__(self, message="", reason=None):
        super().__init__(message)
        self._reason = reason


class AlreadyFinalized(Exception):
    pass


class AlreadyUpdated(Exception):
    pass


class NotYetFinalized(Exception):
    pass


class InvalidTag(Exception):
    pass


class InvalidSignature(Exception):
    pass


class InternalError(Exception):
    pass


class InvalidKey(Exception):
    pass
