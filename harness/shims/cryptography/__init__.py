"""Stand-in for the `cryptography` package (only what aiocoap.oscore needs for
plain OSCORE: AES-CCM, HKDF, SHA-2).  Pure Python, NOT constant time, not for
production use.  Used only when the real package is missing."""

__version__ = "0+verif.shim"
IS_VERIF_SHIM = True
