"""Minimal CBOR (RFC 8949) encoder/decoder: the subset OSCORE needs
(integers, byte/text strings, arrays, maps, false/true/null, tags passed
through).  Stand-in for the `cbor2` package, used only when that is missing."""

import struct

__all__ = ["dumps", "loads", "CBORDecodeError", "CBOREncodeError", "CBORTag", "CBORError"]


class CBORError(Exception):
    pass


class CBOREncodeError(CBORError):
    pass


class CBORDecodeError(CBORError, ValueError):
    pass


class CBORDecodeEOF(CBORDecodeError, EOFError):
    pass


class CBORTag:
    def __init__(self, tag, value):
        self.tag = tag
        self.value = value

    def __eq__(self, other):
        return isinstance(other, CBORTag) and (self.tag, self.value) == (other.tag, other.value)

    def __hash__(self):
        return hash((self.tag, repr(self.value)))

    def __repr__(self):
        return "CBORTag(%r, %r)" % (self.tag, self.value)


def _head(major, n):
    m = major << 5
    if n < 24:
        return bytes((m | n,))
    if n < 1 << 8:
        return bytes((m | 24, n))
    if n < 1 << 16:
        return bytes((m | 25,)) + n.to_bytes(2, "big")
    if n < 1 << 32:
        return bytes((m | 26,)) + n.to_bytes(4, "big")
    if n < 1 << 64:
        return bytes((m | 27,)) + n.to_bytes(8, "big")
    raise CBOREncodeError("integer out of range for this stand-in: %r" % n)


def _enc(o, out):
    if o is None:
        out.append(b"\xf6")
    elif o is True:
        out.append(b"\xf5")
    elif o is False:
        out.append(b"\xf4")
    elif isinstance(o, int):
        out.append(_head(0, o) if o >= 0 else _head(1, -1 - o))
    elif isinstance(o, (bytes, bytearray, memoryview)):
        b = bytes(o)
        out.append(_head(2, len(b)))
        out.append(b)
    elif isinstance(o, str):
        b = o.encode("utf-8")
        out.append(_head(3, len(b)))
        out.append(b)
    elif isinstance(o, (list, tuple)):
        out.append(_head(4, len(o)))
        for x in o:
            _enc(x, out)
    elif isinstance(o, dict):
        out.append(_head(5, len(o)))
        for k, v in o.items():
            _enc(k, out)
            _enc(v, out)
    elif isinstance(o, CBORTag):
        out.append(_head(6, o.tag))
        _enc(o.value, out)
    elif isinstance(o, float):
        out.append(b"\xfb" + struct.pack(">d", o))
    else:
        raise CBOREncodeError("cannot serialize type %s" % type(o).__name__)


def dumps(obj, **kwargs):
    out = []
    _enc(obj, out)
    return b"".join(out)


def dump(obj, fp, **kwargs):
    fp.write(dumps(obj))


class _Break(Exception):
    pass


def _need(data, i, n):
    if i + n > len(data):
        raise CBORDecodeEOF("premature end of stream (expected to read %d bytes, got %d instead)" % (n, len(data) - i))


def _dec(data, i, allow_break=False):
    _need(data, i, 1)
    ib = data[i]
    i += 1
    major, info = ib >> 5, ib & 0x1F
    if info < 24:
        n = info
    elif info == 24:
        _need(data, i, 1)
        n = data[i]
        i += 1
    elif info in (25, 26, 27):
        w = 1 << (info - 24)
        _need(data, i, w)
        raw = data[i : i + w]
        n = int.from_bytes(raw, "big")
        i += w
        if major == 7:
            if info == 25:
                return struct.unpack(">e", raw)[0], i
            if info == 26:
                return struct.unpack(">f", raw)[0], i
            return struct.unpack(">d", raw)[0], i
    elif info == 31:
        n = None  # indefinite length
        if major == 7:
            if allow_break:
                raise _Break()
            raise CBORDecodeError("unexpected break")
        if major in (0, 1, 6):
            raise CBORDecodeError("invalid additional information 31 for major type %d" % major)
    else:
        raise CBORDecodeError("reserved additional information %d" % info)
    if major == 0:
        return n, i
    if major == 1:
        return -1 - n, i
    if major in (2, 3):
        if n is None:
            chunks = []
            while True:
                _need(data, i, 1)
                if data[i] == 0xFF:
                    i += 1
                    break
                c, i = _dec(data, i)
                if not isinstance(c, (bytes, str)):
                    raise CBORDecodeError("non-string chunk in indefinite string")
                chunks.append(c if isinstance(c, bytes) else c.encode("utf-8"))
            b = b"".join(chunks)
        else:
            _need(data, i, n)
            b = bytes(data[i : i + n])
            i += n
        if major == 2:
            return b, i
        try:
            return b.decode("utf-8"), i
        except UnicodeDecodeError as e:
            raise CBORDecodeError("error decoding unicode string") from e
    if major == 4:
        items = []
        if n is None:
            while True:
                try:
                    x, i = _dec(data, i, allow_break=True)
                except _Break:
                    i += 1
                    break
                items.append(x)
        else:
            for _ in range(n):
                x, i = _dec(data, i)
                items.append(x)
        return items, i
    if major == 5:
        d = {}
        count = 0
        while n is None or count < n:
            try:
                k, i = _dec(data, i, allow_break=n is None)
            except _Break:
                i += 1
                break
            v, i = _dec(data, i)
            if isinstance(k, list):
                k = tuple(k)
            try:
                d[k] = v
            except TypeError as e:
                raise CBORDecodeError("unhashable map key") from e
            count += 1
        return d, i
    if major == 6:
        v, i = _dec(data, i)
        return CBORTag(n, v), i
    # major 7, simple values
    if n == 20:
        return False, i
    if n == 21:
        return True, i
    if n == 22:
        return None, i
    if n == 23:
        return None, i  # undefined
    raise CBORDecodeError("unsupported simple value %d" % n)


def loads(data, **kwargs):
    data = bytes(data)
    try:
        v, _ = _dec(data, 0)
    except _Break:
        raise CBORDecodeError("unexpected break")
    except RecursionError as e:
        raise CBORDecodeError("nesting too deep") from e
    return v


def load(fp, **kwargs):
    return loads(fp.read())
