"""Deterministic virtual-time asyncio loop.

``time()`` is a virtual clock: whenever the ready queue is empty the clock
jumps to the next scheduled timer.  Nothing ever blocks in the selector.  File
descriptors >= FAKE_FD_BASE belong to fake sockets: add_reader only remembers
the callback so the fake network can invoke the *real* transport's read
handler.

Time is kept as an integer number of ticks of 2**-20 s internally so that all
sums of dyadic delays are exact; ``time()`` returns ticks / 2**20 as a float
(exact for the magnitudes used here)."""

import asyncio
import heapq
import selectors

FAKE_FD_BASE = 10000
TICKS_PER_S = 1 << 20


class _NullSelector(selectors.BaseSelector):
    def __init__(self):
        self._map = {}

    def register(self, fileobj, events, data=None):
        key = selectors.SelectorKey(fileobj, fileobj if isinstance(fileobj, int) else fileobj.fileno(), events, data)
        self._map[key.fd] = key
        return key

    def unregister(self, fileobj):
        fd = fileobj if isinstance(fileobj, int) else fileobj.fileno()
        return self._map.pop(fd)

    def modify(self, fileobj, events, data=None):
        self.unregister(fileobj)
        return self.register(fileobj, events, data)

    def select(self, timeout=None):
        return []

    def get_map(self):
        return self._map

    def close(self):
        self._map.clear()


class _SeqHandle(asyncio.Handle):
    """Handle that numbers the callbacks the loop runs (loop.cb_seq): events logged by the harness can
    then be grouped by the callback that produced them."""

    __slots__ = ()

    def _run(self):
        self._loop.cb_seq += 1
        super()._run()


class _SeqTimerHandle(asyncio.TimerHandle):
    __slots__ = ()

    def _run(self):
        self._loop.cb_seq += 1
        super()._run()


class _SeqFuture(asyncio.Future):
    """Future that remembers during which callback it was completed (done-callbacks run later)."""

    def set_result(self, result):
        self._verif_cb_seq = self.get_loop().cb_seq
        super().set_result(result)

    def set_exception(self, exception):
        self._verif_cb_seq = self.get_loop().cb_seq
        super().set_exception(exception)


class VirtualLoop(asyncio.SelectorEventLoop):
    cb_seq = 0

    def _call_soon(self, callback, args, context):
        handle = _SeqHandle(callback, args, self, context)
        self._ready.append(handle)
        return handle

    def call_at(self, when, callback, *args, context=None):
        if when is None:
            raise TypeError("when cannot be None")
        self._check_closed()
        timer = _SeqTimerHandle(when, callback, args, self, context)
        heapq.heappush(self._scheduled, timer)
        timer._scheduled = True
        return timer

    def create_future(self):
        return _SeqFuture(loop=self)

    def __init__(self):
        super().__init__(selector=_NullSelector())
        self._vnow = 0.0
        self.fake_readers = {}
        self.exceptions = []  # contexts passed to the loop's exception handler
        self.set_exception_handler(self._record_exception)
        self.horizon = None  # virtual time beyond which run_until_idle stops
        self.steps = 0

    # -- name resolution: no executor thread; an address literal resolves to itself after `resolve_delay`
    #    virtual seconds (None: at once), anything else fails like an unknown name
    resolve_delay = None

    async def getaddrinfo(self, host, port, *, family=0, type=0, proto=0, flags=0):
        import socket as _socket

        if self.resolve_delay:
            await asyncio.sleep(self.resolve_delay)
        try:
            _socket.inet_pton(_socket.AF_INET6, host)
        except (OSError, TypeError):
            raise _socket.gaierror(_socket.EAI_NONAME, "Name or service not known")
        return [(_socket.AF_INET6, _socket.SOCK_DGRAM, _socket.IPPROTO_UDP, "", (host, port or 0, 0, 0))]

    # -- self pipe: never needed, nothing writes to the loop from threads ----
    def _make_self_pipe(self):
        self._ssock = None
        self._csock = None
        self._internal_fds += 0

    def _close_self_pipe(self):
        pass

    def _write_to_self(self):
        pass

    # -- clock -----------------------------------------------------------------
    def time(self):
        return self._vnow

    def ticks(self):
        return int(round(self._vnow * TICKS_PER_S))

    def _record_exception(self, loop, context):
        self.exceptions.append(context)

    # -- fake fds --------------------------------------------------------------
    def add_reader(self, fd, callback, *args):
        fdn = fd if isinstance(fd, int) else fd.fileno()
        if fdn >= FAKE_FD_BASE:
            self.fake_readers[fdn] = (callback, args)
            return
        return super().add_reader(fd, callback, *args)

    def remove_reader(self, fd):
        fdn = fd if isinstance(fd, int) else fd.fileno()
        if fdn >= FAKE_FD_BASE:
            return self.fake_readers.pop(fdn, None) is not None
        return super().remove_reader(fd)

    # -- the stepping engine ----------------------------------------------------
    def _run_once(self):
        # Drop cancelled timers at the head, then jump the clock if idle.
        sched = self._scheduled
        while sched and sched[0]._cancelled:
            self._timer_cancelled_count -= 1
            h = heapq.heappop(sched)
            h._scheduled = False
        if not self._ready and sched:
            when = sched[0]._when
            if when > self._vnow:
                self._vnow = when
        self.steps += 1
        super()._run_once()

    def next_timer(self):
        live = [h._when for h in self._scheduled if not h._cancelled]
        return min(live) if live else None

    async def drain(self, horizon=None, max_rounds=1000000, stop=None):
        """To be awaited from the driver coroutine: let everything else run,
        jumping the clock from timer to timer, until nothing is ready and no
        live timer at or before ``horizon`` (absolute virtual seconds; None =
        unbounded) remains."""
        for _ in range(max_rounds):
            await asyncio.sleep(0)
            if (stop is not None and stop()) or self._vnow > 3.0e6:
                return      # the budget (events, virtual time: about a month) is used up: a runaway execution
            if self._ready:
                continue
            nt = self.next_timer()
            if nt is None or (horizon is not None and nt > horizon):
                return
            fut = self.create_future()
            self.call_at(nt, lambda fut=fut: fut.done() or fut.set_result(None))
            await fut
        raise RuntimeError("drain: round budget exceeded")

    async def settle(self, rounds=10000):
        """Let ready callbacks run (no virtual time passes)."""
        for _ in range(rounds):
            await asyncio.sleep(0)
            if not self._ready:
                return
        raise RuntimeError("settle: round budget exceeded")

    async def advance_to(self, when):
        """Run everything due strictly before ``when`` and at ``when``, and
        leave the clock at ``when``."""
        if when > self._vnow:
            fut = self.create_future()
            self.call_at(when, lambda fut=fut: fut.done() or fut.set_result(None))
            await fut
        await self.settle()
