"""Running TLC (model checking, simulation, trace validation) and reading its
output."""

import glob
import json
import os
import re
import shutil
import subprocess
import tempfile
import time

from . import VERIF, MachineryError
from . import tlaval

JAR = "/opt/veriftools/tla/tla2tools.jar"
DEPS = "/opt/veriftools/tla/CommunityModules-deps.jar"
SPEC_DIR = os.path.join(VERIF, "spec")


class Workdir:
    """Scratch directory holding a copy of the spec modules plus generated
    cfg / trace files.  Removed on exit."""

    def __init__(self, keep=False):
        base = os.environ.get("VERIF_SCRATCH") or tempfile.gettempdir()
        self.path = tempfile.mkdtemp(prefix="verif-tlc-", dir=base)
        self.keep = keep
        for f in glob.glob(os.path.join(SPEC_DIR, "*.tla")) + glob.glob(os.path.join(SPEC_DIR, "*.cfg")):
            shutil.copy(f, self.path)

    def __enter__(self):
        return self

    def __exit__(self, *a):
        if not self.keep:
            shutil.rmtree(self.path, ignore_errors=True)

    def file(self, name):
        return os.path.join(self.path, name)

    def write(self, name, text):
        with open(self.file(name), "w") as f:
            f.write(text)
        return self.file(name)


class TlcResult:
    def __init__(self):
        self.rc = None
        self.out = ""
        self.generated = 0
        self.distinct = 0
        self.depth = 0
        self.violated = []  # names of invariants / properties reported violated
        self.error_trace = []  # list of (label, statedict)
        self.coverage = {}  # action name -> (distinct, taken)
        self.wall = 0.0
        self.timed_out = False
        self.printed = []  # values printed via PrintT (parsed where possible)

    @property
    def ok(self):
        return self.rc == 0 and not self.violated

    def summary(self):
        return {
            "rc": self.rc,
            "states_generated": self.generated,
            "distinct_states": self.distinct,
            "depth": self.depth,
            "violated": self.violated,
            "wall_s": round(self.wall, 2),
        }


_re_states = re.compile(r"(\d+) states generated, (\d+) distinct states found")
_re_depth = re.compile(r"The depth of the complete state graph search is (\d+)")
_re_inv = re.compile(r"Error: Invariant (\S+) is violated")
_re_actprop = re.compile(r"Error: Action property (\S+) is violated")
_re_temporal = re.compile(r"Error: Temporal properties were violated")
_re_cov = re.compile(r"^<(\w+) line (\d+), col \d+ to line \d+, col \d+ of module (\w+)>: (\d+):(\d+)", re.M)
_re_state_hdr = re.compile(r"^State (\d+): <?([^\n>]*)>?\s*$", re.M)


def run(
    wd,
    module,
    cfg,
    *,
    workers=None,
    timeout=600,
    simulate=None,
    depth=None,
    seed=None,
    env=None,
    coverage=False,
    deadlock=False,
    dump=None,
    dfs=False,
    continue_=False,
    extra=(),
    heap="4g",
):
    """Run TLC on wd/module.tla with wd/cfg.  ``simulate`` is the argument of
    -simulate (e.g. 'num=100' or 'file=/x/tr,num=100')."""
    meta = tempfile.mkdtemp(prefix="meta-", dir=wd.path)
    jopts = ["-XX:+UseParallelGC", "-Xmx" + heap]
    if dfs:
        jopts.append("-Dtlc2.tool.queue.IStateQueue=StateDeque")
    cmd = ["java"] + jopts + ["-cp", JAR + ":" + DEPS, "tlc2.TLC"]
    cmd += ["-metadir", meta, "-noGenerateSpecTE", "-config", cfg]
    if workers is None:
        workers = os.cpu_count() or 4
    cmd += ["-workers", str(workers)]
    if not deadlock:
        cmd += ["-deadlock"]  # -deadlock *disables* deadlock checking
    if coverage:
        cmd += ["-coverage", "1"]
    if simulate is not None:
        cmd += ["-simulate", simulate]
    if depth is not None:
        cmd += ["-depth", str(depth)]
    if seed is not None:
        cmd += ["-seed", str(seed)]
    if dump is not None:
        cmd += ["-dump", "dot,actionlabels", dump]
    if continue_:
        cmd += ["-continue"]
    cmd += list(extra)
    cmd += [module]
    e = dict(os.environ)
    e.pop("JAVA_TOOL_OPTIONS", None)
    if env:
        e.update(env)
    t0 = time.time()
    for attempt in (1, 2):
        r = TlcResult()
        try:
            p = subprocess.run(cmd, cwd=wd.path, env=e, capture_output=True, text=True, timeout=timeout)
            r.rc = p.returncode
            r.out = p.stdout + p.stderr
        except subprocess.TimeoutExpired as ex:
            r.timed_out = True
            r.rc = -1
            r.out = (ex.stdout or b"").decode(errors="replace") if isinstance(ex.stdout, bytes) else (ex.stdout or "")
        # a JVM that was killed or died without TLC's own closing line (memory pressure on a
        # busy machine) is retried once; genuine TLC verdicts and spec errors are not
        died = (not r.timed_out) and r.rc not in (0, 10, 11, 12, 13) and "Finished in" not in r.out and "Error:" not in r.out
        if not died:
            break
        shutil.rmtree(meta, ignore_errors=True)
        os.makedirs(meta, exist_ok=True)
    r.wall = time.time() - t0
    shutil.rmtree(meta, ignore_errors=True)
    _parse(r)
    return r


def _parse(r):
    out = r.out
    m = None
    for m in _re_states.finditer(out):
        pass
    if m:
        r.generated, r.distinct = int(m.group(1)), int(m.group(2))
    m = _re_depth.search(out)
    if m:
        r.depth = int(m.group(1))
    r.violated = _re_inv.findall(out) + _re_actprop.findall(out)
    if _re_temporal.search(out):
        r.violated.append("<temporal>")
    if "Error: Deadlock reached" in out:
        r.violated.append("<deadlock>")
    for m in _re_cov.finditer(out):
        name, mod, distinct, taken = m.group(1), m.group(3), int(m.group(4)), int(m.group(5))
        # TLC prints "<A line..>: distinct:generated" in newer versions
        prev = r.coverage.get(name, (0, 0))
        r.coverage[name] = (prev[0] + distinct, prev[1] + taken)
    # error trace
    if "State 1:" in out and r.violated:
        hdrs = list(_re_state_hdr.finditer(out))
        for k, h in enumerate(hdrs):
            end = hdrs[k + 1].start() if k + 1 < len(hdrs) else len(out)
            body = out[h.end() : end]
            # cut at first blank line after the conjunction list
            cut = re.search(r"\n\s*\n", body)
            if cut:
                body = body[: cut.start()]
            try:
                st = tlaval.parse_state(body)
            except Exception:
                st = {"_raw": body}
            r.error_trace.append((h.group(2).strip(), st))


def fatal(r):
    """True if TLC failed for a reason other than a reported property
    violation (parse error, evaluation error, timeout...)."""
    if r.timed_out:
        return True
    if r.rc == 0:
        return False
    if r.violated and r.rc in (12, 13, 11):
        return False
    return True


def need_ok_run(r, what):
    if fatal(r):
        tail = "\n".join(r.out.splitlines()[-40:])
        raise MachineryError("TLC failed (%s), rc=%s timed_out=%s\n%s" % (what, r.rc, r.timed_out, tail))


def printed_values(r, tag=None):
    """Values printed with PrintT (one per output line start); with several
    workers lines may interleave, so values are extracted by bracket matching
    starting at '<<'."""
    vals = []
    out = r.out
    i = 0
    while True:
        j = out.find("<<", i)
        if j < 0:
            break
        # only at line start
        if j > 0 and out[j - 1] != "\n":
            i = j + 2
            continue
        try:
            v, k = tlaval.parse_prefix(out, j)
        except Exception:
            i = j + 2
            continue
        i = k
        if tag is None or (isinstance(v, list) and v and v[0] == tag):
            vals.append(v)
    return vals


def sany(wd, module):
    cmd = ["java", "-cp", JAR + ":" + DEPS, "tla2sany.SANY", module]
    p = subprocess.run(cmd, cwd=wd.path, capture_output=True, text=True, timeout=120)
    ok = p.returncode == 0 and "Semantic errors" not in p.stdout and "Parse Error" not in p.stdout and "Fatal errors" not in p.stdout
    return ok, p.stdout + p.stderr


def read_sim_traces(prefix):
    """Read the files written by ``-simulate file=<prefix>``; returns a list of
    behaviours, each a list of (actionlabel, statedict)."""
    out = []
    files = sorted(glob.glob(prefix + "_*"), key=lambda f: [int(x) for x in re.findall(r"\d+", os.path.basename(f))])
    for f in files:
        text = open(f).read()
        beh = []
        # format:  \* <Action line ...>\nSTATE_1 == \n/\ x = ...\n\n
        parts = re.split(r"^STATE_(\d+) ==", text, flags=re.M)
        # parts[0] preamble, then (num, body) pairs
        labels = re.findall(r"^\\\* <?(\w+)[^\n]*$", text, flags=re.M)
        for k in range(1, len(parts), 2):
            body = parts[k + 1]
            cut = re.search(r"\n\s*\n", body)
            if cut:
                body = body[: cut.start()]
            st = tlaval.parse_state(body)
            idx = (k - 1) // 2
            beh.append((labels[idx] if idx < len(labels) else "?", st))
        out.append(beh)
    return out


def dump_json(path, obj):
    with open(path, "w") as f:
        json.dump(obj, f, separators=(",", ":"))
