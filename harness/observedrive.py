"""Driver for the *pull* interfaces of a client observation (property C07).

harness/drive.py observes a plain ``Request`` through register_callback /
register_errback.  This driver observes what an application sees through

  iface "iter"    plain Request (handle_blockwise=False), ``async for n in request.observation``
  iface "bwiter"  Context.request default (BlockwiseRequest), ``async for``
  iface "bwcb"    BlockwiseRequest, register_callback / register_errback
  iface "cb"      plain Request, register_callback / register_errback (what harness/drive.py observes;
                  here for schedules that need this driver's other requests / token reservations)

The iterator is consumed by a task that logs every item it is handed
(``notif``) and how the iteration ends (``obsend``; cls "clean" for
StopAsyncIteration).

schedule = {
  "iface":  "iter" | "bwiter" | "bwcb" | "cb",
  "con":    bool,                  request sent as CON / NON
  "start":  "early" | "resp" | "late",   iteration starts when the request is created / after awaiting the
                                   response / "start_delay" units after the response (what arrived in
                                   between reaches the consumer only through the replay at registration)
  "delay":  units,                 time the consumer spends on every item before asking for the next
  "tuning", "mid0", "tok0",
  "steps":  [{"at": units, "do": "rx", ...drive.py rx fields..., "plen": n} |       datagram on the observation's token
             {"at": units, "do": "err"} |
             {"at": units, "do": "burst", "rx": [rxspec, ...]} |
             {"at": units, "do": "submit", "q": k>=2, "con": bool, "reply": {...}|None} |   another (plain) request on the
                                                                                  same context, same endpoint
             {"at": units, "do": "burn", "n": N}],       N tokens are reserved and released (N short requests came and went)
  "fetch":  [{"delay": units, "more": bool, "plen": n, "ty": "ACK"|"NON"|"CON"} | None (never answered), ...],
  "fetch_default": plan | None,    for block requests beyond the list (None: never answered; default: at once)
  "horizon": units | None
}

Reactive peer: the k-th *new* request the client sends for a further block
(Block2 number >= 1; BlockwiseRequest completing a block-wise notification or
first response) is answered after fetch[k].delay with that block (more-flag and
length as planned; piggy-backed if the request was CON and ty = "ACK");
retransmissions are not answered again.  A side request is answered once
according to its "reply" ({"delay", "ty", "code"}).

A burst delivers its datagrams back to back the way a selector loop does when
both are already in the socket buffer: exactly one round of ready callbacks
runs between two reads.  Time unit and event records are those of
harness/drive.py (uniform FIELDS); `q` of a transmitted request is the
application request it carries the token of (a token handed out twice: the one
not yet on the wire), 0 for the block requests the library makes itself."""

import asyncio
import warnings

from . import wire
from .sut import World
from .fakenet import sockaddr
from .drive import FIELDS, units, code_class, err_class, build_msg, TUNING_KEYS

Q = 1
DEFAULT_FETCH = {"delay": 5, "more": False, "plen": 10, "ty": "ACK"}


def run(sched):
    w = World(mid0=sched.get("mid0", 0), tok0=sched.get("tok0", 0))
    events = []
    frozen = []
    reqs = {}
    sent_first = {}  # q -> message ID of the first copy
    seen_req_mids = set()
    nfetch = [0]
    r_peer = sched.get("r", 1)
    iface = sched["iface"]

    def ev(k, **kw):
        if frozen:
            return None
        e = dict(FIELDS)
        e["k"] = k
        e["t"] = units(w.loop)
        e.update(kw)
        events.append(e)
        return e

    def rnum(address):
        for n in range(1, 5):
            if tuple(address[:2]) == sockaddr(n)[:2]:
                return n
        return 0

    def q_of(r, token, fresh=False):
        cands = [q for q, d in reqs.items()
                 if d["msg"].token is not None and bytes(d["msg"].token) == bytes(token) and d["r"] == r]
        if not cands:
            return 0
        if fresh:
            new = [q for q in cands if q not in sent_first]
            if new:
                return new[-1]
        return cands[0]

    def fields(m):
        o = wire.opt(m, wire.OBSERVE)
        b2 = wire.opt(m, wire.BLOCK2)
        f = dict(
            ty=wire.TYPE_NAMES[m["type"]],
            mid=m["mid"],
            tok=m["token"].hex(),
            cls=code_class(m["code"]),
            code=m["code"],
            obs=-1 if o is None else wire.from_uint(o),
            plen=len(m["payload"]),
            b2=-1 if b2 is None else wire.from_uint(b2),
        )
        if b2 is not None:
            n_, m_, s_ = wire.unblock(b2)
            f["b2n"], f["b2m"], f["b2s"] = n_, int(m_), s_
        return f

    state = {}

    def inject(spec, rest=()):
        spec = dict(spec)
        if "plen" in spec:
            spec["payload"] = bytes((i * 7 + 3) & 0xFF for i in range(spec.pop("plen")))
        data = build_msg(spec, reqs, lambda k: (sched.get("mid0", 0) + 0x8000 + k) & 0xFFFF)
        w.net.inject(state["sock"], data, sockaddr(spec.get("r", r_peer)))
        if rest:
            # the next datagram is read one round of ready callbacks later
            w.loop.call_soon(inject, rest[0], rest[1:])

    def answer(f, plan, extra, sep_mid):
        """Scripted peer's response to the request datagram with fields f (sep_mid: message ID of a separate response)."""
        ty = plan.get("ty", "ACK")
        if ty == "ACK" and f["ty"] != "CON":
            ty = "NON"
        rx = {"ty": ty, "code": plan.get("code", 69), "tok": f["tok"], "mid": f["mid"] if ty == "ACK" else sep_mid}
        rx.update(extra)
        if ty != "ACK" and f["ty"] == "CON":
            # the request's exchange is closed by an empty ACK before the separate response
            w.loop.call_later(max(plan.get("delay", 5) - 1, 0) / 1024.0, inject, {"ty": "ACK", "code": 0, "mid": f["mid"]})
        w.loop.call_later(plan.get("delay", 5) / 1024.0, inject, rx)

    def on_sent(rec):
        r = rnum(rec["to"])
        try:
            m = wire.decode(rec["data"])
        except wire.ParseError:
            ev("tx", r=r, ty="?", cls="unparsable")
            return
        f = fields(m)
        if f["cls"] != "req":
            ev("tx", r=r, **f)
            return
        q = q_of(r, m["token"], fresh=True)
        new = (r, f["mid"]) not in seen_req_mids
        seen_req_mids.add((r, f["mid"]))
        if q and q not in sent_first:
            sent_first[q] = f["mid"]
        ev("tx", r=r, q=q, **f)
        if not new:
            return
        if q == 0 and f["b2"] >= 0 and f["b2n"] >= 1:
            plans = sched.get("fetch", ())
            plan = plans[nfetch[0]] if nfetch[0] < len(plans) else sched.get("fetch_default", DEFAULT_FETCH)
            nfetch[0] += 1
            if plan is None:
                return
            answer(f, plan, {"b2": [f["b2n"], bool(plan.get("more")), f["b2s"]], "plen": plan.get("plen", 10)}, 9100 + nfetch[0])
        elif q >= 2 and reqs[q].get("reply"):
            answer(f, reqs[q]["reply"], {"plen": 3}, 9600 + q)

    def on_read(data, src):
        r = rnum(src)
        try:
            m = wire.decode(data)
        except wire.ParseError:
            ev("rx", r=r, ty="?", cls="unparsable")
            return
        f = fields(m)
        ev("rx", r=r, q=q_of(r, m["token"]) if f["cls"] == "resp" else 0, loc="u", **f)

    w.net.on_sent = on_sent

    async def main():
        from aiocoap import Message
        from aiocoap.numbers.constants import TransportTuning
        from aiocoap.numbers.codes import Code

        for k, v in sched.get("tuning", {}).items():
            if k in TUNING_KEYS:
                w.patch(TransportTuning, k, v)
        ctx = await w.make_context(site=None)
        sock = ctx._verif["sock"]
        state["sock"] = sock
        orig_recvmsg = sock.recvmsg

        def recvmsg(bufsize, ancbufsize=0, flags=0):
            res = orig_recvmsg(bufsize, ancbufsize, flags)
            if not (flags & 8192):
                on_read(res[0], res[3])
            return res

        sock.recvmsg = recvmsg
        cb, cbargs = w.loop.fake_readers[sock.fileno()]

        def reader(*a):
            try:
                cb(*a)
            finally:
                ev("rxend")

        w.loop.fake_readers[sock.fileno()] = (reader, cbargs)

        def tuning(con):
            return type("VT", (TransportTuning,), {"reliability": bool(con)})()

        m = Message(code=Code.GET, uri_path=["obs"], transport_tuning=tuning(sched.get("con", True)))
        m.opt.observe = 0
        m.remote = w.remote(ctx, r_peer)
        delay = sched.get("delay", 0)

        def log_item(msg):
            ev("notif", q=Q, obs=-1 if msg.opt.observe is None else msg.opt.observe, code=int(msg.code), plen=len(msg.payload))

        async def consume(req):
            start = sched.get("start", "resp")
            if start in ("resp", "late"):
                try:
                    await req.response
                except Exception:
                    pass
                if start == "late":
                    await asyncio.sleep(sched.get("start_delay", 1024) / 1024.0)
            try:
                async for n in req.observation:
                    log_item(n)
                    if delay:
                        await asyncio.sleep(delay / 1024.0)
                ev("obsend", q=Q, cls="clean", x="StopAsyncIteration")
            except Exception as e:
                ev("obsend", q=Q, cls=err_class(e), x=type(e).__name__)

        def done_cb(fut, q):
            if fut.cancelled():
                ev("done", q=q, cls="cancelled")
            elif fut.exception() is not None:
                ev("done", q=q, cls=err_class(fut.exception()), x=type(fut.exception()).__name__)
            else:
                res = fut.result()
                ev("done", q=q, cls="resp", code=int(res.code), plen=len(res.payload))

        consumer = None
        last_at = 0
        started = False
        burned = 0
        for step in sched["steps"]:
            if not started:
                await w.loop.advance_to(sched.get("submit_at", 8) / 1024.0)
                started = True
                w.rand.fractions.clear()
                w.rand.fractions.append(0.0)
                ev("submit", r=r_peer, q=Q, con=bool(sched.get("con", True)), x=iface, obs=0)
                req = ctx.request(m, handle_blockwise=iface in ("bwiter", "bwcb"))
                reqs[Q] = {"msg": m, "req": req, "r": r_peer}
                req.response.add_done_callback(lambda fut: done_cb(fut, Q))
                if iface in ("bwcb", "cb"):
                    with warnings.catch_warnings():
                        warnings.simplefilter("ignore")
                        req.observation.register_callback(log_item)
                        req.observation.register_errback(lambda exc: ev("obsend", q=Q, cls=err_class(exc), x=type(exc).__name__))
                else:
                    consumer = w.loop.create_task(consume(req))
                await w.loop.settle()
            await w.loop.advance_to(step["at"] / 1024.0)
            last_at = step["at"]
            do = step["do"]
            if do == "rx":
                inject(step)
            elif do == "burst":
                inject(step["rx"][0], step["rx"][1:])
            elif do == "err":
                ev("err", r=r_peer)
                w.net.inject_error(sock, sockaddr(r_peer))
            elif do == "submit":
                q = step["q"]
                w.rand.fractions.clear()
                w.rand.fractions.append(0.0)
                m2 = Message(code=Code.GET, uri_path=["side%d" % q], transport_tuning=tuning(step.get("con", True)))
                m2.remote = w.remote(ctx, r_peer)
                ev("submit", r=r_peer, q=q, con=bool(step.get("con", True)), x="side", obs=-1)
                req2 = ctx.request(m2, handle_blockwise=False)
                reqs[q] = {"msg": m2, "req": req2, "r": r_peer, "reply": step.get("reply")}
                req2.response.add_done_callback(lambda fut, q=q: done_cb(fut, q))
            elif do == "burn":
                # N requests came and went: their tokens were reserved by the allocator and are free again
                nt = getattr(ctx._verif["tman"], "next_token", None)
                if nt is not None:
                    for _ in range(step["n"]):
                        nt()
                    burned += step["n"]
            elif do == "wait":
                pass
            else:
                raise ValueError(do)
            await w.loop.settle()
        hz = sched.get("horizon")
        await w.loop.drain(horizon=None if hz is None else (last_at + hz) / 1024.0)
        for c in w.loop.exceptions:
            exc = c.get("exception")
            ev("loopexc", x=type(exc).__name__ if exc is not None else "message", cls=str(c.get("message", ""))[:60])
        ev("end")
        frozen.append(True)
        meta = {
            "loop_exceptions": [repr(c.get("exception") or c.get("message")) for c in w.loop.exceptions],
            "log_errors": [r.getMessage() for r in w.logcap.errors()],
            "consumer_finished": consumer.done() if consumer is not None else None,
            "tokens_burned": burned,
            "block_fetches_answered": nfetch[0],
        }
        if consumer is not None and not consumer.done():
            consumer.cancel()
        try:
            await asyncio.wait_for(ctx.shutdown(), 10)
        except Exception:
            pass
        return meta

    try:
        meta = w.run(main())
    finally:
        w.close()
    return {"events": events, "meta": meta}


def run_safe(s):
    try:
        return run(s)
    except Exception:
        import traceback

        return {"error": traceback.format_exc()}
