"""Driver for the *pull* interfaces of a client observation (property C07).

harness/drive.py observes a plain ``Request`` through register_callback /
register_errback.  This driver observes what an application sees through

  iface "iter"    plain Request (handle_blockwise=False), ``async for n in request.observation``
  iface "bwiter"  Context.request default (BlockwiseRequest), ``async for``
  iface "bwcb"    BlockwiseRequest, register_callback / register_errback

The iterator is consumed by a task that logs every item it is handed
(``notif``) and how the iteration ends (``obsend``; cls "clean" for
StopAsyncIteration).

schedule = {
  "iface":  "iter" | "bwiter" | "bwcb",
  "con":    bool,                  request sent as CON / NON
  "start":  "early" | "resp",      iteration starts when the request is created / after awaiting the response
  "delay":  units,                 time the consumer spends on every item before asking for the next
  "tuning", "mid0", "tok0",
  "steps":  [{"at": units, "do": "rx", ...drive.py rx fields...} |
             {"at": units, "do": "err"} |
             {"at": units, "do": "burst", "rx": [rxspec, ...]}],
  "horizon": units | None
}

A burst delivers its datagrams back to back the way a selector loop does when
both are already in the socket buffer: exactly one round of ready callbacks
runs between two reads.  Time unit and event records are those of
harness/drive.py (uniform FIELDS)."""

import asyncio
import warnings

from . import wire
from .sut import World
from .fakenet import sockaddr
from .drive import FIELDS, units, code_class, err_class, build_msg, TUNING_KEYS

Q = 1


def run(sched):
    w = World(mid0=sched.get("mid0", 0), tok0=sched.get("tok0", 0))
    events = []
    frozen = []
    reqs = {}
    r_peer = sched.get("r", 1)
    iface = sched["iface"]

    def ev(k, **kw):
        if frozen:
            return None
        e = dict(FIELDS)
        e["k"] = k
        e["t"] = units(w.loop)
        e.update(kw)
        events.append(e)
        return e

    def rnum(address):
        for n in range(1, 5):
            if tuple(address[:2]) == sockaddr(n)[:2]:
                return n
        return 0

    def q_of(r, token):
        d = reqs.get(Q)
        if d is not None and d["msg"].token is not None and bytes(d["msg"].token) == bytes(token) and d["r"] == r:
            return Q
        return 0

    def fields(m):
        o = wire.opt(m, wire.OBSERVE)
        b2 = wire.opt(m, wire.BLOCK2)
        return dict(
            ty=wire.TYPE_NAMES[m["type"]],
            mid=m["mid"],
            tok=m["token"].hex(),
            cls=code_class(m["code"]),
            code=m["code"],
            obs=-1 if o is None else wire.from_uint(o),
            plen=len(m["payload"]),
            b2=-1 if b2 is None else wire.from_uint(b2),
        )

    def on_sent(rec):
        r = rnum(rec["to"])
        try:
            m = wire.decode(rec["data"])
        except wire.ParseError:
            ev("tx", r=r, ty="?", cls="unparsable")
            return
        f = fields(m)
        ev("tx", r=r, q=q_of(r, m["token"]) if f["cls"] == "req" else 0, **f)

    def on_read(data, src):
        r = rnum(src)
        try:
            m = wire.decode(data)
        except wire.ParseError:
            ev("rx", r=r, ty="?", cls="unparsable")
            return
        f = fields(m)
        ev("rx", r=r, q=q_of(r, m["token"]) if f["cls"] == "resp" else 0, loc="u", **f)

    w.net.on_sent = on_sent
    state = {}

    def inject(spec, rest=()):
        data = build_msg(spec, reqs, lambda k: (sched.get("mid0", 0) + 0x8000 + k) & 0xFFFF)
        w.net.inject(state["sock"], data, sockaddr(spec.get("r", r_peer)))
        if rest:
            # the next datagram is read one round of ready callbacks later
            w.loop.call_soon(inject, rest[0], rest[1:])

    async def main():
        from aiocoap import Message
        from aiocoap.numbers.constants import TransportTuning
        from aiocoap.numbers.codes import Code

        for k, v in sched.get("tuning", {}).items():
            if k in TUNING_KEYS:
                w.patch(TransportTuning, k, v)
        ctx = await w.make_context(site=None)
        sock = ctx._verif["sock"]
        state["sock"] = sock
        orig_recvmsg = sock.recvmsg

        def recvmsg(bufsize, ancbufsize=0, flags=0):
            res = orig_recvmsg(bufsize, ancbufsize, flags)
            if not (flags & 8192):
                on_read(res[0], res[3])
            return res

        sock.recvmsg = recvmsg
        cb, cbargs = w.loop.fake_readers[sock.fileno()]

        def reader(*a):
            try:
                cb(*a)
            finally:
                ev("rxend")

        w.loop.fake_readers[sock.fileno()] = (reader, cbargs)

        T = type("VT", (TransportTuning,), {"reliability": bool(sched.get("con", True))})
        m = Message(code=Code.GET, uri_path=["obs"], transport_tuning=T())
        m.opt.observe = 0
        m.remote = w.remote(ctx, r_peer)
        delay = sched.get("delay", 0)

        def log_item(msg):
            ev("notif", q=Q, obs=-1 if msg.opt.observe is None else msg.opt.observe, code=int(msg.code), plen=len(msg.payload))

        async def consume(req):
            if sched.get("start", "resp") == "resp":
                try:
                    await req.response
                except Exception:
                    pass
            try:
                async for n in req.observation:
                    log_item(n)
                    if delay:
                        await asyncio.sleep(delay / 1024.0)
                ev("obsend", q=Q, cls="clean", x="StopAsyncIteration")
            except Exception as e:
                ev("obsend", q=Q, cls=err_class(e), x=type(e).__name__)

        consumer = None
        last_at = 0
        started = False
        for step in sched["steps"]:
            if not started:
                await w.loop.advance_to(sched.get("submit_at", 8) / 1024.0)
                started = True
                w.rand.fractions.clear()
                w.rand.fractions.append(0.0)
                ev("submit", r=r_peer, q=Q, con=bool(sched.get("con", True)), x=iface)
                req = ctx.request(m, handle_blockwise=iface != "iter")
                reqs[Q] = {"msg": m, "req": req, "r": r_peer}

                def done_cb(fut):
                    if fut.cancelled():
                        ev("done", q=Q, cls="cancelled")
                    elif fut.exception() is not None:
                        ev("done", q=Q, cls=err_class(fut.exception()), x=type(fut.exception()).__name__)
                    else:
                        res = fut.result()
                        ev("done", q=Q, cls="resp", code=int(res.code), plen=len(res.payload))

                req.response.add_done_callback(done_cb)
                if iface == "bwcb":
                    with warnings.catch_warnings():
                        warnings.simplefilter("ignore")
                        req.observation.register_callback(log_item)
                        req.observation.register_errback(lambda exc: ev("obsend", q=Q, cls=err_class(exc), x=type(exc).__name__))
                else:
                    consumer = w.loop.create_task(consume(req))
                await w.loop.settle()
            await w.loop.advance_to(step["at"] / 1024.0)
            last_at = step["at"]
            do = step["do"]
            if do == "rx":
                inject(step)
            elif do == "burst":
                inject(step["rx"][0], step["rx"][1:])
            elif do == "err":
                ev("err", r=r_peer)
                w.net.inject_error(sock, sockaddr(r_peer))
            elif do == "wait":
                pass
            else:
                raise ValueError(do)
            await w.loop.settle()
        hz = sched.get("horizon")
        await w.loop.drain(horizon=None if hz is None else (last_at + hz) / 1024.0)
        for c in w.loop.exceptions:
            exc = c.get("exception")
            ev("loopexc", x=type(exc).__name__ if exc is not None else "message", cls=str(c.get("message", ""))[:60])
        ev("end")
        frozen.append(True)
        meta = {
            "loop_exceptions": [repr(c.get("exception") or c.get("message")) for c in w.loop.exceptions],
            "log_errors": [r.getMessage() for r in w.logcap.errors()],
            "consumer_finished": consumer.done() if consumer is not None else None,
        }
        if consumer is not None and not consumer.done():
            consumer.cancel()
        try:
            await asyncio.wait_for(ctx.shutdown(), 10)
        except Exception:
            pass
        return meta

    try:
        meta = w.run(main())
    finally:
        w.close()
    return {"events": events, "meta": meta}


def run_safe(s):
    try:
        return run(s)
    except Exception:
        import traceback

        return {"error": traceback.format_exc()}
