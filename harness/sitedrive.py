"""Driver for property C17 (Site routing and /.well-known/core).

Executes an operation history on *live* aiocoap ``resource.Site`` objects
(add_resource / remove_resource between requests) and records, per operation,
what is observable:

* request   -> which test resource's handler ran, the ``uri_path`` it was
               given, what ``get_request_uri()`` reconstructed -- or 4.04;
* discover  -> the parsed payload of /.well-known/core without and with the
               filter query (impl-info link dropped).

Two ways of sending a request (``mode``):

``ctx``     a real server Context (TokenManager, MessageManager, udp6) on the
            fake network of harness.sut.World; the request is a datagram built
            by the independent codec harness.wire, the answer is the datagram
            the stack sends back (Block2 transfers are followed);
``direct``  ``await root.render(request)`` on a message decoded from the same
            datagram (Site.render instead of Site.render_to_pipe).

History format (plain Python strings; the check converts to the
character-sequence form of spec/SiteRouting.tla):

  {"W": {"root": id, "sites": [id..], "leaves": [id..], "wrapped": [id..],
         "attrs": {rid: {"hidden": bool, "bare": bool, "pairs": [[k, v]..]}}},
   "ops": [{"op": "add"|"addsite"|"remove"|"request"|"discover", "site": id,
            "path": [seg..], "id": id, "query": str, "key": str, "val": str,
            "star": bool, "method": "GET".., "con": bool, "host": str,
            "port": int}..],
   "mode": "ctx"|"direct"}

Test doubles: `Rec` (resource.Resource with link description), `Bare` (a plain
interfaces.Resource without get_link_description: not hidden, listed without
attributes), `Leaf` (PathCapable catch-all that sees the remainder), `Wrapped`
(PathCapable wrapper that is *not* a Site around a Site listed in
W["wrapped"]: for routing and listing it is that site).  A request op carries
its method (all handlers answer every method with an explicit 2.05), CON/NON
and optional Uri-Host / Uri-Port.
"""

import json

from . import wire, MachineryError, require_repo
from .sut import World
from .fakenet import sockaddr

WKC_PATH = (".well-known", "core")


def parse_links(text):
    """Independent RFC 6690 parser: [[href, [[key, value|None]..]]..]."""
    links = []
    i, n = 0, len(text)
    while i < n:
        if text[i] != "<":
            raise ValueError("expected '<' at %d" % i)
        j = text.index(">", i)
        href = text[i + 1 : j]
        i = j + 1
        pairs = []
        while i < n and text[i] == ";":
            i += 1
            k0 = i
            while i < n and text[i] not in "=;,":
                i += 1
            key = text[k0:i]
            val = None
            if i < n and text[i] == "=":
                i += 1
                if i < n and text[i] == '"':
                    i += 1
                    buf = []
                    while text[i] != '"':
                        if text[i] == "\\":
                            i += 1
                        buf.append(text[i])
                        i += 1
                    i += 1
                    val = "".join(buf)
                else:
                    v0 = i
                    while i < n and text[i] not in ";,":
                        i += 1
                    val = text[v0:i]
            pairs.append([key, val])
        links.append([href, pairs])
        if i < n:
            if text[i] != ",":
                raise ValueError("expected ',' at %d" % i)
            i += 1
    return links


def without_impl_info(links):
    return [l for l in links if ["rel", "impl-info"] not in l[1]]


class _FakeRemote:
    """What a request's remote has to offer for rendering without a transport."""

    is_multicast = False
    is_multicast_locally = False
    scheme = "coap"
    hostinfo = "peer.example"
    hostinfo_local = "sut.example"
    maximum_block_size_exp = 6
    maximum_payload_size = 1124
    blockwise_key = ("fake",)

    def as_response_address(self):
        return self


_classes = {}


def _test_classes():
    """Test resources, created after aiocoap has been imported from $VERIF_REPO."""
    if _classes:
        return _classes
    require_repo()
    from aiocoap import resource, interfaces, Message
    from aiocoap.numbers.codes import Code
    from aiocoap.util.linkformat import LinkFormat

    def answer(rid, request):
        try:
            uri = request.get_request_uri()
        except Exception as e:  # reported to the judge, which owns the verdict
            uri = "!exception %r" % (e,)
        body = {"id": rid, "seen": list(request.opt.uri_path), "uri": uri}
        return Message(code=Code.CONTENT, payload=json.dumps(body).encode())

    class Rec(resource.Resource):
        """Says who it is, which Uri-Path it was handed and which request URI
        it can reconstruct."""

        def __init__(self, rid, hidden=False, pairs=()):
            super().__init__()
            self.rid = rid
            self.hidden = hidden
            self.pairs = [tuple(p) for p in pairs]

        def get_link_description(self):
            if self.hidden:
                return None
            return dict(self.pairs)

        async def render_get(self, request):
            return answer(self.rid, request)

        render_post = render_put = render_delete = render_fetch = render_get

    class Bare(interfaces.Resource):
        """Implements the documented resource interface directly; has no
        get_link_description (so it does not hide itself)."""

        def __init__(self, rid):
            self.rid = rid

        async def needs_blockwise_assembly(self, request):
            return False

        async def render(self, request):
            return answer(self.rid, request)

        async def render_to_pipe(self, pipe):
            pipe.add_response(await self.render(pipe.request), is_last=True)

    class Wrapped(interfaces.Resource, resource.PathCapable):
        """What a logging / access-control wrapper around a nested site looks
        like: PathCapable, not a Site, forwards everything."""

        def __init__(self, inner):
            self.inner = inner

        async def needs_blockwise_assembly(self, request):
            return await self.inner.needs_blockwise_assembly(request)

        async def render(self, request):
            return await self.inner.render(request)

        async def render_to_pipe(self, pipe):
            return await self.inner.render_to_pipe(pipe)

        def get_resources_as_linkheader(self):
            return self.inner.get_resources_as_linkheader()

    class Leaf(Rec, resource.PathCapable):
        """A PathCapable handler registered like a nested site: receives the
        remaining path components.  Describes no links (hides itself)."""

        def __init__(self, rid):
            super().__init__(rid, hidden=True)

        def get_resources_as_linkheader(self):
            return LinkFormat([])

    _classes.update(Rec=Rec, Leaf=Leaf, Bare=Bare, Wrapped=Wrapped, resource=resource, Message=Message)
    return _classes


def run_history(hist):
    """Returns {"obs": [one dict per op], "loop_exceptions": n, "log_errors": [..]}"""
    w = World()
    try:
        return w.run(_run(w, hist))
    finally:
        w.close()


async def _run(w, hist):
    c = _test_classes()
    resource, Message = c["resource"], c["Message"]
    from aiocoap import error

    W = hist["W"]
    mode = hist.get("mode", "ctx")
    sites = {s: resource.Site() for s in W["sites"]}
    leaves = {l: c["Leaf"](l) for l in W["leaves"]}
    res = {
        r: (c["Bare"](r) if a.get("bare") else c["Rec"](r, a["hidden"], a["pairs"]))
        for r, a in W["attrs"].items()
        if r != "wkc"
    }
    # what is registered when site s is nested somewhere
    nested = {s: (c["Wrapped"](sites[s]) if s in W.get("wrapped", ()) else sites[s]) for s in sites}
    root = sites[W["root"]]
    root.add_resource(list(WKC_PATH), resource.WKCResource(root.get_resources_as_linkheader))

    responses = {}
    state = {"mid": 0x100}
    sock = None
    if mode == "ctx":
        ctx = await w.make_context(root)
        sock = ctx._verif["sock"]

        def on_sent(rec):
            try:
                m = wire.decode(rec["data"])
            except wire.ParseError:
                return
            if m["code"] != 0:
                responses[m["token"]] = m

        w.net.on_sent = on_sent

    METHODS = {"GET": wire.GET, "POST": wire.POST, "PUT": wire.PUT, "DELETE": wire.DELETE, "FETCH": wire.FETCH}

    async def exchange(path, queries, block=None, method="GET", con=False, host="", port=0):
        """-> (code, payload bytes, block2 option or None)"""
        state["mid"] = (state["mid"] + 1) & 0xFFFF
        mid = state["mid"]
        tok = mid.to_bytes(2, "big")
        opts = [(wire.URI_PATH, seg.encode()) for seg in path]
        opts += [(wire.URI_QUERY, q.encode()) for q in queries]
        if host:
            opts.append((wire.URI_HOST, host.encode()))
        if port:
            opts.append((wire.URI_PORT, wire.uint(port)))
        if block is not None:
            opts.append((wire.BLOCK2, wire.block(block[0], False, block[1])))
        raw = wire.encode(wire.CON if con else wire.NON, METHODS[method], mid, tok, opts)
        if mode == "ctx":
            w.net.inject(sock, raw, sockaddr(1))
            await w.loop.settle()
            if tok not in responses:
                await w.loop.drain(horizon=w.loop.time() + 10)
            m = responses.pop(tok, None)
            if m is None:
                return None, b"", None
            b2 = wire.opt(m, wire.BLOCK2)
            return m["code"], m["payload"], (wire.unblock(b2) if b2 is not None else None)
        msg = Message.decode(raw, remote=_FakeRemote())
        try:
            r = await root.render(msg)
        except error.RenderableError as e:
            r = e.to_message()
        return int(r.code), bytes(r.payload), None

    async def fetch(path, queries, **how):
        """Whole representation (follows Block2)."""
        code, payload, b2 = await exchange(path, queries, **how)
        guard = 0
        while b2 is not None and b2[1] and code == wire.CONTENT and guard < 64:
            guard += 1
            code2, more, b2n = await exchange(path, queries, block=(b2[0] + 1, b2[2]))
            if code2 != wire.CONTENT or b2n is None:
                return code2, payload + more
            payload += more
            b2 = b2n
        return code, payload

    async def listing(queries):
        code, payload = await fetch(WKC_PATH, queries)
        if code != wire.CONTENT:
            return None, "code %s" % (wire.code_str(code) if code is not None else "none")
        try:
            return without_impl_info(parse_links(payload.decode("utf8"))), None
        except Exception as e:
            return None, "unparsable link-format %r: %r" % (payload[:200], e)

    obs = []
    for o in hist["ops"]:
        op = o["op"]
        try:
            if op == "add":
                sites[o["site"]].add_resource(tuple(o["path"]), res[o["id"]])
                obs.append({"kind": "ok"})
            elif op == "addsite":
                child = nested[o["id"]] if o["id"] in nested else leaves[o["id"]]
                sites[o["site"]].add_resource(tuple(o["path"]), child)
                obs.append({"kind": "ok"})
            elif op == "remove":
                sites[o["site"]].remove_resource(tuple(o["path"]))
                obs.append({"kind": "ok"})
            elif op == "request":
                code, payload = await fetch(
                    o["path"],
                    [o["query"]] if o["query"] else [],
                    method=o.get("method", "GET"),
                    con=bool(o.get("con")),
                    host=o.get("host", ""),
                    port=int(o.get("port", 0)),
                )
                if code == wire.CONTENT:
                    try:
                        body = json.loads(payload.decode("utf8"))
                        obs.append({"kind": "hit", "id": body["id"], "seen": body["seen"], "uri": body["uri"]})
                    except Exception:
                        obs.append({"kind": "other", "what": "2.05 with foreign payload %r" % payload[:80]})
                elif code == wire.code(4, 4):
                    obs.append({"kind": "nf"})
                else:
                    obs.append({"kind": "other", "what": "code %s" % (wire.code_str(code) if code is not None else "none (no response)")})
            elif op == "discover":
                full, err = await listing([])
                if full is None:
                    obs.append({"kind": "other", "what": "unfiltered listing: " + err})
                    continue
                if o["key"]:
                    sel, err = await listing(["%s=%s%s" % (o["key"], o["val"], "*" if o["star"] else "")])
                    if sel is None:
                        obs.append({"kind": "other", "what": "filtered listing: " + err, "all": full})
                        continue
                else:
                    sel = full
                obs.append({"kind": "links", "all": full, "sel": sel})
            else:
                raise MachineryError("unknown op %r" % (op,))
        except MachineryError:
            raise
        except Exception as e:
            obs.append({"kind": "exc", "what": "%s raised %r" % (op, e)})
    return {
        "obs": obs,
        "loop_exceptions": len(w.loop.exceptions),
        "log_errors": [r.getMessage() for r in w.logcap.errors()][:3],
    }
