------------------------------ MODULE CoapWire ------------------------------
(* RFC 7252 section 3 ("Message Format") transcribed into TLA+ operators    *)
(* over byte sequences (Seq(0..255)), for property C01.                      *)
(*                                                                           *)
(*   1. extended option delta / length fields (nibble + 0/1/2 bytes)         *)
(*   2. serialiser  EncMsg(m)                                                *)
(*   3. parser      Parse(bytes)   (recursive, one step per option)          *)
(*   4. value formats of section 3.2 as far as the verdict depends on them   *)
(*      (uint: leading zeros carry no information; string: UTF-8)            *)
(*   5. the same parser once more as a byte-at-a-time automaton AStep        *)
(* CoapWireMC.tla is the small closed model TLC explores exhaustively,       *)
(* CoapWireEval.tla evaluates these operators on batches of cases produced  *)
(* by the check (checks/c01.py).                                             *)
(*                                                                           *)
(* A message is a tuple  <<type, code, mid, token, options, payload>>  with  *)
(* options a sequence of <<number, valuebytes>> in wire order.  A verdict is *)
(* <<"ok", type, code, mid, token, options, payload>> or <<"rej", reason>>.  *)
(* Tuples (not records) are used so that printed values are plain nested     *)
(* lists.                                                                    *)
EXTENDS Naturals, Sequences, TLC

Byte == 0..255

-----------------------------------------------------------------------------
(* 1. Extended fields (RFC 7252 section 3.1).  A delta or length v is sent   *)
(* as a nibble and 0, 1 or 2 extension bytes:                                *)
(*    0..12        nibble v                                                  *)
(*    13..268      nibble 13, one byte   v - 13                              *)
(*    269..65804   nibble 14, two bytes  v - 269 (network byte order)        *)
(* nibble 15 is reserved for the payload marker.                             *)
MaxExt == 65804    \* 65535 + 269

ExtNibble(v) == IF v < 13 THEN v ELSE IF v < 269 THEN 13 ELSE 14

ExtBytes(v) == IF v < 13 THEN << >>
               ELSE IF v < 269 THEN << v - 13 >>
               ELSE << (v - 269) \div 256, (v - 269) % 256 >>

ExtCount(nib) == IF nib = 13 THEN 1 ELSE IF nib = 14 THEN 2 ELSE 0

(* value of the field whose nibble is nib and whose extension bytes (if any) *)
(* start at b[pos]                                                           *)
ExtValue(nib, b, pos) == IF nib < 13 THEN nib
                         ELSE IF nib = 13 THEN b[pos] + 13
                         ELSE b[pos] * 256 + b[pos + 1] + 269

-----------------------------------------------------------------------------
(* 2. Serialiser.                                                            *)
MType(m)    == m[1]
MCode(m)    == m[2]
MMid(m)     == m[3]
MToken(m)   == m[4]
MOpts(m)    == m[5]
MPayload(m) == m[6]

ONum(o) == o[1]
OVal(o) == o[2]

(* Messages the wire format can carry: options in non-decreasing number      *)
(* order, every delta and every value length at most 65804.                  *)
Representable(m) ==
    /\ MType(m) \in 0..3 /\ MCode(m) \in Byte /\ MMid(m) \in 0..65535
    /\ Len(MToken(m)) <= 8
    /\ \A i \in 1..Len(MOpts(m)) :
          LET prev == IF i = 1 THEN 0 ELSE ONum(MOpts(m)[i - 1])
          IN  /\ ONum(MOpts(m)[i]) >= prev
              /\ ONum(MOpts(m)[i]) - prev <= MaxExt
              /\ Len(OVal(MOpts(m)[i])) <= MaxExt

EncOpt(prev, o) ==
    LET d == ONum(o) - prev
        l == Len(OVal(o))
    IN  << ExtNibble(d) * 16 + ExtNibble(l) >> \o ExtBytes(d) \o ExtBytes(l) \o OVal(o)

RECURSIVE EncOptsFrom(_, _, _)
EncOptsFrom(opts, i, prev) ==
    IF i > Len(opts) THEN << >>
    ELSE EncOpt(prev, opts[i]) \o EncOptsFrom(opts, i + 1, ONum(opts[i]))

EncOpts(opts) == EncOptsFrom(opts, 1, 0)

EncMsg(m) ==
    << 64 + MType(m) * 16 + Len(MToken(m)), MCode(m), MMid(m) \div 256, MMid(m) % 256 >>
    \o MToken(m)
    \o EncOpts(MOpts(m))
    \o (IF Len(MPayload(m)) = 0 THEN << >> ELSE << 255 >> \o MPayload(m))

-----------------------------------------------------------------------------
(* 3. Parser.  Format errors of RFC 7252 section 3: fewer than 4 bytes,      *)
(* version other than 1, token length 9..15, token / extension / value       *)
(* running past the end, a nibble 15 in a byte that is not the marker 0xFF,  *)
(* a marker followed by no payload.                                          *)
Ok(ty, code, mid, tok, opts, pay) == << "ok", ty, code, mid, tok, opts, pay >>
Rej(why) == << "rej", why >>
IsOk(v) == v[1] = "ok"
MsgOf(v) == << v[2], v[3], v[4], v[5], v[6], v[7] >>
OkOf(m) == << "ok" >> \o m

Slice(b, from, to) == IF to < from THEN << >> ELSE SubSeq(b, from, to)

(* options from position pos on; returns <<"opts", options, payload>> or a   *)
(* rejection                                                                 *)
RECURSIVE ParseOptsFrom(_, _, _, _)
ParseOptsFrom(b, pos, num, acc) ==
    IF pos > Len(b) THEN << "opts", acc, << >> >>
    ELSE IF b[pos] = 255 THEN
        IF pos = Len(b) THEN Rej("marker-empty")
        ELSE << "opts", acc, SubSeq(b, pos + 1, Len(b)) >>
    ELSE
        LET dn == b[pos] \div 16
            ln == b[pos] % 16
        IN  IF dn = 15 \/ ln = 15 THEN Rej("nibble15")
            ELSE IF pos + ExtCount(dn) + ExtCount(ln) > Len(b) THEN Rej("ext-truncated")
            ELSE
              LET delta  == ExtValue(dn, b, pos + 1)
                  length == ExtValue(ln, b, pos + 1 + ExtCount(dn))
                  vstart == pos + 1 + ExtCount(dn) + ExtCount(ln)
              IN  IF vstart + length - 1 > Len(b) THEN Rej("value-truncated")
                  ELSE ParseOptsFrom(b, vstart + length, num + delta,
                           Append(acc, << num + delta, Slice(b, vstart, vstart + length - 1) >>))

Parse(b) ==
    IF Len(b) < 4 THEN Rej("short")
    ELSE IF b[1] \div 64 # 1 THEN Rej("version")
    ELSE IF b[1] % 16 > 8 THEN Rej("tkl")
    ELSE IF Len(b) < 4 + (b[1] % 16) THEN Rej("token-truncated")
    ELSE LET tkl == b[1] % 16
             r   == ParseOptsFrom(b, 5 + tkl, 0, << >>)
         IN  IF r[1] = "rej" THEN r
             ELSE Ok((b[1] \div 16) % 4, b[2], b[3] * 256 + b[4], Slice(b, 5, 4 + tkl), r[2], r[3])

-----------------------------------------------------------------------------
(* 4. Option value formats (RFC 7252 section 3.2 and the option tables of    *)
(* RFC 7252 5.10, RFC 7641, RFC 7959, RFC 7967, RFC 8768, RFC 8613,          *)
(* RFC 9175).  Only two facts matter for the verdict:                        *)
(*  - uint: the value is a number; leading zero bytes carry no information   *)
(*    ("a recipient MUST be prepared to process values with leading zero     *)
(*    bytes"), so fields are compared after stripping them;                  *)
(*  - string: UTF-8.  A string option that is not valid UTF-8 (RFC 3629) is  *)
(*    not a well-formed value (class "badutf8").  Any valid UTF-8 value is   *)
(*    an opaque byte string to the codec: no Unicode normalisation (NFC,     *)
(*    NFD, NFKC, NFKD), no line-end conversion, no percent-decoding, no      *)
(*    rule of RFC 7252 5.10 / RFC 3986 about particular values may change or *)
(*    refuse it -- Field() returns the value bytes verbatim, EncMsg copies   *)
(*    them verbatim.  One thing is left open: a value with control           *)
(*    characters (class "ctlchars"; Net-Unicode discourages them) may be     *)
(*    refused as unparsable; if it is accepted, the fields and the           *)
(*    re-serialisation are demanded exactly as for "wf".                     *)
(* Numbers in none of the tables: the statement is silent on whether the     *)
(* library reads them as opaque or as uint, both representations are given.  *)
UintOpts   == {6, 7, 12, 14, 16, 17, 23, 27, 28, 60, 258}
StringOpts == {3, 8, 11, 15, 20, 35, 39}
OpaqueOpts == {1, 4, 5, 9, 252, 292}

(* index of the first non-zero byte, Len+1 if there is none; no recursion so *)
(* that long values are fine                                                 *)
FirstNonZero(s) ==
    IF \A i \in 1..Len(s) : s[i] = 0 THEN Len(s) + 1
    ELSE CHOOSE i \in 1..Len(s) : s[i] # 0 /\ \A j \in 1..(i - 1) : s[j] = 0

StripZeros(s) == IF Len(s) = 0 \/ s[1] # 0 THEN s ELSE Slice(s, FirstNonZero(s), Len(s))

IsCont(x) == x >= 128 /\ x <= 191
(* number of continuation bytes a lead byte announces; 99: cannot start a    *)
(* character (continuation byte, C0, C1, F5..FF)                             *)
Need(x) == IF x <= 127 THEN 0
           ELSE IF x >= 194 /\ x <= 223 THEN 1
           ELSE IF x >= 224 /\ x <= 239 THEN 2
           ELSE IF x >= 240 /\ x <= 244 THEN 3
           ELSE 99
(* RFC 3629 section 4: range of the second byte (excludes overlong forms,    *)
(* surrogates, code points above 10FFFF)                                     *)
Lo2(x) == IF x = 224 THEN 160 ELSE IF x = 240 THEN 144 ELSE 128
Hi2(x) == IF x = 237 THEN 159 ELSE IF x = 244 THEN 143 ELSE 191

LeadOk(s, i) ==
    LET k == Need(s[i])
    IN  /\ k < 99
        /\ i + k <= Len(s)
        /\ \A j \in 1..k : IF j = 1 THEN s[i + 1] >= Lo2(s[i]) /\ s[i + 1] <= Hi2(s[i])
                                     ELSE IsCont(s[i + j])
Covered(s, j) == \E d \in 1..3 : /\ j - d >= 1
                                /\ Need(s[j - d]) < 99
                                /\ Need(s[j - d]) >= d
Utf8Ok(s) == \A i \in 1..Len(s) : IF IsCont(s[i]) THEN Covered(s, i) ELSE LeadOk(s, i)

(* C0 controls, DEL, C1 controls (C2 80 .. C2 9F)                            *)
NoCtl(s) == \A i \in 1..Len(s) :
               /\ s[i] >= 32
               /\ s[i] # 127
               /\ ~(s[i] = 194 /\ i < Len(s) /\ s[i + 1] < 160)

(* expected option field: <<number, value>>, or <<number, value, alternative *)
(* value>> where two readings are admissible                                 *)
Field(o) ==
    IF ONum(o) \in UintOpts THEN << ONum(o), StripZeros(OVal(o)) >>
    ELSE IF ONum(o) \in StringOpts \cup OpaqueOpts THEN << ONum(o), OVal(o) >>
    ELSE IF StripZeros(OVal(o)) = OVal(o) THEN << ONum(o), OVal(o) >>
    ELSE << ONum(o), OVal(o), StripZeros(OVal(o)) >>

Fields(opts) == [i \in 1..Len(opts) |-> Field(opts[i])]

StringsClass(opts) ==
    IF \E i \in 1..Len(opts) : ONum(opts[i]) \in StringOpts /\ ~Utf8Ok(OVal(opts[i])) THEN "badutf8"
    ELSE IF \E i \in 1..Len(opts) : ONum(opts[i]) \in StringOpts /\ ~NoCtl(OVal(opts[i])) THEN "ctlchars"
    ELSE "wf"

(* What the property demands for a byte string:                              *)
(*   <<"wf", type, code, mid, token, fields, payload>>   exactly these fields *)
(*   <<"ctlchars", ... same ...>>   a string value has control characters:   *)
(*        UnparsableMessage, or exactly these fields                          *)
(*   <<"badutf8" | "emptyplus", ... same ...>>                                *)
(*        the framing is fine but a string value is not UTF-8, or the code is *)
(*        0.00 (Empty) and bytes follow the message ID, which RFC 7252        *)
(*        section 4.1 makes a format error: UnparsableMessage or a            *)
(*        round-tripping message                                              *)
(*   <<"rej", reason>>                                   format error: same   *)
Classify(b) ==
    LET v == Parse(b)
    IN  IF ~IsOk(v) THEN v
        ELSE << IF v[3] = 0 /\ Len(b) > 4 THEN "emptyplus" ELSE StringsClass(v[6]),
                v[2], v[3], v[4], v[5], Fields(v[6]), v[7] >>

(* 1 iff b is well-formed (or differs from that only by control characters   *)
(* in a string value: a parser may refuse those, but if it accepts them it   *)
(* must not rewrite them), no option value has an alternative reading, and   *)
(* serialising the expected fields gives b back (always, unless a uint value *)
(* was sent with leading zero bytes); c is Classify(b)                       *)
ReserialisesC(c, b) ==
    IF c[1] \notin {"wf", "ctlchars"} THEN 0
    ELSE IF \E i \in 1..Len(c[6]) : Len(c[6][i]) = 3 THEN 0
    ELSE IF EncMsg(<< c[2], c[3], c[4], c[5],
                      [i \in 1..Len(c[6]) |-> << c[6][i][1], c[6][i][2] >>], c[7] >>) = b
         THEN 1 ELSE 0

Reserialises(b) == ReserialisesC(Classify(b), b)

-----------------------------------------------------------------------------
(* 5. The parser as an automaton that consumes one byte per step.            *)
(* ph: h0 h1 h2 h3 (header bytes), tok, oh (option header / marker / end),   *)
(* xd xl (extension bytes of delta / length), val, m (marker seen), pay, rej *)
AInit == [ph |-> "h0", b0 |-> 0, code |-> 0, mid |-> 0, tok |-> << >>, need |-> 0,
          opts |-> << >>, num |-> 0, dn |-> 0, ln |-> 0, delta |-> 0, len |-> 0,
          acc |-> 0, val |-> << >>, pay |-> << >>, why |-> ""]

ARej(p, why) == [p EXCEPT !.ph = "rej", !.why = why]

AOptDone(p) == [p EXCEPT !.ph = "oh", !.opts = Append(p.opts, << p.num + p.delta, p.val >>),
                         !.num = p.num + p.delta, !.val = << >>, !.acc = 0]

(* after the option header byte and whatever extension bytes are complete    *)
AAfterExt(p, xd, xl) ==
    IF xd > 0 THEN [p EXCEPT !.ph = "xd", !.need = xd, !.acc = 0]
    ELSE IF xl > 0 THEN [p EXCEPT !.ph = "xl", !.need = xl, !.acc = 0]
    ELSE IF p.len = 0 THEN AOptDone(p)
    ELSE [p EXCEPT !.ph = "val", !.need = p.len]

AAfterHeader(p) ==
    IF p.b0 \div 64 # 1 THEN ARej(p, "version")
    ELSE IF p.b0 % 16 > 8 THEN ARej(p, "tkl")
    ELSE IF p.b0 % 16 = 0 THEN [p EXCEPT !.ph = "oh"]
    ELSE [p EXCEPT !.ph = "tok", !.need = p.b0 % 16]

AStep(p, b) ==
    CASE p.ph = "h0" -> [p EXCEPT !.ph = "h1", !.b0 = b]
      [] p.ph = "h1" -> [p EXCEPT !.ph = "h2", !.code = b]
      [] p.ph = "h2" -> [p EXCEPT !.ph = "h3", !.mid = b * 256]
      [] p.ph = "h3" -> AAfterHeader([p EXCEPT !.mid = p.mid + b])
      [] p.ph = "tok" -> IF p.need = 1 THEN [p EXCEPT !.ph = "oh", !.tok = Append(p.tok, b), !.need = 0]
                         ELSE [p EXCEPT !.tok = Append(p.tok, b), !.need = p.need - 1]
      [] p.ph = "oh" ->
            IF b = 255 THEN [p EXCEPT !.ph = "m"]
            ELSE LET dn == b \div 16
                     ln == b % 16
                 IN  IF dn = 15 \/ ln = 15 THEN ARej(p, "nibble15")
                     ELSE AAfterExt([p EXCEPT !.dn = dn, !.ln = ln,
                                              !.delta = IF dn < 13 THEN dn ELSE 0,
                                              !.len = IF ln < 13 THEN ln ELSE 0],
                                    ExtCount(dn), ExtCount(ln))
      [] p.ph = "xd" ->
            IF p.need = 1
            THEN AAfterExt([p EXCEPT !.delta = p.acc * 256 + b + (IF p.dn = 13 THEN 13 ELSE 269)],
                           0, ExtCount(p.ln))
            ELSE [p EXCEPT !.acc = b, !.need = 1]
      [] p.ph = "xl" ->
            IF p.need = 1
            THEN AAfterExt([p EXCEPT !.len = p.acc * 256 + b + (IF p.ln = 13 THEN 13 ELSE 269)], 0, 0)
            ELSE [p EXCEPT !.acc = b, !.need = 1]
      [] p.ph = "val" ->
            IF p.need = 1 THEN AOptDone([p EXCEPT !.val = Append(p.val, b), !.need = 0])
            ELSE [p EXCEPT !.val = Append(p.val, b), !.need = p.need - 1]
      [] p.ph = "m" -> [p EXCEPT !.ph = "pay", !.pay = << b >>]
      [] p.ph = "pay" -> [p EXCEPT !.pay = Append(p.pay, b)]
      [] OTHER -> p

(* verdict if the datagram ends here                                         *)
AVerdict(p) ==
    CASE p.ph \in {"h0", "h1", "h2", "h3"} -> Rej("short")
      [] p.ph = "tok" -> Rej("token-truncated")
      [] p.ph \in {"xd", "xl"} -> Rej("ext-truncated")
      [] p.ph = "val" -> Rej("value-truncated")
      [] p.ph = "m" -> Rej("marker-empty")
      [] p.ph = "rej" -> Rej(p.why)
      [] OTHER -> Ok((p.b0 \div 16) % 4, p.code, p.mid, p.tok, p.opts, p.pay)

RECURSIVE ARunFrom(_, _, _)
ARunFrom(p, b, i) == IF i > Len(b) THEN p ELSE ARunFrom(AStep(p, b[i]), b, i + 1)
ARun(b) == ARunFrom(AInit, b, 1)
=============================================================================
