-------------------------- MODULE ObserveServerObs --------------------------
(* Monitor summary and clauses of property C08 (Observe, server side):      *)
(* within one accepted registration the notifications carry its token and   *)
(* strictly increasing Observe values; a notification rendered at or after  *)
(* the last state change is eventually sent; the registration ends on       *)
(* Reset, on an unsuccessful / last notification, on a new request of the   *)
(* same endpoint with the same token, on time-out of a confirmable          *)
(* notification, on a transport error and on shutdown; once ended the       *)
(* cancellation callback has run exactly once, nothing further is sent for  *)
(* it, and the resource's observer count is back.                           *)
(*                                                                          *)
(* `obs' is a function of the observable events only (datagrams on the      *)
(* simulated wire, calls observed at the test resource); names of clauses   *)
(* found false are collected in obs.bad, suffixed with the end cause and    *)
(* the type of the registering request (":Rst:CON") so that a finding has a *)
(* stable description.  Used unchanged by the exhaustive model              *)
(* (ObserveServer.tla) and by trace validation of real executions           *)
(* (ObserveServerTrace.tla).                                                *)
(*                                                                          *)
(* Events are uniform records (harness/observeserverdrive.py):              *)
(*   k   "rx" | "tx" datagram read / sent      "change" state change        *)
(*       "render" the renderer read the state  "accept" add_observation     *)
(*       accepted   "obscount" update_observation_count(n)   "cancelcb"     *)
(*       the cancellation callback ran   "err" ICMP error for r             *)
(*       "shutdown" | "shutdown-done" | "loopexc" | "end" (quiescence)      *)
(*   t   time   r remote   ty "CON"/"NON"/"ACK"/"RST"   mid   tok   cls     *)
(*   code   dig (digest of the bytes)   obs (Observe value, -1 absent)      *)
(*   st  state number in the payload (= number of state changes when it was *)
(*       rendered) / reached by the change      g  registration number      *)
(*       (payload marker of the rendered request object; accept; cancelcb)  *)
(*   n   count   x  change variant / payload kind "S" rendered, "E" explicit*)
(*   q   number of the observable resource (request path; change; accept;    *)
(*       obscount; payload marker of a response) -- 0: none / another one    *)
(*   b2  Block2 option of the datagram as its integer value                  *)
(*       (16 * block number + 8 * more + size exponent), -1: absent          *)
(*       (recorded; no clause depends on it: a request is "a new request on *)
(*       the same token" because of its remote and token, whatever blocks it *)
(*       asks for, and a block fetched on another token is no such request)  *)
(*                                                                          *)
(* The first response of a registration is its first notification (RFC 7641 *)
(* section 3.2 "each such notification response (including the initial       *)
(* response)"): when it is sent as a separate confirmable response, Reset    *)
(* and time-out end the registration exactly like a later notification's.   *)
(* State numbers, change counts and observer counts are per resource.        *)
EXTENDS Naturals, Integers, Sequences, FiniteSets

CONSTANTS MaxRetransmit,       \* MAX_RETRANSMIT of the run (>= 1)
          NonLifetime          \* a Reset answering a NON notification is judged when it arrives at most this
                               \* long after the notification was sent (the driver's domain: always)

Has(f, k) == k \in DOMAIN f
Put(f, k, v) == [x \in (DOMAIN f) \cup {k} |-> IF x = k THEN v ELSE f[x]]

ObsInit == [ regs |-> << >>,  \* g -> summary of registration number g
             cur  |-> << >>,  \* <<r, tok>> -> g of the registration accepted under that key (0: none)
             rq   |-> << >>,  \* <<r, tok>> -> type of the latest new request with that key
             req  |-> {},     \* <<r, mid>> of the request datagrams seen (a second copy is a duplicate)
             ex   |-> << >>,  \* <<r, mid>> -> separate notification sent under that message ID
             nchg |-> << >>,  \* q -> state changes of resource q so far
             cnt  |-> << >>,  \* q -> resource q's latest update_observation_count value
             rstnon |-> 0,    \* Resets answering non-confirmable notifications seen (vacuity evidence)
             bad  |-> {} ]

Flag(o, c) == [o EXCEPT !.bad = @ \cup {c}]
FlagIf(o, cond, c) == IF cond THEN Flag(o, c) ELSE o

Get(f, k) == IF Has(f, k) THEN f[k] ELSE 0

NewReg(e, ty, nchg) ==
  [r |-> e.r, tok |-> e.tok, ty |-> ty,
   q |-> e.q,              \* the resource it observes
   phase |-> "active",     \* "active" | "closing" (marked last by the application, final not yet sent) | "ended"
   cause |-> "",           \* why it is over: Rst Unsuccessful Last ReRegister ConTimeout TransportError Shutdown
   k |-> 0,                \* closing: state number of the change that marked it last
   lastobs |-> -1,         \* Observe value of the last distinct notification
   lastst |-> -1,          \* state number the last distinct notification was rendered at
   seen |-> {},            \* <<mid, dig>> of its distinct notifications (a repetition is a retransmission)
   cb |-> 0,               \* runs of the cancellation callback
   coll |-> FALSE,         \* the cancellation callback ran at the very instant at which a confirmable message to
                           \* the registration's endpoint gave up (which fails everything towards that endpoint)
   rn |-> FALSE,           \* the observer answered one of its NON notifications with Reset (cause "RstNon").  That
                           \* cause is judged on its own, under names that say so: the summary goes on as the
                           \* implementation does (an implementation that ignores the Reset keeps the registration,
                           \* one that honours it runs the callback), so that every OTHER cause that follows is
                           \* still judged under its own name and nothing else is blamed on this one
   told |-> FALSE,         \* the application handed it an unsuccessful response at some point (that response
                           \* may be coalesced away, or be dropped with a backlog, so it does not have to
                           \* appear on the wire; but the end of the registration is explained by it)
   pre |-> e.n,            \* observer count before the registration
   born |-> nchg]          \* state number of its resource when it was accepted

Detail(R) == ":" \o R.ty

EndsClause(cause) ==
  CASE cause = "Rst" -> "C08_EndsOnRst"
    [] cause = "RstNon" -> "C08_EndsOnRstNon"       \* Reset answering a non-confirmable notification
    [] cause = "Unsuccessful" -> "C08_EndsOnUnsuccessful"
    [] cause = "Last" -> "C08_EndsOnLast"
    [] cause = "ReRegister" -> "C08_EndsOnReRegister"
    [] cause = "ConTimeout" -> "C08_EndsOnConTimeout"
    [] cause = "TransportError" -> "C08_EndsOnTransportError"
    [] cause = "Shutdown" -> "C08_EndsOnShutdown"
    [] OTHER -> "MON_UnknownCause"

\* the registrations in S are over (the first cause counts)
EndAll(o, S, cause) ==
  [o EXCEPT !.regs = [g \in DOMAIN o.regs |->
       IF g \in S /\ o.regs[g].phase # "ended"
         THEN [o.regs[g] EXCEPT !.phase = "ended", !.cause = cause] ELSE o.regs[g]]]

CloseEx(o, K) == [o EXCEPT !.ex = [k \in DOMAIN o.ex |-> IF k \in K THEN [o.ex[k] EXCEPT !.open = FALSE] ELSE o.ex[k]]]

(* A confirmable notification that has been transmitted MAX_RETRANSMIT + 1   *)
(* times and was not answered has timed out once twice the last gap has      *)
(* passed (binary exponential back-off, property C03).  Events at exactly    *)
(* that instant are not yet judged as "after the end".                       *)
TimedOut(o, t, final) ==
  {k \in DOMAIN o.ex : /\ o.ex[k].open /\ o.ex[k].con /\ o.ex[k].copies = MaxRetransmit + 1
                       /\ (final \/ t > o.ex[k].tlast + 2 * o.ex[k].gap)}
Expire(o, t, final) ==
  LET dead == TimedOut(o, t, final) IN
  IF dead = {} THEN o ELSE EndAll(CloseEx(o, dead), {o.ex[k].g : k \in dead}, "ConTimeout")

\* a confirmable message to r is giving up at instant t (its exchange is still open in the summary: Expire
\* closes it only when a later instant is seen)
GivesUpAt(o, r, t) ==
  \E k \in DOMAIN o.ex : /\ k[1] = r /\ o.ex[k].open /\ o.ex[k].con /\ o.ex[k].copies = MaxRetransmit + 1
                          /\ t = o.ex[k].tlast + 2 * o.ex[k].gap

(* ---- rx ------------------------------------------------------------------ *)
ObsRx(o, e) ==
  IF e.cls = "req" /\ e.ty \in {"CON", "NON"} THEN
      IF <<e.r, e.mid>> \in o.req THEN o        \* duplicate datagram, not a new request
      ELSE LET key == <<e.r, e.tok>>
               o1 == [o EXCEPT !.req = @ \cup {<<e.r, e.mid>>}, !.rq = Put(@, key, e.ty)]
           IN IF Has(o.cur, key) /\ o.cur[key] # 0
                THEN [EndAll(o1, {o.cur[key]}, "ReRegister") EXCEPT !.cur[key] = 0]
                ELSE o1
  ELSE IF e.ty \in {"ACK", "RST"} /\ Has(o.ex, <<e.r, e.mid>>) THEN
      LET k == <<e.r, e.mid>>
          x == o.ex[k]
      IN IF ~x.con
           THEN \* a non-confirmable notification (no exchange): an ACK means nothing; a Reset is the observer's
                \* answer to that notification ("when the observer answers a notification with Reset")
                IF e.ty = "RST" /\ e.t - x.tlast <= NonLifetime
                  THEN [o EXCEPT !.rstnon = 1,
                                 !.regs = [g \in DOMAIN o.regs |->
                                     IF g = x.g /\ o.regs[g].phase # "ended" THEN [o.regs[g] EXCEPT !.rn = TRUE] ELSE o.regs[g]]]
                  ELSE o
         ELSE IF ~x.open THEN o
         ELSE IF e.ty = "RST" THEN EndAll(CloseEx(o, {k}), {x.g}, "Rst")
         ELSE CloseEx(o, {k})
  ELSE o

(* ---- tx ------------------------------------------------------------------ *)
HeldAt(o, r, tok, k, q) ==
  LET C == {h \in DOMAIN o.regs : o.regs[h].r = r /\ o.regs[h].tok = tok /\ o.regs[h].q = q /\ o.regs[h].born < k} IN
  IF C = {} THEN 0 ELSE CHOOSE h \in C : \A j \in C : j <= h

ObsTx(o, e) ==
  IF e.cls # "resp" THEN o ELSE
  LET \* which registration the response belongs to: the one whose request object was rendered; an
      \* explicit response without marker (one object handed to all observers by the change that led to
      \* state e.st) belongs to the registration that held (remote, token) when that change happened,
      \* i.e. the latest one accepted before it (it may be sent, or retransmitted, after a re-registration)
      g == IF e.g # 0 THEN e.g ELSE IF e.x = "E" THEN HeldAt(o, e.r, e.tok, e.st, e.q) ELSE 0
  IN IF g = 0 \/ ~Has(o.regs, g) THEN
       \* not a notification of a registration; a confirmable one is still an exchange with that endpoint
       \* whose time-out fails everything towards it
       IF e.ty # "CON" THEN o
       ELSE LET xk0 == <<e.r, e.mid>> IN
            IF Has(o.ex, xk0) /\ o.ex[xk0].dig = e.dig
              THEN LET x == o.ex[xk0] IN
                   [o EXCEPT !.ex[xk0] = [x EXCEPT !.copies = x.copies + 1, !.gap = e.t - x.tlast, !.tlast = e.t]]
              ELSE [o EXCEPT !.ex = Put(@, xk0, [g |-> 0, con |-> TRUE, open |-> TRUE, copies |-> 1, tlast |-> e.t, gap |-> 0, dig |-> e.dig])]
     ELSE
  LET R == o.regs[g]
      md == <<e.mid, e.dig>>
      xk == <<e.r, e.mid>>
      o0 == FlagIf(o, e.tok # R.tok \/ e.r # R.r, "C08_TokenAndRisingNumbers" \o Detail(R))
  IN IF md \in R.seen THEN
       \* retransmission (same message ID and bytes): only the exchange bookkeeping moves
       IF Has(o0.ex, xk)
         THEN LET x == o0.ex[xk] IN
              [o0 EXCEPT !.ex[xk] = [x EXCEPT !.copies = x.copies + 1, !.gap = e.t - x.tlast, !.tlast = e.t]]
         ELSE o0
     ELSE
       LET final == e.code >= 128 \/ e.obs = -1 \/ (R.phase = "closing" /\ e.st >= R.k)
           o1 == IF R.phase = "ended"
                   THEN Flag(Flag(o0, "C08_SilentAfterEnd:" \o R.cause \o Detail(R)), EndsClause(R.cause) \o Detail(R))
                   ELSE IF R.rn
                   THEN \* a further notification although the observer answered an earlier (NON) one with Reset
                        Flag(Flag(o0, "C08_SilentAfterEnd:RstNon" \o Detail(R)), EndsClause("RstNon") \o Detail(R))
                   ELSE o0
           o2 == FlagIf(o1, R.phase # "ended" /\ e.obs # -1 /\ e.obs <= R.lastobs, "C08_TokenAndRisingNumbers" \o Detail(R))
           R2 == [R EXCEPT !.seen = @ \cup {md},
                           !.lastobs = IF e.obs # -1 THEN e.obs ELSE @,
                           !.lastst = e.st,
                           !.phase = IF final THEN "ended" ELSE @,
                           !.cause = IF R.phase = "ended" THEN @
                                     ELSE IF e.code >= 128 THEN "Unsuccessful"
                                     ELSE IF final THEN "Last" ELSE @]
           o3 == [o2 EXCEPT !.regs[g] = R2]
       IN IF e.ty \in {"CON", "NON"}
            THEN [o3 EXCEPT !.ex = Put(@, xk, [g |-> g, con |-> e.ty = "CON", open |-> e.ty = "CON",
                                              copies |-> 1, tlast |-> e.t, gap |-> 0, dig |-> e.dig])]
            ELSE o3

(* ---- application side ----------------------------------------------------- *)
ObsChange(o, e) ==
  IF e.x = "last"
    THEN \* every registration the resource still holds is marked last from this state on
         [o EXCEPT !.nchg = Put(@, e.q, e.st),
                   !.regs = [g \in DOMAIN o.regs |->
                       IF o.regs[g].q = e.q /\ o.regs[g].phase = "active" /\ o.regs[g].cb = 0
                         THEN [o.regs[g] EXCEPT !.phase = "closing", !.cause = "Last", !.k = e.st]
                         ELSE o.regs[g]]]
    ELSE IF e.x \in {"unsucc", "shared-unsucc"}
    THEN [o EXCEPT !.nchg = Put(@, e.q, e.st),
                   !.regs = [g \in DOMAIN o.regs |->
                       IF o.regs[g].q = e.q /\ o.regs[g].phase = "active" /\ o.regs[g].cb = 0
                         THEN [o.regs[g] EXCEPT !.told = TRUE] ELSE o.regs[g]]]
    ELSE [o EXCEPT !.nchg = Put(@, e.q, e.st)]

ObsAccept(o, e) ==
  LET key == <<e.r, e.tok>> IN
  [o EXCEPT !.regs = Put(@, e.g, NewReg(e, IF Has(o.rq, key) THEN o.rq[key] ELSE "?", Get(o.nchg, e.q))),
            !.cur = Put(@, key, e.g)]

ObsCancelCb(o, e) ==
  IF ~Has(o.regs, e.g) THEN Flag(o, "MON_CancelWithoutAccept")
  ELSE FlagIf([o EXCEPT !.regs[e.g].cb = @ + 1, !.regs[e.g].coll = @ \/ GivesUpAt(o, o.regs[e.g].r, e.t)], o.regs[e.g].cb >= 1, "C08_CancelCallbackOnce" \o Detail(o.regs[e.g]))

ObsObsCount(o, e) == [o EXCEPT !.cnt = Put(@, e.q, e.n)]

ObsErr(o, e) ==
  EndAll(CloseEx(o, {k \in DOMAIN o.ex : k[1] = e.r}), {g \in DOMAIN o.regs : o.regs[g].r = e.r}, "TransportError")

ObsShutdown(o, e) == EndAll(CloseEx(o, DOMAIN o.ex), DOMAIN o.regs, "Shutdown")

(* ---- quiescence ------------------------------------------------------------ *)
EndBadOf(o, g) ==
  LET R == o.regs[g] IN
  \* over (or marked last by the application: the final response itself may have been dropped with the
  \* backlog of a remote that timed out) and the cancellation callback has not run exactly once
  (IF R.phase \in {"ended", "closing"} /\ R.cb # 1
     THEN {"C08_CancelCallbackOnce:" \o R.cause \o Detail(R), EndsClause(R.cause) \o Detail(R)} ELSE {})
  \* a Reset answered one of its NON notifications and the cancellation callback has not run
  \cup (IF R.phase = "active" /\ R.rn /\ R.cb = 0
          THEN {"C08_CancelCallbackOnce:RstNon" \o Detail(R), EndsClause("RstNon") \o Detail(R)} ELSE {})
  \cup (IF R.phase = "active" /\ R.cb = 0 /\ ~R.rn /\ R.lastst # Get(o.nchg, R.q) THEN {"C08_LatestEventuallySent" \o Detail(R)} ELSE {})
  \* the implementation ended it (the callback ran) although none of the statement's causes occurred: the
  \* observer still counts on it.  Explained only by what fails everything towards the endpoint -- a
  \* confirmable message to it gave up at that very instant (transport error and shutdown are causes of
  \* their own) -- or by an unsuccessful response the application handed to it.
  \cup (IF R.phase = "active" /\ R.cb >= 1 /\ ~R.told /\ ~R.coll /\ ~R.rn
          THEN {"C08_EndsOnlyForCause" \o Detail(R)} ELSE {})

Live(o, q) == {g \in DOMAIN o.regs : o.regs[g].q = q /\ o.regs[g].phase # "ended" /\ o.regs[g].cb = 0}

\* per resource: the count it reported last is the number of its registrations that are not over
ObsEnd(o, e) ==
  LET Q == (DOMAIN o.cnt) \cup {o.regs[g].q : g \in DOMAIN o.regs} IN
  [o EXCEPT !.bad = @ \cup UNION {EndBadOf(o, g) : g \in DOMAIN o.regs}
                      \cup (IF \E q \in Q : Get(o.cnt, q) # Cardinality(Live(o, q)) THEN {"C08_CountRestored"} ELSE {})]

ObsEvent(o0, e) ==
  LET o == Expire(o0, e.t, e.k = "end") IN
  CASE e.k = "rx"       -> ObsRx(o, e)
    [] e.k = "tx"       -> ObsTx(o, e)
    [] e.k = "change"   -> ObsChange(o, e)
    [] e.k = "accept"   -> ObsAccept(o, e)
    [] e.k = "cancelcb" -> ObsCancelCb(o, e)
    [] e.k = "obscount" -> ObsObsCount(o, e)
    [] e.k = "err"      -> ObsErr(o, e)
    [] e.k = "shutdown" -> ObsShutdown(o, e)
    [] e.k = "end"      -> ObsEnd(o, e)
    [] OTHER            -> o

RECURSIVE ObsFold(_, _)
ObsFold(o, es) == IF es = << >> THEN o ELSE ObsFold(ObsEvent(o, Head(es)), Tail(es))
=============================================================================
