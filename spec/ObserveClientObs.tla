-------------------------- MODULE ObserveClientObs --------------------------
(* Monitor summary and clauses for property C07: observe client --           *)
(* notifications in freshness order, termination signalled once.             *)
(*                                                                           *)
(* Events are the uniform records of harness/drive.py (callback interface    *)
(* of a plain Request) and harness/observedrive.py (async iterator,          *)
(* BlockwiseRequest):                                                        *)
(*   submit(q, r, x = interface, obs = 0 iff the request asks to observe)    *)
(*   rx(r, ty, mid, cls, code, obs, q, t)   datagram read; q # 0 iff it      *)
(*        carries the token AND comes from the endpoint of request q;        *)
(*        obs = Observe value, -1 if the option is absent                    *)
(*   tx(r, ty, mid, cls)    datagram sent (ACK / RST answers matter here)    *)
(*   rxend                  the read callback returned                       *)
(*   notif(q, obs, code)    a notification was handed to the application     *)
(*   obsend(q, cls, x)      the observation's end was signalled              *)
(*   done(q, cls)           the request's response future completed          *)
(*   err(r)                 ICMP-style error for endpoint r                  *)
(*   end                    quiescence                                       *)
(* Times t are ticks of 2^-10 s.                                             *)
(*                                                                           *)
(* Interface "" (callbacks of a plain Request) is judged in full.  The other *)
(* interfaces sit behind a latest-value queue; there only what such a queue  *)
(* can guarantee is demanded (mode "lossy").                                 *)
EXTENDS Naturals, Integers, Sequences, FiniteSets

Has(f, k) == k \in DOMAIN f
Put(f, k, v) == [x \in (DOMAIN f) \cup {k} |-> IF x = k THEN v ELSE f[x]]

HALF == 8388608          \* 2^23
T128 == 131072           \* 128 s

(* RFC 7641 section 3.4, verbatim: V2 (arrived at T2) is fresher than V1 (T1) *)
Fresh(v1, t1, v2, t2) ==
  \/ (v1 < v2 /\ v2 - v1 < HALF)
  \/ (v1 > v2 /\ v1 - v2 > HALF)
  \/ t2 > t1 + T128

NoExp == [kind |-> "none", val |-> -1, t |-> 0, got |-> FALSE]
NoWin == [kind |-> "none", mid |-> 0, n |-> 0, ans |-> ""]

NewReq(r, mode) ==
  [r |-> r, mode |-> mode,
   st |-> "wait",        \* "wait" no response yet | "live" | "over" (a cause for the end has occurred)
   v1 |-> -1, t1 |-> 0,  \* cb: the last one handed over; lossy: the last one the RFC rule accepts
   exp |-> NoExp,        \* cb: what has to happen to the arrival being processed
   acc |-> << >>,        \* lossy: the values the RFC rule accepts, in order (-1: the final response)
   cur |-> {0},          \* lossy: positions in acc the last item handed over may have (equal values are ambiguous)
   must |-> "",          \* how the observation has to end: "notobs" | "final" | "net"
   tok |-> "?",          \* the token its request went out with ("?": not transmitted yet)
   ends |-> 0, kind |-> "", fin |-> FALSE]

ObsInit == [rq |-> << >>, win |-> NoWin, bad |-> {}]

Flag(o, c) == [o EXCEPT !.bad = @ \cup {c}]
FlagIf(o, cond, c) == IF cond THEN Flag(o, c) ELSE o

KindOf(e) == IF e.x = "NotObservable" THEN "notobs"
             ELSE IF e.x = "ObservationCancelled" THEN "cancel"
             ELSE IF e.cls \in {"net", "timeout"} THEN "net"
             ELSE IF e.cls = "clean" THEN "clean"      \* the iterator ended without raising
             ELSE "other"

RightKind(must, kind) ==
  CASE must = "notobs" -> kind \in {"notobs", "clean"}
    [] must = "final"  -> kind \in {"cancel", "clean"}
    [] must = "net"    -> kind = "net"
    [] OTHER           -> TRUE

(* an arrival that had to be handed over and was not (callback interface)    *)
CloseExp(o, q) ==
  LET s == o.rq[q]
      o1 == FlagIf(o, s.exp.kind = "deliver" /\ ~s.exp.got, "C07_DeliverIffFresh/suppressed")
  IN [o1 EXCEPT !.rq[q].exp = NoExp]

(* the end was signalled and its cause is known: right kind, and the final   *)
(* response was handed over before the cancellation                          *)
JudgeEnd(o, q) ==
  LET s == o.rq[q]
  IN IF s.ends = 0 \/ s.must = "" THEN o
     ELSE LET o1 == FlagIf(o, ~RightKind(s.must, s.kind), "C07_EndKind")
          IN FlagIf(o1, s.must = "final" /\ ~s.fin, "C07_FinalThenCancel")

Cause(o, q, must) ==
  LET s == o.rq[q]
      o1 == [o EXCEPT !.rq[q].st = "over", !.rq[q].must = IF s.must = "" THEN must ELSE s.must]
  IN JudgeEnd(o1, q)

(* obs = 0: the request registers an observation; through callbacks of a plain Request (x = "" or  *)
(* "cb") or behind a latest-value queue.  Other requests on the same context ("plain") only matter *)
(* for the tokens they are given.                                                                  *)
ObsSubmit(o, e) ==
  [o EXCEPT !.rq = Put(@, e.q, NewReq(e.r, IF e.obs # 0 THEN "plain" ELSE IF e.x \in {"", "cb"} THEN "cb" ELSE "lossy"))]

IsObs(o, q) == Has(o.rq, q) /\ o.rq[q].mode # "plain"

ObsRx(o, e) ==
  IF ~(e.cls = "resp" /\ e.q # 0 /\ IsObs(o, e.q)) THEN o
  ELSE
  LET q == e.q
      o0 == CloseExp(o, q)
      s == o0.rq[q]
  IN CASE s.st = "wait" ->
            IF e.obs >= 0
              THEN [o0 EXCEPT !.rq[q].st = "live", !.rq[q].v1 = e.obs, !.rq[q].t1 = e.t]
              ELSE Cause(o0, q, "notobs")
       [] s.st = "live" ->
            IF e.obs >= 0
              THEN LET fresh == Fresh(s.v1, s.t1, e.obs, e.t)
                   IN IF s.mode = "cb"
                        THEN [o0 EXCEPT !.rq[q].exp = [kind |-> IF fresh THEN "deliver" ELSE "nodeliver",
                                                        val |-> e.obs, t |-> e.t, got |-> FALSE]]
                        ELSE IF fresh
                               THEN [o0 EXCEPT !.rq[q].acc = Append(@, e.obs), !.rq[q].v1 = e.obs, !.rq[q].t1 = e.t]
                               ELSE o0
              ELSE LET o1 == IF s.mode = "cb"
                               THEN [o0 EXCEPT !.rq[q].exp = [kind |-> "deliver", val |-> -1, t |-> e.t, got |-> FALSE]]
                               ELSE [o0 EXCEPT !.rq[q].acc = Append(@, -1)]
                   IN Cause(o1, q, "final")
       [] OTHER ->   \* the observation is over: the token must be unknown again
            [o0 EXCEPT !.win = [NoWin EXCEPT !.kind = IF e.ty = "CON" THEN "rstit"
                                                      ELSE IF e.ty = "NON" THEN "silent" ELSE "none",
                                             !.mid = e.mid]]

(* A request datagram: while an observation is waiting or running, its token belongs to it alone  *)
(* -- no other request to that endpoint (another application request, or one the library makes    *)
(* itself for further blocks; q = 0) may be given the same token.                                  *)
ObsTxReq(o, e) ==
  LET o1 == IF Has(o.rq, e.q) /\ o.rq[e.q].tok = "?" THEN [o EXCEPT !.rq[e.q].tok = e.tok] ELSE o
      clash == \E p \in DOMAIN o.rq : /\ p # e.q /\ o.rq[p].mode # "plain" /\ o.rq[p].st \in {"wait", "live"}
                                       /\ o.rq[p].r = e.r /\ o.rq[p].tok = e.tok
  IN FlagIf(o1, clash, "C07_TokenExclusive")

ObsTx(o, e) ==
  IF e.cls = "req" THEN ObsTxReq(o, e)
  ELSE IF o.win.kind # "none" /\ e.mid = o.win.mid /\ e.ty \in {"ACK", "RST"}
    THEN [o EXCEPT !.win.ans = e.ty, !.win.n = @ + 1]
    ELSE o

ObsRxEnd(o, e) ==
  LET w == o.win
      o1 == CASE w.kind = "rstit"  -> FlagIf(o, ~(w.ans = "RST" /\ w.n = 1), "C07_LateNotificationsRejected")
              [] w.kind = "silent" -> FlagIf(o, w.n # 0, "C07_LateNotificationsRejected")
              [] OTHER -> o
  IN [o1 EXCEPT !.win = NoWin,
                \* satisfied and negative expectations are settled; an unsatisfied one stays open
                \* until the next arrival (a deferred hand-over is still in time)
                !.rq = [q \in DOMAIN @ |->
                          IF @[q].exp.kind = "nodeliver" \/ (@[q].exp.kind = "deliver" /\ @[q].exp.got)
                            THEN [@[q] EXCEPT !.exp = NoExp] ELSE @[q]]]

ObsNotif(o, e) ==
  IF ~IsObs(o, e.q) THEN Flag(o, "C07_DeliverIffFresh/unknown")
  ELSE
  LET q == e.q
      s == o.rq[q]
  IN IF s.ends > 0 THEN Flag(o, "C07_NothingAfterEnd")
     ELSE IF s.mode = "cb"
       THEN LET wanted == s.exp.kind = "deliver" /\ s.exp.val = e.obs /\ ~s.exp.got
                \* whatever was handed over is from now on "the last one handed over"
                o1 == IF e.obs >= 0
                        THEN [o EXCEPT !.rq[q].v1 = e.obs, !.rq[q].t1 = IF wanted THEN s.exp.t ELSE e.t]
                        ELSE o
            IN IF wanted
                 THEN [o1 EXCEPT !.rq[q].exp.got = TRUE, !.rq[q].fin = (@ \/ e.obs < 0)]
                 ELSE Flag(o1, "C07_DeliverIffFresh/stale")
       ELSE \* a later element of the accepted sequence (every position it may be is kept)
            LET nc == {j \in 1..Len(s.acc) : s.acc[j] = e.obs /\ \E i \in s.cur : i < j}
            IN IF nc = {} THEN Flag(o, "C07_DeliverIffFresh/order")
               ELSE [o EXCEPT !.rq[q].cur = nc, !.rq[q].fin = (@ \/ e.obs < 0)]

ObsObsEnd(o, e) ==
  IF ~IsObs(o, e.q) THEN Flag(o, "C07_EndsOnce")
  ELSE
  LET q == e.q
      s == o.rq[q]
  IN IF s.ends > 0 THEN Flag([o EXCEPT !.rq[q].ends = @ + 1], "C07_EndsOnce")
     ELSE JudgeEnd([o EXCEPT !.rq[q].ends = 1, !.rq[q].kind = KindOf(e)], q)

(* the request failed before any response: a transport failure              *)
ObsDone(o, e) ==
  IF IsObs(o, e.q) /\ o.rq[e.q].st = "wait" /\ e.cls \in {"net", "timeout"}
    THEN Cause(o, e.q, "net")
    ELSE o

RECURSIVE ErrAll(_, _, _)
ErrAll(o, qs, r) ==
  IF qs = {} THEN o
  ELSE LET q == CHOOSE x \in qs : TRUE
           hit == o.rq[q].mode # "plain" /\ o.rq[q].r = r /\ o.rq[q].st \in {"wait", "live"}
       IN ErrAll(IF hit THEN Cause(CloseExp(o, q), q, "net") ELSE o, qs \ {q}, r)

ObsErr(o, e) == ErrAll(o, DOMAIN o.rq, e.r)

RECURSIVE EndAll(_, _)
EndAll(o, qs) ==
  IF qs = {} THEN o
  ELSE LET q == CHOOSE x \in qs : TRUE
           o0 == CloseExp(o, q)
           s == o0.rq[q]
           o1 == FlagIf(o0, s.must # "" /\ s.ends = 0, "C07_EndsOnce")          \* never signalled
           o2 == FlagIf(o1, s.must = "" /\ s.ends > 0, "C07_EndKind")           \* ended without any cause
           \* still live behind a latest-value queue: the freshest accepted one must have come out
           o3 == FlagIf(o2, s.mode = "lossy" /\ s.must = "" /\ s.ends = 0 /\ Len(s.acc) \notin s.cur,
                        "C07_DeliverIffFresh/latest-lost")
       IN EndAll(o3, qs \ {q})

ObsEnd(o, e) == EndAll(o, {q \in DOMAIN o.rq : o.rq[q].mode # "plain"})

ObsEvent(o, e) ==
  CASE e.k = "submit" -> ObsSubmit(o, e)
    [] e.k = "rx"     -> ObsRx(o, e)
    [] e.k = "tx"     -> ObsTx(o, e)
    [] e.k = "rxend"  -> ObsRxEnd(o, e)
    [] e.k = "notif"  -> ObsNotif(o, e)
    [] e.k = "obsend" -> ObsObsEnd(o, e)
    [] e.k = "done"   -> ObsDone(o, e)
    [] e.k = "err"    -> ObsErr(o, e)
    [] e.k = "end"    -> ObsEnd(o, e)
    [] OTHER          -> o

RECURSIVE ObsFold(_, _)
ObsFold(o, es) == IF es = << >> THEN o ELSE ObsFold(ObsEvent(o, Head(es)), Tail(es))
=============================================================================
