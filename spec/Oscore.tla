--------------------------- MODULE Oscore ---------------------------
(* Symbolic model of OSCORE message protection (RFC 8613 sections 5, 6, 8)  *)
(* -- property C11: round trip, outer message reveals nothing, responses    *)
(* bound to their request, tampering detected.                              *)
(*                                                                          *)
(* The AEAD is ideal and symbolic: a ciphertext is the record of what went  *)
(* into it, Enc(key, nonce, aad, plaintext); decryption succeeds iff the    *)
(* recipient reconstructs key, nonce and aad identically (and the           *)
(* ciphertext bytes are untouched).  Keys and the common IV are functions   *)
(* of (master secret, ID context, sender ID) as in the HKDF derivation.     *)
(* Unprotect follows aiocoap.oscore.CanUnprotect.unprotect / _uncompress    *)
(* and RFC 8613 section 8.2/8.4 step by step.                               *)
(*                                                                          *)
(* Closed system: a client and a server sharing a context, plus an attacker *)
(* who sees every protected message and may deliver any of them -- edited   *)
(* in one field of the OSCORE option, with a swapped or corrupted           *)
(* ciphertext, against any outstanding request, or to a context with other  *)
(* keys.  The judgement operators JudgeDelivery and JudgeOuter are shared          *)
(* with OscoreTrace, which evaluates them on results of the real code.     *)
EXTENDS Naturals, Sequences, FiniteSets, TLC

CONSTANTS IdCtxs,        \* ID contexts explored for the shared context ("none" = no ID context)
          KidOptional,   \* FALSE: RFC 8613 -- a request without kid is malformed.
                         \* TRUE: a request without kid is taken to come from the context's peer
          MaxReq, MaxResp

POST == 2  FETCH == 5  CHANGED == 68  CONTENT == 69
ReqNames  == <<"req0", "req1", "req2", "req3">>      \* symbolic plaintexts
RespNames == <<"resp0", "resp1", "resp2", "resp3">>
OuterCodes == {POST, FETCH, CHANGED, CONTENT}
(* option numbers that may appear in the outer message: Uri-Host, Observe,  *)
(* Uri-Port, OSCORE, Proxy-Uri, Proxy-Scheme                                *)
OuterOptions == {3, 6, 7, 9, 35, 39}

(***************************************************************************)
(* Symbolic cryptography                                                   *)
(***************************************************************************)
Ctx(sec, idc, sid, rid) == [sec |-> sec, idc |-> idc, sid |-> sid, rid |-> rid]
KeyOf(c, id) == <<c.sec, c.idc, id>>                 \* HKDF(secret, salt, [id, idc, alg, "Key", L])
IvOf(c) == <<c.sec, c.idc>>                          \* common IV
Piv(tag, v) == [tag |-> tag, v |-> v]                \* tag: "abs" | "val" | "pad" (leading zero) | "long" (6-7 bytes)
NoPiv == Piv("abs", 0)
ReqId(kid, piv) == [kid |-> kid, piv |-> piv]
NoRid == ReqId("none", NoPiv)

Enc(key, iv, gen, npiv, rid, pt) ==
  [key |-> key, iv |-> iv, gen |-> gen, npiv |-> npiv, akid |-> rid.kid, apiv |-> rid.piv, pt |-> pt, ok |-> "ok"]

Opt(piv, kid, kidctx) == [piv |-> piv, kid |-> kid, kidctx |-> kidctx, group |-> FALSE, reserved |-> FALSE]

ProtectRequest(c, m, v, sendCtx, observe) ==
  LET piv == Piv("val", v)
      rid == ReqId(c.sid, piv)
  IN [role |-> "req",
      oc   |-> IF observe THEN FETCH ELSE POST,
      opt  |-> Opt(piv, c.sid, IF sendCtx /\ c.idc # "none" THEN c.idc ELSE "absent"),
      ct   |-> Enc(KeyOf(c, c.sid), IvOf(c), c.sid, v, rid, m),
      rid  |-> rid]

ProtectResponse(c, m, rid, own, v, oc) ==       \* own: fresh partial IV v instead of the request's nonce
  [role |-> "resp",
   oc   |-> oc,
   opt  |-> Opt(IF own THEN Piv("val", v) ELSE NoPiv, "absent", "absent"),
   ct   |-> IF own THEN Enc(KeyOf(c, c.sid), IvOf(c), c.sid, v, rid, m)
                   ELSE Enc(KeyOf(c, c.sid), IvOf(c), rid.kid, rid.piv.v, rid, m),
   rid  |-> rid]

(* outcome of unprotect: "reject" (a protection error) or the plaintext *)
Unprotect(c, p, rid) ==
  LET isResp == rid # NoRid
      o == p.opt
      malformed ==
        \/ o.reserved                                   \* reserved flag bits
        \/ o.group                                      \* group flag, but not a group context
        \/ o.piv.tag = "long"                           \* n = 6, 7 are reserved
        \/ o.kidctx # "absent" /\ o.kidctx # c.idc      \* (also: ID context given although the context has none)
        \/ o.kid # "absent" /\ o.kid # c.rid
        \/ ~isResp /\ o.kid = "absent" /\ ~KidOptional
        \/ ~isResp /\ o.piv.tag = "abs"
      ownPiv == o.piv.tag # "abs"
      gen  == IF ownPiv THEN c.rid ELSE rid.kid
      npiv == IF ownPiv THEN o.piv.v ELSE rid.piv.v
      arid == IF isResp THEN rid ELSE ReqId(c.rid, o.piv)
  IN IF malformed THEN "reject"
     ELSE IF /\ p.ct.ok = "ok"
             /\ p.ct.key = KeyOf(c, c.rid)
             /\ p.ct.iv = IvOf(c)
             /\ p.ct.gen = gen /\ p.ct.npiv = npiv
             /\ p.ct.akid = arid.kid /\ p.ct.apiv = arid.piv
          THEN p.ct.pt
          ELSE "reject"

(***************************************************************************)
(* Attacker: one edit of a protected message                               *)
(***************************************************************************)
Edits == {"none", "piv_other", "piv_remove", "piv_add", "piv_pad", "piv_long",
          "kid_other", "kid_remove", "kid_add_right", "kid_add_wrong",
          "kidctx_other", "kidctx_remove", "kidctx_add_right", "kidctx_add_wrong",
          "flag_group", "flag_reserved", "ct_corrupt", "ct_short", "ct_swap"}

Applicable(p, e) ==
  CASE e \in {"piv_other", "piv_remove", "piv_pad", "piv_long"} -> p.opt.piv.tag = "val"
    [] e = "piv_add" -> p.opt.piv.tag = "abs"
    [] e \in {"kid_other", "kid_remove"} -> p.opt.kid # "absent"
    [] e \in {"kid_add_right", "kid_add_wrong"} -> p.opt.kid = "absent"
    [] e \in {"kidctx_other", "kidctx_remove"} -> p.opt.kidctx # "absent"
    [] e \in {"kidctx_add_right", "kidctx_add_wrong"} -> p.opt.kidctx = "absent"
    [] OTHER -> TRUE

(* rightKid / rightCtx: the values the addressed recipient expects; q: another message (ct_swap) *)
Edit(p, e, rightKid, rightCtx, q) ==
  CASE e = "none" -> p
    [] e = "piv_other"   -> [p EXCEPT !.opt.piv.v = @ + 1]
    [] e = "piv_remove"  -> [p EXCEPT !.opt.piv = NoPiv]
    [] e = "piv_add"     -> [p EXCEPT !.opt.piv = Piv("val", p.rid.piv.v)]   \* the most promising value: the request's
    [] e = "piv_pad"     -> [p EXCEPT !.opt.piv.tag = "pad"]
    [] e = "piv_long"    -> [p EXCEPT !.opt.piv.tag = "long"]
    [] e = "kid_other"   -> [p EXCEPT !.opt.kid = "zz"]
    [] e = "kid_remove"  -> [p EXCEPT !.opt.kid = "absent"]
    [] e = "kid_add_right" -> [p EXCEPT !.opt.kid = rightKid]
    [] e = "kid_add_wrong" -> [p EXCEPT !.opt.kid = "zz"]
    [] e = "kidctx_other"  -> [p EXCEPT !.opt.kidctx = "gz"]
    [] e = "kidctx_remove" -> [p EXCEPT !.opt.kidctx = "absent"]
    [] e = "kidctx_add_right" -> [p EXCEPT !.opt.kidctx = rightCtx]
    [] e = "kidctx_add_wrong" -> [p EXCEPT !.opt.kidctx = "gz"]
    [] e = "flag_group"    -> [p EXCEPT !.opt.group = TRUE]
    [] e = "flag_reserved" -> [p EXCEPT !.opt.reserved = TRUE]
    [] e = "ct_corrupt"    -> [p EXCEPT !.ct.ok = "corrupt"]
    [] e = "ct_short"      -> [p EXCEPT !.ct.ok = "short"]
    [] e = "ct_swap"       -> [p EXCEPT !.ct = q.ct]

(* Does the edit change what the statement protects (ciphertext, partial    *)
(* IV, key ID, ID context as the recipient will use them)?  Removing or     *)
(* adding a hint whose value the recipient takes from its own context       *)
(* anyway (kid context; kid on a response) changes none of them.            *)
Harmless(role, e) ==
  \/ e = "none"
  \/ e \in {"kidctx_remove", "kidctx_add_right"}
  \/ e = "kid_add_right" /\ role = "resp"
  \/ e = "kid_remove" /\ role = "resp"
  \/ e = "piv_pad" /\ role = "resp"       \* a response's own partial IV only enters the (left-padded) nonce

(***************************************************************************)
(* Judgement of one delivery (shared with OscoreTrace)                      *)
(*   genuine: the delivered bytes are a message the peer really produced    *)
(*   matches: the context is the peer's and (for a response) rid is the     *)
(*            request it answers                                            *)
(*   res: "msg" (a message came out, equal = it is the original) |          *)
(*        "reject" (exception of the ProtectionInvalid family) |            *)
(*        "other" (any other exception)                                     *)
(***************************************************************************)
JudgeDelivery(role, e, sameCtx, ridOwn, res, equal) ==
  IF e = "none" /\ sameCtx /\ ridOwn
    THEN IF res = "msg" /\ equal THEN {} ELSE {"C11_RoundTrip"}
  ELSE IF e = "none" /\ sameCtx /\ ~ridOwn          \* genuine response against another request
    THEN IF res = "reject" THEN {} ELSE {"C11_ResponseBound"}
  ELSE IF Harmless(role, e) /\ sameCtx /\ ridOwn    \* equivalent message: both outcomes admissible,
    THEN IF res = "other" \/ (res = "msg" /\ ~equal) THEN {"C11_TamperRejected"} ELSE {}
  ELSE IF res = "reject" THEN {} ELSE {"C11_TamperRejected"}

(* The outer code is a function of the use of Observe alone (RFC 8613       *)
(* section 4.2): POST, or FETCH for an Observe request; 2.04, or 2.05 for   *)
(* the responses to a FETCH.  A code chosen by the inner code would reveal  *)
(* something about it.                                                      *)
ExpectedOuterCode(role, observe, reqfetch) ==
  IF role = "req" THEN (IF observe THEN FETCH ELSE POST) ELSE (IF reqfetch THEN CONTENT ELSE CHANGED)

JudgeOuter(role, oc, observe, reqfetch, optnums, leak) ==
  IF oc \in OuterCodes /\ oc = ExpectedOuterCode(role, observe, reqfetch)
     /\ optnums \subseteq OuterOptions /\ ~leak THEN {} ELSE {"C11_OuterRevealsNothing"}

(***************************************************************************)
(* Closed system                                                           *)
(***************************************************************************)
VARIABLES idc,     \* ID context of the shared security context
          net,     \* sequence of genuine protected messages (the attacker's knowledge)
          pend,    \* requests the client waits for: set of net indices
          seen,    \* requests the server has accepted: set of [ri, m]
          used,    \* requests (net indices) whose nonce a response has already reused
          nreq, nresp,
          bad,     \* clauses found false
          act      \* last step, for replaying behaviours (outside the VIEW)

vars == <<idc, net, pend, seen, used, nreq, nresp, bad, act>>

Client  == Ctx("s1", idc, "c", "s")
Server  == Ctx("s1", idc, "s", "c")
Recipients == {"peer", "foreign", "otherctx"}
(* who unprotects: the genuine peer; same IDs but another master secret;    *)
(* same secret but another ID context                                       *)
RcptCtx(base, k) ==
  CASE k = "peer" -> base
    [] k = "foreign" -> [base EXCEPT !.sec = "s2"]
    [] k = "otherctx" -> [base EXCEPT !.idc = IF base.idc = "g2" THEN "g3" ELSE "g2"]

Init == /\ idc \in IdCtxs /\ net = << >> /\ pend = {} /\ seen = {} /\ used = {} /\ nreq = 0 /\ nresp = 0
        /\ bad = {} /\ act = [k |-> "init"]

ClientRequest ==
  /\ nreq < MaxReq
  /\ \E sendCtx \in BOOLEAN, observe \in BOOLEAN :
       LET m == ReqNames[nreq + 1]
           p == ProtectRequest(Client, m, nreq, sendCtx, observe)
       IN /\ net' = Append(net, p)
          /\ pend' = pend \cup {Len(net) + 1}
          /\ bad' = bad \cup JudgeOuter("req", p.oc, observe, FALSE, {9} \cup (IF observe THEN {6} ELSE {}), FALSE)
          /\ act' = [k |-> "request", sendCtx |-> sendCtx, observe |-> observe]
  /\ nreq' = nreq + 1
  /\ UNCHANGED <<idc, seen, used, nresp>>

(* the attacker delivers message i, edited, to a server-side context *)
ServerReceive ==
  \E i \in 1..Len(net), e \in Edits, j \in 1..Len(net), k \in Recipients :
    LET p == net[i]
        c == RcptCtx(Server, k)
        q == Edit(p, e, Server.rid, Server.idc, net[j])
        r == Unprotect(c, q, NoRid)
        genuine == \E x \in 1..Len(net) : net[x].opt = q.opt /\ net[x].ct = q.ct /\ net[x].role = "req"
        res == IF r = "reject" THEN "reject" ELSE "msg"
    IN /\ p.role = "req" /\ Applicable(p, e)
       /\ (e = "ct_swap" => j # i /\ net[j].ct # p.ct) /\ (e # "ct_swap" => j = i)
       /\ (e # "none" => k = "peer")
       /\ (e = "kidctx_add_right" => idc # "none")
       /\ bad' = bad \cup IF genuine /\ k = "peer" THEN JudgeDelivery("req", "none", TRUE, TRUE, res, r = q.ct.pt)
                           ELSE JudgeDelivery("req", IF k = "peer" THEN e ELSE "none", k = "peer", TRUE, res, r = p.ct.pt)
       /\ seen' = IF r # "reject" /\ k = "peer" THEN seen \cup {[ri |-> i, rid |-> ReqId(c.rid, q.opt.piv), m |-> r]} ELSE seen
       /\ act' = [k |-> "srv_rx", i |-> i, e |-> e, j |-> j, rcpt |-> k, expect |-> res]
       /\ UNCHANGED <<idc, net, pend, used, nreq, nresp>>

ServerRespond ==
  /\ nresp < MaxResp
  /\ \E x \in seen, own \in BOOLEAN :
       LET m == RespNames[nresp + 1]
           oc == IF net[x.ri].oc = FETCH THEN CONTENT ELSE CHANGED     \* code style of the request
           p == ProtectResponse(Server, m, x.rid, own, 10 + nresp, oc)
       IN /\ (~own => x.ri \notin used)          \* the request's nonce may be reused once only
          /\ net' = Append(net, p)
          /\ used' = IF own THEN used ELSE used \cup {x.ri}
          /\ bad' = bad \cup JudgeOuter("resp", p.oc, FALSE, net[x.ri].oc = FETCH, {9}, FALSE)
          /\ act' = [k |-> "respond", ri |-> x.ri, own |-> own, oc |-> oc]
  /\ nresp' = nresp + 1
  /\ UNCHANGED <<idc, pend, seen, nreq>>

(* the attacker delivers message i, edited, to a client-side context as the answer to request ri *)
ClientReceive ==
  \E i \in 1..Len(net), e \in Edits, j \in 1..Len(net), k \in Recipients, ri \in pend :
    LET p == net[i]
        c == RcptCtx(Client, k)
        rid == net[ri].rid
        q == Edit(p, e, Client.rid, Client.idc, net[j])
        r == Unprotect(c, q, rid)
        res == IF r = "reject" THEN "reject" ELSE "msg"
        \* an edit may produce exactly another genuine response: then it is a replay of that one
        same == {x \in 1..Len(net) : net[x].role = "resp" /\ net[x].opt = q.opt /\ net[x].ct = q.ct}
    IN /\ p.role = "resp" /\ Applicable(p, e)
       /\ (e = "ct_swap" => j # i /\ net[j].ct # p.ct) /\ (e # "ct_swap" => j = i)
       /\ (e # "none" => k = "peer")
       /\ (e = "kidctx_add_right" => idc # "none")
       /\ bad' = bad \cup IF same # {} /\ k = "peer"
                             THEN LET x == CHOOSE y \in same : TRUE
                                  IN JudgeDelivery("resp", "none", TRUE, net[x].rid = rid, res, r = net[x].ct.pt)
                             ELSE JudgeDelivery("resp", IF k = "peer" THEN e ELSE "none", k = "peer", p.rid = rid, res, r = p.ct.pt)
       /\ act' = [k |-> "cli_rx", i |-> i, e |-> e, j |-> j, rcpt |-> k, ri |-> ri, expect |-> res]
       /\ UNCHANGED <<idc, net, pend, seen, used, nreq, nresp>>

Next == ClientRequest \/ ServerReceive \/ ServerRespond \/ ClientReceive
Spec == Init /\ [][Next]_vars
View == <<idc, net, pend, seen, used, nreq, nresp, bad>>

C11_RoundTrip            == "C11_RoundTrip" \notin bad
C11_OuterRevealsNothing  == "C11_OuterRevealsNothing" \notin bad
C11_ResponseBound        == "C11_ResponseBound" \notin bad
C11_TamperRejected       == "C11_TamperRejected" \notin bad
NoBad == bad = {}
=============================================================================
