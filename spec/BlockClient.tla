----------------------------- MODULE BlockClient -----------------------------
(* Implementation-shaped model of aiocoap's block-wise client                  *)
(*   protocol.py  BlockwiseRequest._run (Block1 loop: fragmentation threshold,  *)
(*                block cursor, `block_cursor *= 2' on a size reduction) and    *)
(*                _complete_by_requesting_block2,                               *)
(*   message.py   _extract_block, _append_response_block,                       *)
(*                _generate_next_block2_request (with BlockwiseTuple.reduced_to)*)
(* against the RFC 7959 reference server of harness/blockclientdrive.py with    *)
(* its environment decisions: the size exponent of every Block1                 *)
(* acknowledgement and Block2 response (reductions at any point), the           *)
(* representation length, one fault (wrong block number, more-flag or 2.31 on   *)
(* the final Block1 acknowledgement, a skipped Block2 block, missing payload    *)
(* bytes, ETag change between blocks) and one lost or duplicated datagram.      *)
(* Bodies are self-describing: a payload is described by the canonical string   *)
(* it was cut from (cid), the offset it was cut at and its length.              *)
(* Every action emits the events the driver records; the monitor summary `obs'  *)
(* of BlockClientObs is folded over them and the clauses are the invariant.     *)
EXTENDS BlockClientObs, TLC

CONSTANTS Ns,            \* request body lengths (bytes)
          Ms,            \* representation lengths (bytes) for the request lengths in NsWide
          MsNoEtag,      \* representation lengths for which representation 1 may also come without ETag
          NsWide, MsFew, \* (the other request lengths are combined with the representation lengths MsFew)
          MaxSzx,        \* size exponents 0..MaxSzx (client maximum and server choices)
          NetBudget,     \* lost / duplicated datagrams per transfer
          FaultBudget,   \* server faults per transfer
          FixFirstNum,   \* TRUE: the block number of the first Block2 response is checked before its more-flag
          AckStyles,     \* how the server acknowledges the Block1 requests that are not the last one, chosen per
                         \* transfer from "a" atomic (2.31, M=1), "s" stateless (2.04, M=0, every block enacted on
                         \* its own, RFC 7959 2.5), "as"/"sa" alternating (mixed), starting with the named one
          XFaults,       \* further environment decisions, each costs the fault budget like a fault:
                         \*   "e1" an error response (ErrCodes, with or without the Block1 option echoed, any size
                         \*        exponent as hint, diagnostic payload) instead of the acknowledgement of a Block1 request,
                         \*   "e2" an error response to a Block2 continuation request,
                         \*   "etsome" the ETag of the unchanged representation appears / disappears between blocks,
                         \*   "b2grow" / "b1grow" the server answers one size exponent above the request's,
                         \*   ("etag" with a representation 2 that ends before the offset reached -> 4.00 is part of "etag")
          ErrCodes, ErrLens,
          Combined,      \* TRUE: a fault and a loss may hit the same transfer; FALSE: at most one of the two
          FaultAt, NetAt \* {0}:  the fault / the loss may hit any exchange (exhaustive runs); otherwise the ordinal of
                         \* the request datagram it may hit is drawn at submission (spreads -simulate behaviours)

VARIABLES pc, cl, srv, msg, nreq, nb, fb, arm, emit, obs, act
vars == <<pc, cl, srv, msg, nreq, nb, fb, arm, emit, obs, act>>

ReqCid == 90
RepCid(rid) == IF rid = 1 THEN 161 ELSE 178
RepEtag(rid) == 224 + rid
Method == 2          \* POST; the reference server answers 2.04
OkCode == 68
ErrCid == 195

E0 == [k |-> "", q |-> 0, code |-> 0, b1n |-> -1, b1m |-> -1, b1s |-> -1, b2n |-> -1, b2m |-> -1, b2s |-> -1,
       plen |-> 0, cid |-> -1, off |-> -1, cok |-> TRUE, size1 |-> -1, len |-> -1, etag |-> -1, rid |-> 0,
       rt |-> FALSE, x |-> "", c |-> -1, rk |-> 0, tr |-> 1, pok |-> TRUE]

NoR == [b1n |-> -1, b1m |-> -1, b1s |-> -1, b2n |-> -1, b2m |-> -1, b2s |-> -1, plen |-> 0, off |-> -1, size1 |-> -1]
NoM == [code |-> 0, b1n |-> -1, b1m |-> -1, b1s |-> -1, b2n |-> -1, b2m |-> -1, b2s |-> -1, plen |-> 0, cid |-> -1,
        off |-> -1, etag |-> -1, rid |-> 0, x |-> ""]
ErrM(code, elen, x) == [NoM EXCEPT !.code = code, !.plen = elen, !.cid = IF elen > 0 THEN ErrCid ELSE -1,
                                   !.off = IF elen > 0 THEN 0 ELSE -1, !.x = x]
NoAct == [a |-> "", ec |-> 0, el |-> 0, echo |-> FALSE, rp |-> FALSE, flt0 |-> "none", dbl |-> FALSE, st |-> "a", a1 |-> 0, a2 |-> 0, flt |-> "none", fate |-> "ok", M1 |-> 0, M2 |-> 0, sh |-> 0,
          b1 |-> FALSE, sv |-> FALSE, nb1 |-> 0, nb2 |-> 0, nreq |-> 0, N |-> 0, C |-> 0]

ReqEv(r, rt) == [E0 EXCEPT !.k = "req", !.q = 1, !.code = Method, !.b1n = r.b1n, !.b1m = r.b1m, !.b1s = r.b1s,
                           !.b2n = r.b2n, !.b2m = r.b2m, !.b2s = r.b2s, !.plen = r.plen,
                           !.cid = IF r.plen > 0 THEN ReqCid ELSE -1, !.off = IF r.plen > 0 THEN r.off ELSE -1,
                           !.size1 = r.size1, !.rt = rt, !.rk = 1]      \* (same method and options in every request)
RespEv(k, m, rt) == [E0 EXCEPT !.k = k, !.q = 1, !.code = m.code, !.b1n = m.b1n, !.b1m = m.b1m, !.b1s = m.b1s,
                           !.b2n = m.b2n, !.b2m = m.b2m, !.b2s = m.b2s, !.plen = m.plen, !.cid = m.cid, !.off = m.off,
                           !.etag = m.etag, !.rid = m.rid, !.x = m.x, !.rt = rt]

Step(es) == /\ emit' = es /\ obs' = ObsFold(obs, es)

Init == /\ pc = "idle"
        /\ cl = [N |-> 0, C |-> 0, ph |-> "b1", szx |-> 0, cur |-> 0, req |-> NoR,
                 alen |-> 0, aszx |-> 0, aetag |-> -1, acid |-> -1, aok |-> TRUE, apok |-> TRUE, acode |-> 0]
        /\ srv = [blen |-> -1, bok |-> TRUE, rid |-> 0, M |-> 0, nb1 |-> 0, nb2 |-> 0, style |-> "", pers |-> "none", psh |-> 0, et |-> -1]
        /\ msg = NoM /\ nreq = 0 /\ nb = NetBudget /\ fb = FaultBudget /\ arm = [f |-> 0, n |-> 0]
        /\ emit = << >> /\ obs = ObsInit /\ act = NoAct

(* ---- the application hands a payload to Context.request(handle_blockwise=True) ---- *)
FaultOk == (arm.f = 0 \/ arm.f = nreq) /\ (Combined \/ nb = NetBudget)
NetOk == (arm.n = 0 \/ arm.n = nreq) /\ (Combined \/ fb = FaultBudget)

Submit(n, c) ==
  /\ pc = "idle"
  /\ cl' = [cl EXCEPT !.N = n, !.C = c, !.szx = c]          \* size_exp = remote.maximum_block_size_exp
  /\ pc' = "arm"
  /\ Step(<<[E0 EXCEPT !.k = "submit", !.q = 1, !.code = Method, !.len = n, !.cid = IF n > 0 THEN ReqCid ELSE -1, !.c = c]>>)
  /\ act' = [NoAct EXCEPT !.a = "submit", !.N = n, !.C = c]
  /\ UNCHANGED <<srv, msg, nreq, nb, fb, arm>>

\* environment: which exchange the fault / the loss may hit (see FaultAt, NetAt)
Arm == /\ pc = "arm" /\ pc' = "send"
       /\ \E f \in FaultAt, g \in NetAt : arm' = [f |-> f, n |-> g]
       /\ emit' = << >> /\ act' = [NoAct EXCEPT !.a = "arm"]
       /\ UNCHANGED <<cl, srv, msg, nreq, nb, fb, obs>>

(* ---- completion of the request ----------------------------------------------------- *)
Finish(es) == /\ pc' = "fin" /\ Step(es) /\ UNCHANGED <<cl, srv, msg, nreq, nb, fb, arm>>
Fail(cls) == Finish(<<[E0 EXCEPT !.k = "done", !.q = 1, !.x = cls]>>)
Succeed(code, len, cid, ok, pok) ==
  Finish(<<[E0 EXCEPT !.k = "done", !.q = 1, !.x = "resp", !.code = code, !.len = len, !.plen = len,
                      !.cid = IF len > 0 THEN cid ELSE -1, !.cok = ok, !.pok = pok]>>)
\* a response passed on as it is
Pass(m) == Succeed(m.code, m.plen, m.cid, m.plen = 0 \/ m.off = 0, m.plen = 0 \/ (m.off = 0 /\ m.cid # ErrCid))

(* ---- the client sends its next request ---------------------------------------------- *)
Thr(s) == IF s >= 6 THEN 1124 ELSE Size(s)       \* fragmentation threshold

Block1Req ==                                     \* Message._extract_block(block_cursor, size_exp, ..)
  LET size == Size(cl.szx)
      start == cl.cur * size
      end == Min(start + size, cl.N)
  IN IF cl.N > Thr(cl.szx)
       THEN [NoR EXCEPT !.b1n = cl.cur, !.b1m = IF end < cl.N THEN 1 ELSE 0, !.b1s = cl.szx,
                        !.plen = end - start, !.off = start, !.size1 = IF cl.cur = 0 THEN cl.N ELSE -1]
       ELSE [NoR EXCEPT !.plen = cl.N, !.off = 0]

Block2Req ==                                     \* Message._generate_next_block2_request(assembled)
  LET size == Size(cl.aszx)
      nxt == cl.alen \div size
  IN IF cl.C >= cl.aszx THEN [NoR EXCEPT !.b2n = nxt, !.b2m = 0, !.b2s = cl.aszx]
     ELSE [NoR EXCEPT !.b2n = nxt * 2 ^ (cl.aszx - cl.C), !.b2m = 0, !.b2s = cl.C]      \* reduced_to

ClientSend ==
  /\ pc = "send"
  /\ act' = [NoAct EXCEPT !.a = "send"]
  /\ IF cl.ph = "b1" /\ cl.N > Thr(cl.szx) /\ cl.cur * Size(cl.szx) >= cl.N
       THEN Fail("BadRequest")
     ELSE IF cl.ph = "b2" /\ (cl.alen \div Size(cl.aszx)) * Size(cl.aszx) # cl.alen
       THEN Fail("AssertionError")               \* "Unexpected state of preassembled message"
     ELSE LET r == IF cl.ph = "b1" THEN Block1Req ELSE Block2Req
          IN /\ cl' = [cl EXCEPT !.req = r]
             /\ nreq' = nreq + 1
             /\ pc' = "srv"
             /\ Step(<<ReqEv(r, FALSE)>>)
             /\ UNCHANGED <<srv, msg, nb, fb, arm>>

(* ---- the network loses the request; the message layer retransmits it ----------------- *)
DropReq ==
  /\ pc = "srv" /\ nb > 0 /\ NetOk
  /\ nb' = nb - 1 /\ nreq' = nreq + 1
  /\ Step(<<[E0 EXCEPT !.k = "lost", !.x = "req"], ReqEv(cl.req, TRUE)>>)
  /\ act' = [NoAct EXCEPT !.a = "net", !.fate = "dropreq", !.nreq = nreq]
  /\ UNCHANGED <<pc, cl, srv, msg, fb, arm>>

(* ---- the reference server ------------------------------------------------------------- *)
\* (a request with a Block2 option and no Block1 is a continuation once a representation exists -- also when it
\* asks for block 0 again; the modelled client never puts Block2 into its first request)
IsFinal(r) == (r.b1n >= 0 /\ r.b1m = 0) \/ (r.b1n < 0 /\ r.b2n < 0)
Serves(r, flt) == ((IsFinal(r) /\ flt # "b1cont") \/ (r.b1n < 0 /\ r.b2n >= 0)) /\ flt # "e1"
LenFaults == {"b2short", "b2empty", "b2over"}

\* the Block2 part of a response: representation (rid, M) asked for with r, served at exponent a2
Serve(m0, r, rid, et, M, a2, flt, sh) == \* et: ETag of the representation (-1: none)     \* sh: payload length of a block with a length fault
  LET szx == IF flt = "b2grow" THEN r.b2s + 1 ELSE IF flt = "b2big" THEN Min(6, r.b2s + sh)
             ELSE IF r.b2n >= 0 THEN Min(a2, r.b2s) ELSE a2
      size == Size(szx)
      offr == IF r.b2n >= 0 THEN r.b2n * Size(r.b2s) ELSE 0
      off0 == IF flt = "b2big" THEN (offr \div size) * size ELSE offr       \* "restart bigger": the larger block around it
      m1 == [m0 EXCEPT !.code = OkCode, !.etag = et, !.rid = rid]
  IN IF r.b2n < 0 /\ M <= size
       THEN [m1 EXCEPT !.plen = M, !.cid = IF M > 0 THEN RepCid(rid) ELSE -1, !.off = IF M > 0 THEN 0 ELSE -1]
     ELSE IF off0 >= M /\ ~(off0 = 0 /\ M = 0)
       THEN ErrM(128, 0, IF flt = "etag" THEN "shrunk" ELSE "beyond-end")      \* 4.00: nothing there to serve
     ELSE LET off == IF flt = "b2skip" THEN off0 + size ELSE IF flt = "b2prev" THEN off0 - size ELSE off0
              num == (off \div size) + (IF flt = "b2num" THEN 1 ELSE IF flt = "b2numlo" THEN -1 ELSE 0)
              more == off + size < M
              plen == IF flt \in LenFaults THEN sh ELSE Min(size, M - off)
          IN [m1 EXCEPT !.b2n = num, !.b2m = IF more THEN 1 ELSE 0, !.b2s = szx, !.plen = plen,
                        !.cid = IF plen > 0 THEN RepCid(rid) ELSE -1, !.off = IF plen > 0 THEN off ELSE -1]

\* is the fault applicable to the response the server is about to produce?
Applicable(flt, r, M, a2) ==
  LET szx == IF r.b2n >= 0 THEN Min(a2, r.b2s) ELSE a2
      size == Size(szx)
      off0 == IF r.b2n >= 0 THEN r.b2n * Size(r.b2s) ELSE 0
      blockwise == ~(r.b2n < 0 /\ M <= size)
      more == off0 + size < M
  IN CASE flt = "none"    -> TRUE
       [] flt = "b1num"   -> r.b1n >= 0
       [] flt = "b1numlo" -> r.b1n > 0
       [] flt \in {"b2numlo", "b2prev"} -> Serves(r, flt) /\ blockwise /\ off0 >= size
       [] flt \in {"b1more", "b1cont"} -> r.b1n >= 0 /\ r.b1m = 0
       [] flt = "etag"    -> r.b1n < 0 /\ r.b2n >= 0
       [] flt = "b2num"   -> Serves(r, flt) /\ blockwise
       [] flt \in {"b2skip", "b2short", "b2empty"} -> Serves(r, flt) /\ blockwise /\ more
       [] flt = "b2over"  -> Serves(r, flt) /\ blockwise /\ off0 + 2 * size < M
       [] flt = "e1"      -> r.b1n >= 0
       [] flt \in {"e2", "etsome"} -> r.b1n < 0 /\ r.b2n >= 0
       [] flt = "b2grow"  -> r.b2n >= 0 /\ r.b1n < 0 /\ r.b2s < 6 /\ off0 % Size(r.b2s + 1) = 0 /\ off0 < M
       [] flt = "b1grow"  -> r.b1n >= 0 /\ r.b1m = 1 /\ r.b1s < 6
       [] flt = "b2big"   -> r.b2n >= 0 /\ r.b1n < 0 /\ r.b2s < 6 /\ off0 % Size(r.b2s + 1) # 0 /\ off0 < M
       [] OTHER -> FALSE

\* the part of Applicable that depends on the request alone (narrows the choice of a fault early)
Pre(flt, r) ==
  LET off0 == IF r.b2n >= 0 THEN r.b2n * Size(r.b2s) ELSE 0
  IN CASE flt = "none"    -> TRUE
       [] flt \in {"b1num", "e1"} -> r.b1n >= 0
       [] flt = "b1numlo" -> r.b1n > 0
       [] flt \in {"b1more", "b1cont"} -> r.b1n >= 0 /\ r.b1m = 0
       [] flt \in {"etag", "e2", "etsome"} -> r.b1n < 0 /\ r.b2n >= 0
       [] flt \in {"b2num", "b2numlo", "b2prev", "b2skip", "b2short", "b2empty", "b2over"} -> Serves(r, flt)
       [] flt = "b2grow"  -> r.b2n >= 0 /\ r.b1n < 0 /\ r.b2s < 6
       [] flt = "b1grow"  -> r.b1n >= 0 /\ r.b1m = 1 /\ r.b1s < 6
       [] flt = "b2big"   -> r.b2n >= 0 /\ r.b1n < 0 /\ r.b2s < 6 /\ off0 % Size(r.b2s + 1) # 0
       [] OTHER -> FALSE

Faults == {"b1num", "b1numlo", "b1more", "b1cont", "etag", "b2num", "b2numlo", "b2skip", "b2prev", "b2short", "b2empty",
           "b2over", "b2big"} \cup XFaults

\* payload lengths of a block that contradicts its size: 1..size-1 / none / size+1 or two whole blocks
LenChoices(flt, size) == CASE flt = "b2short" -> {1, size - 1}
                           [] flt = "b2empty" -> {0}
                           [] flt = "b2over"  -> {size + 1, 2 * size}
                           [] flt = "b2big"   -> {1, 2}          \* (exponent steps)
                           [] OTHER           -> {0}

ServerHandle ==
  /\ pc = "srv"
  /\ LET r == cl.req
         final == IsFinal(r)
     IN \E flt0 \in (IF fb > 0 /\ FaultOk THEN {f \in Faults : Pre(f, r)} ELSE {}) \cup {"none"} :
        \E rp \in (IF flt0 \in LenFaults THEN BOOLEAN ELSE {FALSE}),      \* a length fault: once / on every later block as well
           fate \in {"ok"} \cup (IF nb > 0 /\ NetOk THEN (IF flt0 = "none" THEN {"dropresp", "dupresp"}
                                                        ELSE IF Combined THEN {"dupresp"} ELSE {}) ELSE {}),
           a1 \in (IF r.b1n >= 0 THEN 0..r.b1s ELSE {0}),
           style \in (IF r.b1n >= 0 /\ r.b1m = 1 /\ srv.style = "" THEN AckStyles ELSE {srv.style}),
           M1 \in (IF final THEN (IF cl.N \in NsWide THEN Ms ELSE MsFew) ELSE {0}) :
        \E M2 \in (IF flt0 = "etag" THEN {srv.M, srv.M + 20} \cup (IF "shrink" \in XFaults THEN {5} ELSE {}) ELSE {0}),
           ec \in (IF flt0 \in {"e1", "e2"} THEN ErrCodes ELSE {0}),           \* the error response: code,
           el \in (IF flt0 \in {"e1", "e2"} THEN ErrLens ELSE {0}),            \* length of the diagnostic payload,
           echo \in (IF flt0 = "e1" THEN BOOLEAN ELSE {FALSE}),                \* Block1 option (NUM / M=0 / a1) or none
           et1 \in (IF final /\ M1 \in MsNoEtag THEN BOOLEAN ELSE {TRUE}),     \* representation 1 / 2 with ETag?
           et2 \in (IF flt0 = "etag" THEN BOOLEAN ELSE {TRUE}),
           a2 \in (IF Serves(r, flt0) THEN (IF r.b2n >= 0 THEN 0..r.b2s ELSE 0..MaxSzx) ELSE {0}) :
        LET Mcur == IF final THEN M1 ELSE IF flt0 = "etag" THEN M2 ELSE srv.M
            \* a repeated length fault hits again (no budget) wherever it applies and the response is delivered
            again == flt0 = "none" /\ srv.pers # "none" /\ fate # "dropresp" /\ Applicable(srv.pers, r, Mcur, a2)
            flt == IF again THEN srv.pers ELSE flt0
            rid == IF final THEN 1 ELSE IF flt = "etag" THEN 2 ELSE srv.rid
            et == IF final THEN (IF et1 THEN RepEtag(1) ELSE -1)
                  ELSE IF flt = "etag" THEN (IF et2 THEN RepEtag(2) ELSE -1)
                  ELSE IF flt = "etsome" THEN (IF srv.et >= 0 THEN -1 ELSE RepEtag(srv.rid)) ELSE srv.et
            \* acknowledgement style of this (not last) Block1 request
            st == CASE style = "as" -> (IF srv.nb1 % 2 = 0 THEN "a" ELSE "s")
                    [] style = "sa" -> (IF srv.nb1 % 2 = 0 THEN "s" ELSE "a")
                    [] style = "s"  -> "s"
                    [] OTHER        -> "a"
            M == IF final THEN M1 ELSE IF flt = "etag" THEN M2 ELSE srv.M
            szx2 == IF r.b2n >= 0 THEN Min(a2, r.b2s) ELSE a2
        IN \E sh \in (IF again THEN {IF srv.pers = "b2short" THEN Min(srv.psh, Size(szx2) - 1)
                                      ELSE IF srv.pers = "b2over" THEN (IF srv.psh = 0 THEN 2 * Size(szx2) ELSE Size(szx2) + 1)
                                      ELSE 0}
                     ELSE LenChoices(flt, Size(szx2))) :
        /\ (rp => flt0 \in LenFaults)
        /\ (flt0 # "none" => (fate # "dropresp" /\ (Combined \/ fate = "ok")))
        /\ Applicable(flt, r, M, a2)
        /\ LET \* Block1: assemble [offset, offset+len), acknowledge
               off == r.b1n * Size(r.b1s)
               blen0 == IF r.b1n = 0 THEN 0 ELSE srv.blen
               blen1 == IF r.b1n >= 0 THEN off + r.plen ELSE r.plen
               bok1 == IF r.b1n >= 0 THEN (IF r.b1n = 0 THEN TRUE ELSE srv.bok) /\ r.off = off /\ off = blen0
                       ELSE (r.plen = 0 \/ r.off = 0)
               ack == IF r.b1n >= 0
                        THEN [NoM EXCEPT !.b1n = r.b1n + (IF flt = "b1num" THEN 1 ELSE IF flt = "b1numlo" THEN -1 ELSE 0),
                                         !.b1m = IF (r.b1m = 1 /\ st = "a") \/ flt = "b1more" THEN 1 ELSE 0,
                                         !.b1s = IF flt = "b1grow" THEN r.b1s + 1 ELSE a1,
                                         !.x = IF flt = "none" THEN "" ELSE flt]
                        ELSE [NoM EXCEPT !.x = IF flt = "none" THEN "" ELSE flt]
               m == IF flt = "e1" THEN (IF echo THEN [ErrM(ec, el, "e1") EXCEPT !.b1n = r.b1n, !.b1m = 0, !.b1s = a1]
                                        ELSE ErrM(ec, el, "e1"))
                    ELSE IF flt = "e2" THEN ErrM(ec, el, "e2")
                    ELSE IF r.b1n >= 0 /\ r.b1m = 1 /\ st = "s" THEN [ack EXCEPT !.code = OkCode]
                    ELSE IF r.b1n >= 0 /\ (r.b1m = 1 \/ flt = "b1cont") THEN [ack EXCEPT !.code = 95]
                    ELSE Serve(ack, r, rid, et, M, a2, flt, sh)
               asm == IF final /\ flt # "e1" THEN <<[E0 EXCEPT !.k = "asm", !.len = blen1, !.cid = IF blen1 > 0 THEN ReqCid ELSE -1,
                                                  !.cok = bok1]>> ELSE << >>
               rep == IF (final /\ flt # "e1") \/ flt = "etag"
                        THEN <<[E0 EXCEPT !.k = "rep", !.rid = rid, !.len = M, !.cid = RepCid(rid), !.etag = et]>>
                        ELSE << >>
               out == CASE fate = "ok"       -> <<RespEv("resp", m, FALSE)>>
                        [] fate = "dupresp"  -> <<RespEv("resp", m, FALSE), RespEv("resp", m, TRUE)>>
                        [] fate = "dropresp" -> <<RespEv("lost", m, FALSE), ReqEv(r, TRUE), RespEv("resp", m, FALSE)>>
           IN /\ srv' = [blen |-> IF r.b1n >= 0 THEN blen1 ELSE srv.blen,
                         bok  |-> IF r.b1n >= 0 THEN bok1 ELSE srv.bok,
                         rid  |-> IF Serves(r, flt) THEN rid ELSE srv.rid,
                         M    |-> IF Serves(r, flt) THEN M ELSE srv.M,
                         et   |-> IF Serves(r, flt) THEN et ELSE srv.et,
                         nb1  |-> srv.nb1 + (IF r.b1n >= 0 THEN 1 ELSE 0),
                         nb2  |-> srv.nb2 + (IF Serves(r, flt) THEN 1 ELSE 0),
                         style |-> IF final THEN "" ELSE style,      \* (irrelevant once the body is complete)
                         pers |-> IF rp THEN flt0 ELSE srv.pers,
                         \* what is repeated: the short length / for oversize 0 = two whole blocks, 1 = size+1
                         psh  |-> IF ~rp THEN srv.psh ELSE IF flt0 = "b2over" THEN (IF sh = 2 * Size(szx2) THEN 0 ELSE 1) ELSE sh]
              /\ msg' = m
              /\ Step(asm \o (IF final /\ flt = "b1cont" THEN << >> ELSE rep) \o out)
              /\ act' = [NoAct EXCEPT !.a = "srv", !.ec = ec, !.el = el, !.echo = echo, !.st = st, !.a1 = a1, !.a2 = a2, !.flt = flt, !.fate = fate, !.M1 = M1, !.M2 = M2,
                                      !.sh = sh, !.rp = rp, !.flt0 = flt0, !.dbl = (flt = "b2over" /\ sh = 2 * Size(szx2)), !.b1 = (r.b1n >= 0), !.sv = Serves(r, flt), !.nb1 = srv.nb1,
                                      !.nb2 = srv.nb2, !.nreq = nreq]
        /\ fb' = IF flt0 = "none" THEN fb ELSE fb - 1
        /\ nb' = IF fate = "ok" THEN nb ELSE nb - 1
        /\ nreq' = IF fate = "dropresp" THEN nreq + 1 ELSE nreq
        /\ pc' = "recv"
        /\ UNCHANGED <<cl, arm>>

(* ---- the client processes the response ------------------------------------------------ *)
\* _complete_by_requesting_block2 entered with the response to the complete request
Complete(m) ==
  IF m.b2n < 0 \/ (m.b2m = 0 /\ ~(FixFirstNum /\ m.b2n # 0))
    THEN Pass(m)
  ELSE IF m.b2n # 0 THEN Fail("UnexpectedBlock2")
  ELSE /\ cl' = [cl EXCEPT !.ph = "b2", !.alen = m.plen, !.aszx = m.b2s, !.aetag = m.etag, !.acid = m.cid,
                           !.aok = (m.plen = 0 \/ m.off = 0), !.apok = (m.plen = 0 \/ m.off = 0), !.acode = m.code]
       /\ pc' = "send" /\ emit' = << >> /\ UNCHANGED <<srv, msg, nreq, nb, fb, arm, obs>>

ClientRecv ==
  /\ pc = "recv"
  /\ act' = [NoAct EXCEPT !.a = "recv"]
  /\ LET m == msg IN
     IF cl.ph = "b1"
       THEN IF m.b1n < 0 THEN Complete(m)
            ELSE IF cl.req.b1n < 0 THEN Fail("AttributeError")
            ELSE IF m.b1n # cl.req.b1n THEN Fail("UnexpectedBlock1Option")
            ELSE LET red == IF m.b1s < cl.szx THEN cl.szx - m.b1s ELSE 0
                     cur2 == (cl.cur + 1) * 2 ^ red          \* block_cursor += 1; while ..: block_cursor *= 2
                     szx2 == cl.szx - red
                     Continue == /\ cl' = [cl EXCEPT !.cur = cur2, !.szx = szx2]
                                 /\ pc' = "send" /\ emit' = << >> /\ UNCHANGED <<srv, msg, nreq, nb, fb, arm, obs>>
                 IN IF cl.req.b1m = 0
                      THEN IF m.b1m = 1 \/ m.code = 95 THEN Fail("UnexpectedBlock1Option")
                           ELSE Complete([m EXCEPT !.b1n = -1])
                    ELSE IF m.b1m = 1 THEN Continue
                    ELSE IF m.code \notin 64..95 THEN Complete(m)
                    ELSE Continue
     ELSE \* Block2 continuation: Message._append_response_block
          IF m.b2n < 0 THEN Pass(m)
          ELSE IF ~(IF m.b2m = 1 THEN m.plen = Size(m.b2s) ELSE m.plen <= Size(m.b2s)) THEN Fail("UnexpectedBlock2")
          ELSE IF m.b2n * Size(m.b2s) # cl.alen THEN Fail("NotImplemented")
          ELSE IF m.etag # cl.aetag THEN Fail("ResourceChanged")
          ELSE LET alen2 == cl.alen + m.plen
                   acid2 == IF cl.alen = 0 THEN m.cid ELSE cl.acid
                   aok2 == cl.aok /\ (m.plen = 0 \/ (m.off = cl.alen /\ m.cid = acid2))
                   apok2 == cl.apok /\ (m.plen = 0 \/ m.off = cl.alen)
               IN IF m.b2m = 0 THEN Succeed(cl.acode, alen2, acid2, aok2, apok2)
                  ELSE /\ cl' = [cl EXCEPT !.alen = alen2, !.aszx = m.b2s, !.aok = aok2, !.apok = apok2, !.acid = acid2]
                       /\ pc' = "send" /\ emit' = << >> /\ UNCHANGED <<srv, msg, nreq, nb, fb, arm, obs>>

End == /\ pc = "fin" /\ pc' = "end"
       /\ Step(<<[E0 EXCEPT !.k = "end"]>>)
       /\ act' = [NoAct EXCEPT !.a = "end"]
       /\ UNCHANGED <<cl, srv, msg, nreq, nb, fb, arm>>

Next == \/ \E n \in Ns, c \in 0..MaxSzx : Submit(n, c)
        \/ Arm \/ ClientSend \/ DropReq \/ ServerHandle \/ ClientRecv \/ End

Spec == Init /\ [][Next]_vars

NoBad == obs.bad = {}
\* the request always completes, exactly once, and with an exception after every delivered fault
Completes == pc = "end" => (obs.ndone = 1 /\ obs.nsub = 1)
View == <<pc, cl, srv, msg, nreq, nb, fb, arm, obs>>
=============================================================================
