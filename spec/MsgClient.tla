----------------------------- MODULE MsgClient -----------------------------
(* Implementation-shaped model of aiocoap's MessageManager in its client    *)
(* role (messagemanager.py: send_message, _send_initially, _add_exchange,   *)
(* _remove_exchange, _continue_backlog, _retransmit, dispatch_error) with   *)
(* the part of TokenManager that completes requests.  One action per        *)
(* event-loop callback; each action records in `emit' the observable events *)
(* it produces, and the monitor summary `obs' is folded over them           *)
(* (MsgClientObs).  The environment (application, peer, network, clock) is  *)
(* part of Next and adversarial: any ACK/RST/response/ICMP error at any     *)
(* time.                                                                    *)
EXTENDS MsgClientObs, TLC

CONSTANTS NRemotes, NReqs, MidSpace, MaxTime, MaxEnv   \* MaxEnv bounds receptions + reported errors

Remotes == 1..NRemotes
Mids == 0..(MidSpace - 1)

VARIABLES now,
          nextMid,     \* MessageManager.message_id
          exch,        \* _active_exchanges: <<r, mid>> -> [q, gap, due, n]
          backlog,     \* _backlogs: r -> Seq(q)   (key present iff an exchange with r is active)
          rq,          \* q -> [r, con, mid, st]   st: "pending" | "done"   (outgoing_requests)
          ended,
          budget,      \* receptions / reported errors the environment may still cause
          emit,        \* events produced by the last action
          obs          \* monitor summary (MsgClientObs)

vars == <<now, nextMid, exch, backlog, rq, ended, budget, emit, obs>>

Ev(k, t, r, ty, mid, q, con, cls) ==
  [k |-> k, t |-> t, r |-> r, ty |-> ty, mid |-> mid, q |-> q, dig |-> q, con |-> con, cls |-> cls]

Drop(f, ks) == [x \in (DOMAIN f) \ ks |-> f[x]]
ExchTo(r) == {k \in DOMAIN exch : k[1] = r}
Pending(r) == {q \in DOMAIN rq : rq[q].r = r /\ rq[q].st = "pending"}

RECURSIVE SetToSeq(_)
SetToSeq(S) == IF S = {} THEN << >>
               ELSE LET m == CHOOSE x \in S : \A y \in S : x <= y IN <<m>> \o SetToSeq(S \ {m})

TxReq(q, t) == Ev("tx", t, rq[q].r, IF rq[q].con THEN "CON" ELSE "NON", rq[q].mid, q, rq[q].con, "req")
DoneEvs(qs, t, cls) == [i \in 1..Len(qs) |-> Ev("done", t, 0, "", 0, qs[i], FALSE, cls)]

Step(es) == /\ emit' = es
            /\ obs' = ObsFold(obs, es)

Init == /\ now = 0 /\ nextMid = 0 /\ exch = << >> /\ backlog = << >> /\ rq = << >>
        /\ ended = FALSE /\ budget = MaxEnv /\ emit = << >> /\ obs = ObsInit

TimerDue == \E k \in DOMAIN exch : exch[k].due <= now

(* -- application submits a request (Context.request -> TokenManager.request *)
(*    -> MessageManager.send_message) -------------------------------------- *)
Submit(q, r, con, g) ==
  /\ ~ended /\ q \notin DOMAIN rq /\ q = Cardinality(DOMAIN rq) + 1 /\ q <= NReqs
  /\ g \in ATmin..ATmax
  /\ LET mid == nextMid
         sub == Ev("submit", now, r, "", 0, q, con, "")
         tx  == Ev("tx", now, r, IF con THEN "CON" ELSE "NON", mid, q, con, "req")
     IN /\ nextMid' = (nextMid + 1) % MidSpace
        /\ rq' = Put(rq, q, [r |-> r, con |-> con, mid |-> mid, st |-> "pending"])
        /\ IF con /\ r \in DOMAIN backlog
             THEN /\ backlog' = [backlog EXCEPT ![r] = Append(@, q)]
                  /\ UNCHANGED exch
                  /\ Step(<<sub>>)
             ELSE /\ IF con
                       THEN /\ exch' = Put(exch, <<r, mid>>, [q |-> q, gap |-> g, due |-> now + g, n |-> 0])
                            /\ backlog' = Put(backlog, r, << >>)
                       ELSE UNCHANGED <<exch, backlog>>
                  /\ Step(<<sub, tx>>)
  /\ UNCHANGED <<now, ended, budget>>

(* _continue_backlog after the exchange with r has gone: returns the        *)
(* <<exch, backlog, events>> triple                                          *)
Continue(ex, bl, r, g, rqs) ==
  IF r \notin DOMAIN bl THEN <<ex, bl, << >>>>
  ELSE IF bl[r] = << >> THEN <<ex, Drop(bl, {r}), << >>>>
  ELSE LET q == Head(bl[r])
       IN <<Put(ex, <<r, rqs[q].mid>>, [q |-> q, gap |-> g, due |-> now + g, n |-> 0]),
            [bl EXCEPT ![r] = Tail(@)],
            <<Ev("tx", now, r, "CON", rqs[q].mid, q, TRUE, "req")>> >>

(* -- an empty ACK or RST is read (dispatch_message -> _remove_exchange) ---- *)
RxAckRst(r, mid, ty, g) ==
  /\ ~ended /\ g \in ATmin..ATmax
  /\ LET key == <<r, mid>>
         rx  == Ev("rx", now, r, ty, mid, 0, FALSE, "empty")
     IN IF key \in DOMAIN exch
          THEN LET q   == exch[key].q
                   c   == Continue(Drop(exch, {key}), backlog, r, g, rq)
                   fails == ty = "RST" /\ rq[q].st = "pending"
               IN /\ exch' = c[1] /\ backlog' = c[2]
                  /\ rq' = IF fails THEN [rq EXCEPT ![q].st = "done"] ELSE rq
                  /\ Step(<<rx>> \o c[3] \o (IF fails THEN DoneEvs(<<q>>, now, "net") ELSE << >>))
          ELSE /\ UNCHANGED <<exch, backlog, rq>>     \* foreign ACK / RST: nothing changes
               /\ Step(<<rx>>)
  /\ budget > 0 /\ budget' = budget - 1
  /\ UNCHANGED <<now, nextMid, ended>>

(* -- a response carrying the token of request q is read.  ty = "ACK" is a   *)
(*    piggy-backed response under q's message ID --------------------------- *)
RxRespM(q, ty, mid, g) ==
  /\ ~ended /\ q \in DOMAIN rq /\ g \in ATmin..ATmax
  \* the peer answers only what it has seen: no response to a request still held back
  /\ \A r2 \in DOMAIN backlog : \A i \in 1..Len(backlog[r2]) : backlog[r2][i] # q
  /\ LET r   == rq[q].r
         key == <<r, mid>>
         rx  == Ev("rx", now, r, ty, mid, q, FALSE, "resp")
         hit == ty = "ACK" /\ key \in DOMAIN exch
         c   == IF hit THEN Continue(Drop(exch, {key}), backlog, r, g, rq) ELSE <<exch, backlog, << >>>>
         live == rq[q].st = "pending"
         reply == IF ty # "CON" THEN << >>
                  ELSE <<Ev("tx", now, r, IF live THEN "ACK" ELSE "RST", mid, 0, FALSE, "empty")>>
     IN /\ exch' = c[1] /\ backlog' = c[2]
        /\ rq' = IF live THEN [rq EXCEPT ![q].st = "done"] ELSE rq
        /\ Step(<<rx>> \o c[3] \o reply \o (IF live THEN DoneEvs(<<q>>, now, "resp") ELSE << >>))
  /\ budget > 0 /\ budget' = budget - 1
  /\ UNCHANGED <<now, nextMid, ended>>

\* in the exhaustive model a piggy-backed response carries the request's ID, a separate one some other ID
RxResp(q, ty, g) == RxRespM(q, ty, IF ty = "ACK" THEN rq[q].mid ELSE (rq[q].mid + 1) % MidSpace, g)

(* -- a response whose token belongs to no request of this endpoint: CON -> RST, else silence -- *)
RxUnknownResp(r, ty, mid, g) ==
  /\ ~ended /\ g \in ATmin..ATmax
  /\ LET key == <<r, mid>>
         rx  == Ev("rx", now, r, ty, mid, 0, FALSE, "resp")
         hit == ty = "ACK" /\ key \in DOMAIN exch
         c   == IF hit THEN Continue(Drop(exch, {key}), backlog, r, g, rq) ELSE <<exch, backlog, << >>>>
         reply == IF ty = "CON" THEN <<Ev("tx", now, r, "RST", mid, 0, FALSE, "empty")>> ELSE << >>
     IN /\ exch' = c[1] /\ backlog' = c[2]
        /\ Step(<<rx>> \o c[3] \o reply)
  /\ budget > 0 /\ budget' = budget - 1
  /\ UNCHANGED <<now, nextMid, rq, ended>>

(* -- retransmission timer (_retransmit) ------------------------------------ *)
Timer(key) ==
  /\ key \in DOMAIN exch /\ exch[key].due = now
  /\ LET x == exch[key]
         r == key[1]
     IN IF x.n < MaxRetransmit
          THEN /\ exch' = [exch EXCEPT ![key] = [@ EXCEPT !.n = @ + 1, !.gap = 2 * @, !.due = now + 2 * x.gap]]
               /\ UNCHANGED <<backlog, rq>>
               /\ Step(<<TxReq(x.q, now)>>)
          ELSE \* give up: the backlog is dropped and every pending request to r fails
               LET qs == SetToSeq(Pending(r))
               IN /\ exch' = Drop(exch, {key})
                  /\ backlog' = Drop(backlog, {r})
                  /\ rq' = [q \in DOMAIN rq |-> IF q \in Pending(r) THEN [rq[q] EXCEPT !.st = "done"] ELSE rq[q]]
                  /\ Step(DoneEvs(qs, now, "timeout"))
  /\ UNCHANGED <<now, nextMid, ended, budget>>

(* -- ICMP-style error reported for r (dispatch_error) ---------------------- *)
Err(r) ==
  /\ ~ended
  /\ LET qs == SetToSeq(Pending(r))
     IN /\ exch' = Drop(exch, ExchTo(r))
        /\ backlog' = Drop(backlog, {r})
        /\ rq' = [q \in DOMAIN rq |-> IF q \in Pending(r) THEN [rq[q] EXCEPT !.st = "done"] ELSE rq[q]]
        /\ Step(<<Ev("err", now, r, "", 0, 0, FALSE, "")>> \o DoneEvs(qs, now, "net"))
  /\ budget > 0 /\ budget' = budget - 1
  /\ UNCHANGED <<now, nextMid, ended>>

Tick == /\ ~ended /\ ~TimerDue /\ now < MaxTime /\ exch # << >>
        /\ now' = now + 1
        /\ emit' = << >>
        /\ UNCHANGED <<nextMid, exch, backlog, rq, ended, budget, obs>>

End == /\ ~ended /\ exch = << >>
       /\ ended' = TRUE
       /\ Step(<<Ev("end", now, 0, "", 0, 0, FALSE, "")>>)
       /\ UNCHANGED <<now, nextMid, exch, backlog, rq, budget>>

\* g (the initial timeout drawn for a message released from the backlog) matters only
\* when something is released; one representative foreign message ID is enough
Gs(r) == IF r \in DOMAIN backlog /\ backlog[r] # << >> THEN ATmin..ATmax ELSE {ATmin}
ForeignMid(r) == CHOOSE m \in Mids : <<r, m>> \notin DOMAIN exch
MidsOfInterest(r) == {k[2] : k \in ExchTo(r)} \cup {ForeignMid(r)}
Env == \/ \E r \in Remotes, con \in BOOLEAN : \E g \in (IF con THEN ATmin..ATmax ELSE {ATmin}) :
            Submit(Cardinality(DOMAIN rq) + 1, r, con, g)
       \/ \E r \in Remotes, ty \in {"ACK", "RST"} : \E m \in MidsOfInterest(r), g \in Gs(r) : RxAckRst(r, m, ty, g)
       \/ \E q \in DOMAIN rq, ty \in {"CON", "NON", "ACK"} : \E g \in Gs(rq[q].r) : RxResp(q, ty, g)
       \* an ACK under the ID of an open exchange that carries a response with a token of no request
       \/ \E r \in Remotes : \E k \in ExchTo(r), g \in Gs(r) : RxUnknownResp(r, "ACK", k[2], g)
       \/ \E r \in Remotes : Err(r)

Next == \/ \E k \in DOMAIN exch : Timer(k)
        \/ (~TimerDue /\ Env)
        \/ Tick
        \/ End

Spec == Init /\ [][Next]_vars
FairSpec == Spec /\ WF_vars(Tick) /\ WF_vars(\E k \in DOMAIN exch : Timer(k)) /\ WF_vars(End)

(* -- invariants -------------------------------------------------------------- *)
NoBad == obs.bad = {}
\* the state-based form of the clauses, tying them to the bookkeeping
OneOpenState == \A r \in Remotes : Cardinality(ExchTo(r)) <= 1
BacklogIffExchange == \A r \in Remotes : (r \in DOMAIN backlog) <=> (ExchTo(r) # {})
BacklogOnlyPendingCons == \A r \in DOMAIN backlog : \A i \in 1..Len(backlog[r]) :
                              rq[backlog[r][i]].con /\ rq[backlog[r][i]].st = "pending"
\* the observable reading of "open" agrees with the bookkeeping
OpenAgrees == \A r \in Remotes : (OpenTo(obs, r, now) # {}) => (ExchTo(r) # {})
\* liveness: every run ends (bounded retransmission) -- checked under FairSpec
Terminates == <>ended

Bound == Cardinality(DOMAIN rq) <= NReqs
View == <<now, nextMid, exch, backlog, rq, ended, budget, obs>>
=============================================================================
