--------------------------- MODULE BlockClientPair ---------------------------
(* Two block-wise transfers running concurrently from one client context to     *)
(* one server (property C05, "every schedule"): two uploads, an upload and a    *)
(* download, two downloads -- of different resources, because the client uses   *)
(* no Request-Tag and an RFC 7959 server keyed by the request cannot keep two   *)
(* uploads to the same resource apart.                                          *)
(* Per transfer the client is the fault-free part of BlockClient.tla            *)
(* (BlockwiseRequest._run / _complete_by_requesting_block2 and the Message      *)
(* block helpers), written as a function of a local state; what the two share   *)
(* is the token source and the table of outstanding requests of the client      *)
(* context (TokenManager): every block request takes the next token, a          *)
(* response is handed to whoever holds its token.  The server answers the       *)
(* pending requests in any order.  FreshTokens = FALSE is the known-bad         *)
(* variant (a token is handed out twice while still in use).                    *)
(* Every step emits the events of harness/blockclientdrive.py tagged with the   *)
(* transfer (tr); one monitor summary of BlockClientObs per transfer, the       *)
(* clauses are the invariant.                                                   *)
EXTENDS BlockClientObs, TLC

CONSTANTS PNs,          \* request body lengths
          PMs,          \* representation lengths
          PCs,          \* client maxima
          PSs,          \* the server's preferred size exponent (per transfer, fixed for the transfer)
          PStyles,      \* Block1 acknowledgement styles "a" / "s"
          FreshTokens

VARIABLES loc, tok, out, emit, obs, act
vars == <<loc, tok, out, emit, obs, act>>

T == {1, 2}
ReqCid(i) == 90 + (i - 1)
RepCid(i) == 161 + 2 * (i - 1)
RepEtag == 225
Method(L) == IF L.N = 0 THEN 1 ELSE 2       \* downloads are GETs (2.05), uploads POSTs (2.04)
OkCode(L) == IF L.N = 0 THEN 69 ELSE 68

E0 == [k |-> "", q |-> 0, code |-> 0, b1n |-> -1, b1m |-> -1, b1s |-> -1, b2n |-> -1, b2m |-> -1, b2s |-> -1,
       plen |-> 0, cid |-> -1, off |-> -1, cok |-> TRUE, size1 |-> -1, len |-> -1, etag |-> -1, rid |-> 0,
       rt |-> FALSE, x |-> "", c |-> -1, rk |-> 0, tr |-> 1, pok |-> TRUE]
NoR == [b1n |-> -1, b1m |-> -1, b1s |-> -1, b2n |-> -1, b2m |-> -1, b2s |-> -1, plen |-> 0, off |-> -1, size1 |-> -1]
NoM == [code |-> 0, b1n |-> -1, b1m |-> -1, b1s |-> -1, b2n |-> -1, b2m |-> -1, b2s |-> -1, plen |-> 0, cid |-> -1,
        off |-> -1, etag |-> -1, rid |-> 0, tk |-> -1]

L0 == [pc |-> "idle", N |-> 0, C |-> 0, S |-> 0, st |-> "a", M |-> 0, ph |-> "b1", szx |-> 0, cur |-> 0, req |-> NoR,
       tk |-> -1, alen |-> 0, aszx |-> 0, acid |-> -1, aok |-> TRUE, acode |-> 0, blen |-> -1, bok |-> TRUE, msg |-> NoM]

ReqEv(i, L, r) == [E0 EXCEPT !.k = "req", !.q = 1, !.tr = i, !.code = Method(L), !.b1n = r.b1n, !.b1m = r.b1m, !.b1s = r.b1s,
                             !.b2n = r.b2n, !.b2m = r.b2m, !.b2s = r.b2s, !.plen = r.plen,
                             !.cid = IF r.plen > 0 THEN ReqCid(i) ELSE -1, !.off = IF r.plen > 0 THEN r.off ELSE -1,
                             !.size1 = r.size1, !.rk = 1]
RespEv(i, m) == [E0 EXCEPT !.k = "resp", !.q = 1, !.tr = i, !.code = m.code, !.b1n = m.b1n, !.b1m = m.b1m, !.b1s = m.b1s,
                           !.b2n = m.b2n, !.b2m = m.b2m, !.b2s = m.b2s, !.plen = m.plen, !.cid = m.cid, !.off = m.off,
                           !.etag = m.etag, !.rid = m.rid]
DoneResp(i, code, len, cid, ok) == [E0 EXCEPT !.k = "done", !.q = 1, !.tr = i, !.x = "resp", !.code = code, !.len = len,
                                              !.plen = len, !.cid = IF len > 0 THEN cid ELSE -1, !.cok = ok]
DoneExc(i, cls) == [E0 EXCEPT !.k = "done", !.q = 1, !.tr = i, !.x = cls]

Thr(s) == IF s >= 6 THEN 1124 ELSE Size(s)

(* ---- the client's next request (ClientSend of BlockClient.tla) ---------------------- *)
Block1Req(L) ==
  LET size == Size(L.szx)
      start == L.cur * size
      end == Min(start + size, L.N)
  IN IF L.N > Thr(L.szx)
       THEN [NoR EXCEPT !.b1n = L.cur, !.b1m = IF end < L.N THEN 1 ELSE 0, !.b1s = L.szx,
                        !.plen = end - start, !.off = start, !.size1 = IF L.cur = 0 THEN L.N ELSE -1]
       ELSE [NoR EXCEPT !.plen = L.N, !.off = 0]

Block2Req(L) ==
  LET size == Size(L.aszx)
      nxt == L.alen \div size
  IN IF L.C >= L.aszx THEN [NoR EXCEPT !.b2n = nxt, !.b2m = 0, !.b2s = L.aszx]
     ELSE [NoR EXCEPT !.b2n = nxt * 2 ^ (L.aszx - L.C), !.b2m = 0, !.b2s = L.C]

(* ---- the reference server answers request r of transfer i --------------------------- *)
Answer(i, L) ==
  LET r == L.req
      final == (r.b1n >= 0 /\ r.b1m = 0) \/ (r.b1n < 0 /\ r.b2n < 0)
      off == r.b1n * Size(r.b1s)
      blen0 == IF r.b1n = 0 THEN 0 ELSE L.blen
      blen1 == IF r.b1n >= 0 THEN off + r.plen ELSE r.plen
      bok1 == IF r.b1n >= 0 THEN (IF r.b1n = 0 THEN TRUE ELSE L.bok) /\ r.off = off /\ off = blen0
              ELSE (r.plen = 0 \/ r.off = 0)
      ack == IF r.b1n >= 0 THEN [NoM EXCEPT !.b1n = r.b1n, !.b1m = IF r.b1m = 1 /\ L.st = "a" THEN 1 ELSE 0,
                                            !.b1s = Min(L.S, r.b1s)]
             ELSE NoM
      szx == IF r.b2n >= 0 THEN Min(L.S, r.b2s) ELSE L.S
      size == Size(szx)
      o2 == IF r.b2n >= 0 THEN r.b2n * Size(r.b2s) ELSE 0
      served == [ack EXCEPT !.code = OkCode(L), !.etag = RepEtag, !.rid = 1]
      m == IF r.b1n >= 0 /\ r.b1m = 1 THEN [ack EXCEPT !.code = IF L.st = "s" THEN 68 ELSE 95]
           ELSE IF r.b2n < 0 /\ L.M <= size
             THEN [served EXCEPT !.plen = L.M, !.cid = IF L.M > 0 THEN RepCid(i) ELSE -1, !.off = IF L.M > 0 THEN 0 ELSE -1]
           ELSE LET plen == Min(size, L.M - o2)
                IN [served EXCEPT !.b2n = o2 \div size, !.b2m = IF o2 + size < L.M THEN 1 ELSE 0, !.b2s = szx, !.plen = plen,
                                  !.cid = IF plen > 0 THEN RepCid(i) ELSE -1, !.off = IF plen > 0 THEN o2 ELSE -1]
      asm == IF final THEN <<[E0 EXCEPT !.k = "asm", !.tr = i, !.len = blen1, !.cid = IF blen1 > 0 THEN ReqCid(i) ELSE -1,
                                         !.cok = bok1]>> ELSE << >>
      rep == IF final THEN <<[E0 EXCEPT !.k = "rep", !.tr = i, !.rid = 1, !.len = L.M, !.cid = RepCid(i), !.etag = RepEtag]>>
             ELSE << >>
  IN [L  |-> [L EXCEPT !.blen = IF r.b1n >= 0 THEN blen1 ELSE L.blen, !.bok = IF r.b1n >= 0 THEN bok1 ELSE L.bok],
      m  |-> [m EXCEPT !.tk = L.tk],
      es |-> asm \o rep \o <<RespEv(i, m)>>]

(* ---- the client processes response m in the state L (ClientRecv of BlockClient.tla) -- *)
\* -> [L, es]: the new local state (pc "send": goes on, "fin": completed) and the events
Fin(L, e) == [L |-> [L EXCEPT !.pc = "fin"], es |-> <<e>>]
GoOn(L) == [L |-> [L EXCEPT !.pc = "send"], es |-> << >>]

Complete(i, L, m) ==
  IF m.b2n < 0 THEN Fin(L, DoneResp(i, m.code, m.plen, m.cid, m.plen = 0 \/ m.off = 0))
  ELSE IF m.b2n # 0 THEN Fin(L, DoneExc(i, "UnexpectedBlock2"))
  ELSE IF m.b2m = 0 THEN Fin(L, DoneResp(i, m.code, m.plen, m.cid, m.plen = 0 \/ m.off = 0))
  ELSE GoOn([L EXCEPT !.ph = "b2", !.alen = m.plen, !.aszx = m.b2s, !.acid = m.cid, !.aok = (m.plen = 0 \/ m.off = 0),
                      !.acode = m.code])

Process(i, L, m) ==
  IF L.ph = "b1"
    THEN IF m.b1n < 0 THEN Complete(i, L, m)
         ELSE IF L.req.b1n < 0 THEN Fin(L, DoneExc(i, "AttributeError"))
         ELSE IF m.b1n # L.req.b1n THEN Fin(L, DoneExc(i, "UnexpectedBlock1Option"))
         ELSE LET red == IF m.b1s < L.szx THEN L.szx - m.b1s ELSE 0
                  L2 == [L EXCEPT !.cur = (L.cur + 1) * 2 ^ red, !.szx = L.szx - red]
              IN IF L.req.b1m = 0
                   THEN IF m.b1m = 1 \/ m.code = 95 THEN Fin(L, DoneExc(i, "UnexpectedBlock1Option"))
                        ELSE Complete(i, L2, [m EXCEPT !.b1n = -1])
                 ELSE IF m.b1m = 1 THEN GoOn(L2)
                 ELSE IF m.code \notin 64..95 THEN Complete(i, L2, m)
                 ELSE GoOn(L2)
  ELSE IF m.b2n < 0 THEN Fin(L, DoneResp(i, m.code, m.plen, m.cid, m.plen = 0 \/ m.off = 0))
       ELSE IF ~(IF m.b2m = 1 THEN m.plen = Size(m.b2s) ELSE m.plen <= Size(m.b2s)) THEN Fin(L, DoneExc(i, "UnexpectedBlock2"))
       ELSE IF m.b2n * Size(m.b2s) # L.alen THEN Fin(L, DoneExc(i, "NotImplemented"))
       ELSE IF m.etag # RepEtag THEN Fin(L, DoneExc(i, "ResourceChanged"))
       ELSE LET alen2 == L.alen + m.plen
                acid2 == IF L.alen = 0 THEN m.cid ELSE L.acid
                aok2 == L.aok /\ (m.plen = 0 \/ (m.off = L.alen /\ m.cid = acid2))
            IN IF m.b2m = 0 THEN Fin(L, DoneResp(i, L.acode, alen2, acid2, aok2))
               ELSE GoOn([L EXCEPT !.alen = alen2, !.aszx = m.b2s, !.aok = aok2, !.acid = acid2])

(* ---- the system ------------------------------------------------------------------------ *)
Tag(ob, es) == LET RECURSIVE F(_, _)
                   F(o, s) == IF s = << >> THEN o
                              ELSE F([o EXCEPT ![Head(s).tr] = ObsEvent(@, Head(s))], Tail(s))
               IN F(ob, es)
Step(es) == emit' = es /\ obs' = Tag(obs, es)
NoAct == [a |-> "", i |-> 0]

Init == /\ loc = [i \in T |-> L0] /\ tok = 0 /\ out = << >> /\ emit = << >>
        /\ obs = [i \in T |-> ObsInit] /\ act = NoAct

\* both requests are handed to the same context one after the other, before anything is sent
Submit(i) ==
  /\ loc[i].pc = "idle" /\ (i = 1 \/ loc[1].pc # "idle")
  /\ \E n \in PNs, m \in PMs, c \in PCs, s \in PSs, st \in PStyles :
       /\ n > 0 \/ m > 0
       /\ st = "a" \/ n > Thr(c)                               \* (the style only matters for block-wise uploads)
       /\ loc' = [loc EXCEPT ![i] = [L0 EXCEPT !.pc = "send", !.N = n, !.M = m, !.C = c, !.S = s, !.st = st, !.szx = c]]
       /\ Step(<<[E0 EXCEPT !.k = "submit", !.q = 1, !.tr = i, !.code = IF n = 0 THEN 1 ELSE 2, !.len = n,
                            !.cid = IF n > 0 THEN ReqCid(i) ELSE -1, !.c = c]>>)
  /\ act' = [a |-> "submit", i |-> i]
  /\ UNCHANGED <<tok, out>>

Send(i) ==
  /\ loc[i].pc = "send" /\ \A j \in T : loc[j].pc # "idle"
  /\ LET L == loc[i]
         r == IF L.ph = "b1" THEN Block1Req(L) ELSE Block2Req(L)
     IN /\ loc' = [loc EXCEPT ![i] = [L EXCEPT !.req = r, !.pc = "srv", !.tk = tok]]
        /\ out' = [t \in (DOMAIN out) \cup {tok} |-> IF t = tok THEN i ELSE out[t]]      \* outgoing_requests[token] = request
        /\ tok' = IF FreshTokens THEN tok + 1 ELSE tok
        /\ Step(<<ReqEv(i, L, r)>>)
  /\ act' = [a |-> "send", i |-> i]

\* the server answers the pending request of transfer i; the response goes to whoever holds its token
Serve(i) ==
  /\ loc[i].pc = "srv"
  /\ LET a == Answer(i, loc[i])
         j == out[a.m.tk]
     IN /\ j \in T /\ loc[j].pc = "srv"
        /\ loc' = IF j = i THEN [loc EXCEPT ![i] = [a.L EXCEPT !.msg = a.m, !.pc = "recv"]]
                  ELSE [loc EXCEPT ![i] = [a.L EXCEPT !.pc = "lost"], ![j] = [loc[j] EXCEPT !.msg = a.m, !.pc = "recv"]]
        /\ Step(a.es)
  /\ act' = [a |-> "srv", i |-> i]
  /\ UNCHANGED <<tok, out>>

Recv(i) ==
  /\ loc[i].pc = "recv"
  /\ LET p == Process(i, loc[i], loc[i].msg)
     IN /\ loc' = [loc EXCEPT ![i] = p.L]
        /\ Step(p.es)
  /\ act' = [a |-> "recv", i |-> i]
  /\ UNCHANGED <<tok, out>>

End == /\ \A i \in T : loc[i].pc = "fin"
       /\ loc' = [i \in T |-> [loc[i] EXCEPT !.pc = "end"]]
       /\ emit' = <<[E0 EXCEPT !.k = "end"]>>
       /\ obs' = [i \in T |-> ObsEvent(obs[i], [E0 EXCEPT !.k = "end"])]
       /\ act' = [a |-> "end", i |-> 0]
       /\ UNCHANGED <<tok, out>>

Next == End \/ \E i \in T : Submit(i) \/ Send(i) \/ Serve(i) \/ Recv(i)
Spec == Init /\ [][Next]_vars

NoBad == \A i \in T : obs[i].bad = {}
Completes == (\A i \in T : loc[i].pc = "end") => \A i \in T : obs[i].ndone = 1 /\ obs[i].nsub = 1
\* nobody is left waiting for a response that went to somebody else
NoneStranded == \A i \in T : loc[i].pc # "lost"
View == <<loc, tok, out, obs>>
=============================================================================
