----------------------- MODULE ResourceDirectoryVocab -----------------------
(* The vocabulary of property C20's histories: what the small numbers in the *)
(* events stand for on the wire.  These tables are the single source: the    *)
(* driver (harness/rddrive.py) builds its requests from what TLC prints for  *)
(* VocabDump, the monitor (ResourceDirectoryObs) derives every expected      *)
(* lookup entry from them.                                                   *)
(*   src    number of the requesting peer -> its address and the URI the     *)
(*          directory derives from it (scheme "coap", IP literal, port only  *)
(*          when it is not 5683)                                             *)
(*   base   1..99 explicit base URI given as base=, 100 + src derived        *)
(*   x      extra registration attributes (sequence of <<key, value>>)       *)
(*   links  link set (sequence of [href, attrs]; an attribute is <<key,      *)
(*          value>> or <<key>> when it has no value)                         *)
(*   lx     a lifetime that is not a whole number of quanta, or out of the   *)
(*          range of RFC 9176 (1 .. 2^32-1): [q, r, s] = q quanta + r        *)
(*          seconds (0 <= r < 15), s = the text sent as lt=                  *)
EXTENDS ResourceDirectoryUri, FiniteSets, TLC

SrcIds == 1..3
SrcHost(s) == CASE s = 1 -> "2001:db8::1" [] s = 2 -> "2001:db8::2" [] s = 3 -> "2001:db8::1" [] OTHER -> "2001:db8::ff"
SrcPort(s) == IF s = 3 THEN 61616 ELSE 5683
SrcUri(s) == "coap://[" \o SrcHost(s) \o "]" \o (IF SrcPort(s) = 5683 THEN "" ELSE ":" \o ToString(SrcPort(s)))
SrcBase(src) == 100 + src

ExplBases == 1..4
BaseIds == ExplBases \cup {SrcBase(s) : s \in SrcIds}
BaseUri(b) == CASE b = 1 -> "coap://b1.example"
                [] b = 2 -> "coap://b2.example"
                [] b = 3 -> "coap://b3.example/x/y"        \* a base with a path: relative references merge with it
                [] b = 4 -> "coap://[2001:db8::1]"         \* explicit, but spelled like the derived base of peer 1
                [] b > 100 -> SrcUri(b - 100)
                [] OTHER -> "?"

XIds == 0..4
XAttrs(x) == CASE x = 1 -> << <<"et", "v1">> >>
               [] x = 2 -> << <<"et", "v2">> >>
               [] x = 3 -> << <<"et", "v1">>, <<"foo", "bar baz">> >>
               [] x = 4 -> << <<"foo", "qux">>, <<"if", "i8 i9">> >>
               [] OTHER -> << >>

LtXIds == 1..9
LtX(i) == CASE i = 1 -> [q |-> 286331153, r |-> 0, s |-> "4294967295"]     \* the largest lifetime of RFC 9176
            [] i = 2 -> [q |-> 286331153, r |-> 1, s |-> "4294967296"]     \* one more (out of range)
            [] i = 3 -> [q |-> 0, r |-> 0, s |-> "0"]                      \* out of range
            [] i = 4 -> [q |-> 0, r |-> 1, s |-> "1"]                      \* the smallest lifetime of RFC 9176
            [] i = 5 -> [q |-> 3, r |-> 14, s |-> "59"]
            [] i = 6 -> [q |-> 0 - 5, r |-> 0, s |-> "-75"]                \* out of range
            [] i = 7 -> [q |-> 4, r |-> 1, s |-> "61"]
            [] i = 8 -> [q |-> 11520, r |-> 0, s |-> "172800"]             \* two days
            [] i = 9 -> [q |-> 0 - 1, r |-> 14, s |-> "-1"]                \* out of range
            [] OTHER -> [q |-> 0, r |-> 0, s |-> "?"]

Lk(h, as) == [href |-> h, attrs |-> as]
LinkIds == 0..6
ManyLinks == 24
LinksOf(L) ==
  CASE L = 1 -> << Lk("/a", << <<"rt", "r1">> >>) >>
    [] L = 2 -> << Lk("/a", << <<"rt", "r2">> >>), Lk("/b", << <<"rt", "r1">> >>) >>
    [] L = 3 -> << Lk("/b", << <<"rt", "r2">> >>) >>
    \* relative and full-URI targets and anchors, a value without quotes, an attribute without value
    [] L = 4 -> << Lk("a", << <<"rt", "r1 r3">>, <<"if", "i1">> >>),
                   Lk("http://www.example.com/sensors/t123", << <<"anchor", "/sensors/temp">>, <<"rel", "describedby">> >>),
                   Lk("/t", << <<"anchor", "http://www.example.com/sensors/t123">>, <<"rel", "alternate">> >>),
                   Lk("../up/c?x=1", << <<"ct", "40">>, <<"obs">> >>) >>
    \* many links
    [] L = 5 -> [i \in 1..ManyLinks |-> Lk("/m/" \o ToString(i), << <<"rt", IF i % 3 = 0 THEN "r1" ELSE "r2">>,
                                                                  <<"if", "i" \o ToString(i % 2)>> >>)]
    \* network-path reference, empty reference, dot segments, relative anchor
    [] L = 6 -> << Lk("//o.example/p", << <<"rt", "r3">> >>),
                   Lk("", << <<"rt", "r2">> >>),
                   Lk("./s/", << <<"anchor", "../t">>, <<"rt", "r1">> >>),
                   Lk("s/../u", << <<"if", "i1 i2">> >>) >>
    [] OTHER -> << >>

(* -- a registered link as a resource lookup has to show it: target and       *)
(*    anchor resolved against the registration base (RFC 9176 section 6.1);   *)
(*    imp = the context the link has when no anchor is shown                  *)
ResItem(B, ln) ==
  LET h    == ResolveStr(B, ln.href)
      ai   == {i \in DOMAIN ln.attrs : ln.attrs[i][1] = "anchor"}
      has  == ai # {}
      imp  == RootOf(h)
  IN [href |-> h, hasanc |-> has, imp |-> imp,
      anc |-> IF has THEN ResolveStr(B, ln.attrs[CHOOSE i \in ai : TRUE][2]) ELSE imp,
      attrs |-> {ln.attrs[i] : i \in (DOMAIN ln.attrs) \ ai},
      na |-> Cardinality((DOMAIN ln.attrs) \ ai)]

\* evaluated once per TLC run (constant-level definitions are)
ResTab == [b \in BaseIds |-> [L \in LinkIds |-> [i \in DOMAIN LinksOf(L) |-> ResItem(BaseUri(b), LinksOf(L)[i])]]]
AllItems == UNION {UNION {{ResTab[b][L][i] : i \in DOMAIN ResTab[b][L]} : L \in LinkIds} : b \in BaseIds}
RootTab == [h \in {it.href : it \in AllItems} |-> RootOf(h)]

(* -- what the driver needs to know (printed once per run) ------------------- *)
VocabDump ==
  [src   |-> [s \in SrcIds |-> [host |-> SrcHost(s), port |-> SrcPort(s), uri |-> SrcUri(s)]],
   base  |-> [b \in ExplBases |-> BaseUri(b)],
   x     |-> [x \in 1..4 |-> XAttrs(x)],
   lx    |-> [i \in LtXIds |-> LtX(i)],
   links |-> [L \in 1..6 |-> LinksOf(L)],
   \* values a search criterion can be aimed at
   hrefs |-> {it.href : it \in AllItems},
   ancs  |-> {it.anc : it \in {j \in AllItems : j.hasanc}},
   imps  |-> {it.imp : it \in AllItems},
   attrs |-> UNION {{a \in it.attrs : Len(a) = 2} : it \in AllItems} \cup UNION {{XAttrs(x)[i] : i \in DOMAIN XAttrs(x)} : x \in XIds}]
=============================================================================
