--------------------------- MODULE OscoreSessionTrace ---------------------------
(* Batch validation of sessions recorded from the real aiocoap.oscore code   *)
(* (two security contexts that keep their sender sequence numbers and       *)
(* replay windows while requests, responses and notifications are exchanged *)
(* in both directions and delivered late, reordered and duplicated) against *)
(* OscoreSession.tla.  One initial state per trace.  Trace[1] is a start    *)
(* record (W, initA, initB, echoA, echoB); every further record is          *)
(*   k = "req"      x sent a request with partial IV n (message number id)  *)
(*   k = "burn"     x used up n further sender sequence numbers             *)
(*   k = "rx_req"   request id was unprotected by its recipient: res, equal *)
(*   k = "respond"  x protected a response to request rq (own: with its own *)
(*                  partial IV n; otherwise n = -1), message number id      *)
(*   k = "rx_resp"  response id was unprotected by the requester with the   *)
(*                  identifiers of its request rq: res, equal               *)
(* res: "msg" | "reject" (ProtectionInvalid family) | "other".              *)
(* Monitor: Judge on every delivery.  Strict: partial IVs and outcomes are  *)
(* compared with the model's own operators (difference = DRIFT_model).      *)
EXTENDS OscoreSession, Json, IOUtils, TLCExt

Traces == JsonDeserialize(IOEnv.TRACE_FILE)

VARIABLES tid, l, firstBad

tvars == <<vars, tid, l, firstBad>>

TInit == /\ tid \in 1..Len(Traces)
         /\ LET h == Traces[tid][1]
            IN /\ size = h.W
               /\ ep = [x \in Ends |-> IF x = "A" THEN EpInit(h.initA, h.echoA) ELSE EpInit(h.initB, h.echoB)]
         /\ net = << >> /\ acc = {} /\ reused = {} /\ nb = 0 /\ nd = 0 /\ bad = {}
         /\ act = Act("start", "A", 0, 0, FALSE, 0, "start")
         /\ l = 1 /\ firstBad = {}

Known(id, kind) == id >= 1 /\ id <= Len(net) /\ net[id].kind = kind

(* [ep, net, acc, reused, cs (clauses false), drift] after a recorded event *)
StepOf(e) ==
  LET same == [ep |-> ep, net |-> net, acc |-> acc, reused |-> reused, cs |-> {}, drift |-> TRUE] IN
  CASE e.k = "req" ->
         [ep |-> [ep EXCEPT ![e.x].ssn = e.n + 1],
          net |-> Append(net, [kind |-> "req", from |-> e.x, n |-> e.n, rq |-> 0]),
          acc |-> acc, reused |-> reused, cs |-> {},
          drift |-> e.n # ep[e.x].ssn \/ e.id # Len(net) + 1]
    [] e.k = "burn" ->
         [ep |-> [ep EXCEPT ![e.x].ssn = @ + e.n], net |-> net, acc |-> acc, reused |-> reused, cs |-> {}, drift |-> FALSE]
    [] e.k = "rx_req" ->
         IF ~Known(e.id, "req") THEN same
         ELSE LET m == net[e.id]
                  dst == Other(m.from)
                  r == RxRequest(ep[dst], size, m.n)
              IN [ep |-> [ep EXCEPT ![dst] = r.ep], net |-> net,
                  acc |-> IF e.res = "msg" THEN acc \cup {e.id} ELSE acc, reused |-> reused,
                  cs |-> Judge("req", TRUE, e.res, e.equal),
                  drift |-> r.res # e.res]
    [] e.k = "respond" ->
         IF ~Known(e.rq, "req") THEN same
         ELSE LET x == Other(net[e.rq].from)
                  n == IF e.own THEN ep[x].ssn ELSE -1
              IN [ep |-> IF e.n >= 0 THEN [ep EXCEPT ![x].ssn = e.n + 1] ELSE ep,
                  net |-> Append(net, [kind |-> "resp", from |-> x, n |-> e.n, rq |-> e.rq]),
                  acc |-> acc, reused |-> IF e.n < 0 THEN reused \cup {e.rq} ELSE reused, cs |-> {},
                  drift |-> e.n # n \/ e.x # x \/ e.id # Len(net) + 1]
    [] e.k = "rx_resp" ->
         IF ~(Known(e.id, "resp") /\ Known(e.rq, "req")) THEN same
         ELSE LET m == net[e.id]
                  dst == Other(m.from)
                  own == m.rq = e.rq
                  r == RxResponse(ep[dst], size, m.n, own)
              IN [ep |-> [ep EXCEPT ![dst] = r.ep], net |-> net, acc |-> acc, reused |-> reused,
                  cs |-> Judge("resp", own, e.res, e.equal),
                  drift |-> r.res # e.res \/ own # e.own]
    [] OTHER -> same

TNext ==
  /\ l < Len(Traces[tid])
  /\ \E e \in {Traces[tid][l + 1]} :
     \E st \in {StepOf(e)} :
       LET nb2 == bad \cup st.cs \cup (IF st.drift THEN {"DRIFT_model"} ELSE {})
       IN /\ ep' = st.ep /\ net' = st.net /\ acc' = st.acc /\ reused' = st.reused
          /\ bad' = nb2
          /\ firstBad' = IF Cardinality(firstBad) < 60
                           THEN firstBad \cup {<<c, l + 1>> : c \in st.cs \cup (nb2 \ bad)}
                           ELSE firstBad
  /\ l' = l + 1
  /\ UNCHANGED <<size, nb, nd, act, tid>>

TSpec == TInit /\ [][TNext]_tvars

Report == (l = Len(Traces[tid])) => PrintT(<<"TRACE", tid, l, firstBad>>)
=============================================================================
