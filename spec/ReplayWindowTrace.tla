--------------------------- MODULE ReplayWindowTrace ---------------------------
(* Batch validation of accept/reject traces recorded from the real          *)
(* aiocoap.oscore code (ReplayWindow driven directly, and full unprotect()  *)
(* between two security contexts) against ReplayWindow.tla.  One initial    *)
(* state per trace.  Trace[1] is a start record (W, init, hasEcho); every   *)
(* further record is an event [k, c, n, auth, how, echo, res, idx, seen]    *)
(* (numbers near 2^40-1 arrive here translated to the neighbourhood of the  *)
(* model's Top: TLC integers are 32 bit).  Per event:                       *)
(*  - monitor: the clauses of C12 are evaluated on the recorded outcome;    *)
(*  - strict: the outcome and (where logged) the window projection are      *)
(*    compared with the model's own Step; a difference that breaks no       *)
(*    clause is flagged DRIFT_model (reported, never a violation); the      *)
(*    model is re-synchronised from the logged projection.                  *)
EXTENDS ReplayWindow, Json, IOUtils, TLCExt

Traces == JsonDeserialize(IOEnv.TRACE_FILE)

VARIABLES tid, firstBad,
          cnt     \* clause -> number of events of this trace on which it was evaluated non-vacuously

tvars == <<vars, tid, firstBad, cnt>>

ClauseNames == {"C12_AcceptAtMostOnce", "C12_BelowWindowRejected", "C12_AboveAllAccepted",
                "C12_InWindowUnseenAccepted", "C12_ForgeryNoEffect", "C12_UninitialisedNeedsEcho",
                "C12_ResponseNoEffect"}

TInit == /\ tid \in 1..Len(Traces)
         /\ LET s == Traces[tid][1]
            IN /\ st = StInit(s.init, s.hasEcho)
               /\ obs = ObsInit(s.W, s.init, s.hasEcho)
         /\ len = 1 /\ act = NoAct /\ hist = << >> /\ firstBad = {}
         /\ cnt = [c \in ClauseNames |-> 0]

TNext ==
  /\ len < Len(Traces[tid])
  /\ LET raw == Traces[tid][len + 1]
         e   == [k |-> raw.k, c |-> raw.c, n |-> raw.n, auth |-> raw.auth, how |-> raw.how, echo |-> raw.echo,
                 res |-> raw.res, idx |-> raw.idx, seen |-> ToSet(raw.seen)]
         r   == IF e.k = "resp" THEN StepResp(st, e.n, e.auth) ELSE Step(st, obs.W, e.n, e.auth, e.echo)
         differs == \/ r.res # e.res
                    \/ e.idx # -1 /\ (e.idx # ProjIdx(r.st) \/ e.seen # ProjSeen(r.st))
         app == Applicable(obs, e)
         o1  == ObsArrive(obs, e)
         o2  == IF differs THEN Flag(o1, {"DRIFT_model"}) ELSE o1
     IN /\ obs' = o2
        /\ st' = IF e.idx = -1 THEN (IF differs /\ e.res = "acc" /\ ~st.init
                                       THEN [st EXCEPT !.init = TRUE, !.index = e.n, !.seen = {e.n}]
                                       ELSE r.st)
                 ELSE IF e.idx = -2 THEN StInit(FALSE, st.echo)
                 ELSE [st EXCEPT !.init = TRUE, !.index = e.idx, !.seen = e.seen]
        /\ firstBad' = firstBad \cup {<<c, len>> : c \in o2.bad \ obs.bad}
        /\ cnt' = [c \in ClauseNames |-> IF c \in app THEN cnt[c] + 1 ELSE cnt[c]]
  /\ len' = len + 1
  /\ UNCHANGED <<act, hist, tid>>

TSpec == TInit /\ [][TNext]_tvars

Report == (len = Len(Traces[tid])) => PrintT(<<"TRACE", tid, len, firstBad>>) /\ PrintT(<<"COUNT", tid, cnt>>)
=============================================================================
