--------------------------- MODULE ReplayWindowBits ---------------------------
(* C12, window ARITHMETIC: aiocoap.oscore.ReplayWindow transcribed line by  *)
(* line (is_valid / strike_out with its shifting / initialize_empty) for a  *)
(* parametric size W, run in lock-step with                                 *)
(*   - the set-of-seen-numbers model of ReplayWindow.tla (st: index + set   *)
(*     of absolute numbers), and                                            *)
(*   - the statement-shaped monitor of ReplayWindow.tla (obs: the set of    *)
(*     all numbers ever accepted, "fallen out" = n <= max - W),             *)
(* over ALL arrival sequences (any length, any order, any repetition) of a  *)
(* bounded set of numbers NumsOf(W): a contiguous range 0..2W+2 -- window   *)
(* slides by 1..W-1, exactly W, W+1 and more -- plus a cluster just below   *)
(* Top, the model's stand-in for the largest sender sequence number 2^40-1  *)
(* (TLC integers are 32 bit: the driver maps Top-d to 2^40-1-d).            *)
(*                                                                          *)
(* The bitfield is represented twice:                                       *)
(*   bw.bits  the set of positions of its 1-bits (exact for every size:     *)
(*            Python integers are unbounded), and                           *)
(*   bi       the integer itself with >>, |, & as integer arithmetic        *)
(*            (only while it fits TLC's integers: W <= 30).                 *)
(* BitsSimSpec generates arrival sequences around the window edges for the  *)
(* real size 32 (and beyond); they are replayed on the real ReplayWindow    *)
(* and through real unprotect() calls.                                      *)
EXTENDS ReplayWindow

CONSTANTS Top,        \* stand-in for 2^40-1
          NumsOf(_),  \* window size -> numbers explored exhaustively
          JumpAfter   \* simulation: numbers near Top are offered after that many acceptances

VARIABLES bw,   \* [index, bits]: ReplayWindow._index, positions of the 1-bits of ReplayWindow._bitfield
          bi    \* ReplayWindow._bitfield as an integer (0 when W > 30: would not fit)

bvars == <<vars, bw, bi>>

NumsContiguous(w) == 0..(2 * w + 2) \cup {Top - w, Top - 1, Top}   \* thorough
NumsQuick(w) == 0..(2 * w + 2) \cup {Top - w, Top}
NumsSparse(w) == {0} \cup (w - 2)..(w + 1) \cup (2 * w - 2)..(2 * w + 1) \cup {3 * w, 3 * w + 1} \cup {Top}
NumsLow(w) == 0..(2 * w + 2)
NumsNone(w) == {}     \* simulation: the invariants look at the window edges only

(*************************** bit operations *********************************)
RECURSIVE P2(_)
P2(k) == IF k = 0 THEN 1 ELSE 2 * P2(k - 1)

\* on the set of 1-bit positions
PosTest(b, p) == p \in b                                     \* (b >> p) & 1 == 1
PosShr(b, k) == {p - k : p \in {q \in b : q >= k}}           \* b >> k
PosSet(b, p) == b \cup {p}                                   \* b | (1 << p)

\* on the integer
IntTest(x, p) == (x \div P2(p)) % 2 = 1
IntShr(x, k) == IF k >= 31 THEN 0 ELSE x \div P2(k)
IntSet(x, p) == IF IntTest(x, p) THEN x ELSE x + P2(p)

RECURSIVE SumP2(_)
SumP2(b) == IF b = {} THEN 0 ELSE LET p == CHOOSE q \in b : TRUE IN P2(p) + SumP2(b \ {p})

IntFits(w) == w <= 30

(*************************** ReplayWindow ***********************************)
BwEmpty == [index |-> 0, bits |-> {}]                         \* initialize_empty

\* def is_valid(self, number):
\*     if number < self._index: return False
\*     if number >= self._index + self._size: return True
\*     return (self._bitfield >> (number - self._index)) & 1 == 0
BwValid(w, size, n) ==
  IF n < w.index THEN FALSE
  ELSE IF n >= w.index + size THEN TRUE
  ELSE ~PosTest(w.bits, n - w.index)

IntValid(index, x, size, n) ==
  IF n < index THEN FALSE
  ELSE IF n >= index + size THEN TRUE
  ELSE ~IntTest(x, n - index)

\* def strike_out(self, number):
\*     overshoot = number - (self._index + self._size - 1)
\*     if overshoot > 0:
\*         self._index += overshoot
\*         self._bitfield >>= overshoot
\*     self._bitfield |= 1 << (number - self._index)
Overshoot(index, size, n) == n - (index + size - 1)

BwStrike(w, size, n) ==
  LET over == Overshoot(w.index, size, n)
      w1   == IF over > 0 THEN [index |-> w.index + over, bits |-> PosShr(w.bits, over)] ELSE w
  IN [w1 EXCEPT !.bits = PosSet(@, n - w1.index)]

IntStrike(index, x, size, n) ==       \* the new integer bitfield
  LET over == Overshoot(index, size, n)
      i1   == IF over > 0 THEN index + over ELSE index
      x1   == IF over > 0 THEN IntShr(x, over) ELSE x
  IN IntSet(x1, n - i1)

BwSeen(w) == {w.index + p : p \in w.bits}

(*************************** lock-step **************************************)
BitsInit ==
  /\ \E w \in Ws : /\ st = StInit(TRUE, FALSE) /\ obs = ObsInit(w, TRUE, FALSE)
  /\ len = 0 /\ act = NoAct /\ hist = << >>
  /\ bw = BwEmpty /\ bi = 0

\* an authentic request with number n arrives: unprotect() asks is_valid first and calls
\* strike_out after successful decryption
BitsArrive(n) ==
  LET W   == obs.W
      ok  == BwValid(bw, W, n)
      nw  == IF ok THEN BwStrike(bw, W, n) ELSE bw
      e   == [k |-> "req", c |-> 1, n |-> n, auth |-> TRUE, how |-> "genuine", echo |-> "none",
              res |-> IF ok THEN "acc" ELSE "rej", idx |-> nw.index, seen |-> BwSeen(nw)]
  IN /\ bw' = nw
     /\ bi' = IF ~IntFits(W) THEN 0 ELSE IF ok THEN IntStrike(bw.index, bi, W, n) ELSE bi
     /\ st' = Step(st, W, n, TRUE, "none").st
     /\ obs' = ObsArrive(obs, e)
     /\ act' = e

BitsNext == /\ \E n \in NumsOf(obs.W) : BitsArrive(n)
            /\ UNCHANGED <<len, hist>>

BitsSpec == BitsInit /\ [][BitsNext]_bvars

BitsView == <<st, obs, bw, bi>>

(* Simulation for real sizes: numbers around both window edges, replays,    *)
(* slides by W-1, W, W+1 and far more, and -- after JumpAfter acceptances -- *)
(* the neighbourhood of Top.                                                *)
Cand ==
  LET W  == obs.W
      hi == Max2(obs.hi, W - 1)
      in == bw.index..(bw.index + W - 1)
  IN {x \in {bw.index - 2, bw.index - 1, bw.index, bw.index + 1,
              bw.index + W - 2, bw.index + W - 1, bw.index + W, bw.index + W + 1, bw.index + W + 2}
             \cup {RandomElement(in), RandomElement(in), RandomElement(in), RandomElement(in)}
             \cup {hi + W - 1, hi + W, hi + W + 1, hi + 2 * W + 3}
             \cup (IF Cardinality(obs.acc) >= JumpAfter THEN {Top - W - 1, Top - W, Top - 1, Top} ELSE {})
        : x >= 0 /\ x <= Top}

BitsSimNext == /\ len < MaxLen
               /\ BitsArrive(RandomElement(Cand))     \* TLC draws (follows -seed)
               /\ len' = len + 1
               /\ UNCHANGED hist

BitsSimSpec == BitsInit /\ [][BitsSimNext]_bvars

(*************************** invariants *************************************)
\* the bitfield (positions) is the set-of-seen-numbers model, bit for bit
BitsAreSeen ==
  /\ bw.index = st.index
  /\ BwSeen(bw) = st.seen
  /\ \A p \in bw.bits : p >= 0 /\ p < obs.W            \* no bit at or beyond `size' is ever set

\* both models take the same decision for every number (not only the explored ones' outcomes)
BitsDecideAlike ==
  \A n \in NumsOf(obs.W) \cup {bw.index - 1, bw.index + obs.W - 1, bw.index + obs.W} :
     n >= 0 => BwValid(bw, obs.W, n) = Valid(st, obs.W, n)

\* the integer arithmetic (>>, |, &) computes the same bitfield
BitsIntAlike ==
  IntFits(obs.W) =>
    /\ bi = SumP2(bw.bits)
    /\ \A n \in NumsOf(obs.W) : IntValid(bw.index, bi, obs.W, n) = BwValid(bw, obs.W, n)

\* the statement: which numbers are (still) acceptable, from the set of all accepted numbers alone
BitsMeanStatement ==
  /\ bw.index = Max2(0, obs.hi - obs.W + 1)
  /\ BwSeen(bw) = {x \in obs.acc : x >= bw.index}
  /\ \A n \in NumsOf(obs.W) :
       BwValid(bw, obs.W, n) = (n \notin obs.acc /\ (obs.acc = {} \/ n > obs.hi - obs.W))
=============================================================================
