------------------------------- MODULE Render -------------------------------
(* Model of the server-side rendering pipeline of aiocoap                    *)
(* (protocol.Context.render_to_pipe -> pipe.error_to_message /               *)
(* run_driving_pipe -> resource.Site / Resource.render): a few requests in   *)
(* flight at once, each with its method, handler outcome and reliability;    *)
(* handlers complete in any order.  The response each request gets is the    *)
(* statement's table Expected(method, outcome) (RenderObs) -- in particular  *)
(* it does not depend on what the neighbours do.                             *)
EXTENDS RenderObs, TLC

CONSTANTS N,            \* requests in flight
          Methods,      \* method codes
          Outcomes,     \* handler outcomes
          Kinds         \* "" (handler exists), "nopath", "unimpl", "nosite"

VARIABLES rq,     \* i -> [method, outcome, con, kind, st ("new"|"running"|"answered")]
          emit, obs

vars == <<rq, emit, obs>>

Tok(i) == IF i = 1 THEN "d1" ELSE IF i = 2 THEN "d2" ELSE "d3"
Ev0(k, i, code, x, plen) ==
  [k |-> k, t |-> 0, r |-> 1, tok |-> Tok(i), cls |-> IF k = "rx" THEN "req" ELSE IF k = "tx" THEN "resp" ELSE "",
   ty |-> "", code |-> code, x |-> x, inv |-> i,
   plen |-> plen, leak |-> FALSE, mid |-> i, dig |-> i, nr |-> 0, cid |-> -1, cok |-> TRUE]
Ev(k, i, code, x, plen) == Ev0(k, i, code, x, plen)
Step(es) == /\ emit' = es /\ obs' = ObsFold(obs, es)

Init == rq = << >> /\ emit = << >> /\ obs = ObsInit

\* request i arrives; its method, the outcome its handler will have, its reliability and
\* what the addressed path is are the environment's choice
Arrive(i, method, outcome, con, kind) ==
  /\ i = Len(rq) + 1 /\ i <= N
  \* requests to a missing path / method never reach a handler: one canonical outcome
  /\ kind # "" => outcome = CHOOSE o \in Outcomes : TRUE
  /\ LET new == [method |-> method, outcome |-> outcome, con |-> con, kind |-> kind,
                 st |-> IF kind = "" THEN "running" ELSE "answered"]
         ty == IF con THEN "CON" ELSE "NON"
         rx == [Ev0("rx", i, method, kind, 0) EXCEPT !.ty = ty]
     IN /\ rq' = Append(rq, new)
        /\ IF kind = ""
             THEN Step(<<rx, Ev0("call", i, 0, "", 0)>>)
             ELSE Step(<<rx, Ev0("tx", i, IF kind = "unimpl" THEN C(4,5) ELSE C(4,4), "", 3)>>)

Complete(i) ==
  /\ i \in 1..Len(rq) /\ rq[i].st = "running"
  /\ rq' = [rq EXCEPT ![i].st = "answered"]
  /\ LET code == Expected(rq[i].method, rq[i].outcome)
         plen == IF rq[i].outcome \in BareOutcomes THEN 0 ELSE 8
         diag == RenderableOutcome(rq[i].outcome)      \* the diagnostic text travels from the raise to the wire
     IN Step(<<[Ev("release", i, 0, rq[i].outcome, IF diag THEN 8 ELSE 0) EXCEPT !.cid = IF diag THEN i ELSE -1],
               [Ev("tx", i, code, "", plen) EXCEPT !.cid = IF diag THEN i ELSE -1]>>)

End == /\ Len(rq) = N /\ \A i \in 1..N : rq[i].st = "answered"
       /\ (IF emit = << >> THEN TRUE ELSE emit[Len(emit)].k # "end")
       /\ Step(<<Ev("end", 1, 0, "", 0)>>)
       /\ UNCHANGED rq

Next == \/ \E i \in 1..N, m \in Methods, o \in Outcomes, con \in BOOLEAN, k \in Kinds : Arrive(i, m, o, con, k)
        \/ \E i \in 1..N : Complete(i)
        \/ End
Spec == Init /\ [][Next]_vars

NoBad == obs.bad = {}
\* isolation, state-based: what request i was answered with depends on i alone
Isolation == \A i \in 1..Len(rq) :
               LET k == <<1, Tok(i)>> IN
               (k \in DOMAIN obs.rq /\ obs.rq[k].n = 1 /\ rq[i].kind = "") =>
                   Expected(rq[i].method, rq[i].outcome) # 0
View == <<rq, obs>>
=============================================================================
