--------------------------- MODULE OscoreTrace ---------------------------
(* Batch validation of results recorded from the real aiocoap.oscore        *)
(* protect()/unprotect() against Oscore.tla.  One initial state per trace;  *)
(* a trace is the list of experiments made with one genuine protected       *)
(* message (or with the messages of one attacker behaviour).  Records:      *)
(*  k = "outer":   oc, obs (the request carries Observe), reqfetch (the     *)
(*                 answered request's outer code was FETCH), optnums, leak  *)
(*                 -- the serialised outer message of a                     *)
(*                 protected message (code, option numbers, whether an      *)
(*                 inner option value or the payload occurs in its bytes)   *)
(*  k = "deliver": one unprotect() of a (possibly manipulated) message:     *)
(*      role   "req" | "resp"                                               *)
(*      e      manipulation class: an element of Edits, or "bitflip"        *)
(*      rcpt   "peer" | "foreign" (other master secret) | "otherctx"        *)
(*      own    the request identifiers passed are those of the request the  *)
(*             response answers (always TRUE for requests)                  *)
(*      res    "msg" | "reject" (ProtectionInvalid family) | "other"        *)
(*      equal  the message that came out is the original                    *)
(*      symbolic form of the delivered OSCORE option and ciphertext as      *)
(*      parsed independently by the harness: pivtag, pivv, kid, kidctx,     *)
(*      group, reserved, malformed, ct; and of the genuine message: idc,    *)
(*      sendctx, ownpiv                                                     *)
(* Monitor: JudgeDelivery / JudgeOuter (the clauses).  Strict: res compared *)
(* with the symbolic Unprotect of Oscore.tla (difference = DRIFT_model).    *)
EXTENDS Oscore, Json, IOUtils, TLCExt

Traces == JsonDeserialize(IOEnv.TRACE_FILE)
ToSet(s) == {s[i] : i \in 1..Len(s)}

VARIABLES tid, l, firstBad

tvars == <<vars, tid, l, firstBad>>

TInit == /\ tid \in 1..Len(Traces) /\ l = 0 /\ firstBad = {} /\ bad = {}
         /\ idc = "none" /\ net = << >> /\ pend = {} /\ seen = {} /\ used = {} /\ nreq = 0 /\ nresp = 0
         /\ act = [k |-> "init"]

(* the model's expectation for a recorded delivery *)
Expected(e) ==
  LET sender == IF e.role = "req" THEN Ctx("s1", e.idc, "c", "s") ELSE Ctx("s1", e.idc, "s", "c")
      rc     == IF e.role = "req" THEN Ctx("s1", e.idc, "s", "c") ELSE Ctx("s1", e.idc, "c", "s")
      reqrid == ReqId("c", Piv("val", 1))
      base   == IF e.role = "req" THEN ProtectRequest(sender, "req0", 1, e.sendctx, FALSE)
                ELSE ProtectResponse(sender, "resp0", reqrid, e.ownpiv, 11, CHANGED)
      v      == CASE e.pivv = "orig" -> base.opt.piv.v [] e.pivv = "req" -> 1 [] OTHER -> 99
      opt    == [piv |-> IF e.pivtag = "abs" THEN NoPiv ELSE Piv(e.pivtag, v),
                 kid |-> CASE e.kid = "absent" -> "absent" [] e.kid = "right" -> rc.rid [] OTHER -> "zz",
                 kidctx |-> CASE e.kidctx = "absent" -> "absent" [] e.kidctx = "right" -> rc.idc [] OTHER -> "gz",
                 group |-> e.group, reserved |-> e.reserved]
      ct     == CASE e.ct = "ok" -> base.ct
                  [] e.ct = "swap" -> [base.ct EXCEPT !.pt = "zz", !.npiv = 77]
                  [] OTHER -> [base.ct EXCEPT !.ok = e.ct]
      q      == [base EXCEPT !.opt = opt, !.ct = ct]
      rid    == IF e.role = "req" THEN NoRid ELSE IF e.own THEN reqrid ELSE ReqId("c", Piv("val", 2))
      r      == Unprotect(RcptCtx(rc, e.rcpt), q, rid)
  IN IF e.malformed \/ r = "reject" THEN "reject" ELSE "msg"

TNext ==
  /\ l < Len(Traces[tid])
  /\ \E e \in {Traces[tid][l + 1]} :
       LET x  == IF e.k = "deliver" THEN Expected(e) ELSE "n/a"
           \* a single-bit flip is classified by its effect: if the RFC-shaped model still
           \* accepts the flipped message (nothing authenticated or mandatory changed, e.g. the
           \* k flag set on a response whose sender ID is empty), it is an equivalent message
           cls == IF e.e = "bitflip" THEN (IF x = "msg" THEN "kidctx_remove" ELSE "ct_corrupt") ELSE e.e
           cs == IF e.k = "outer" THEN JudgeOuter(e.role, e.oc, e.obs, e.reqfetch, ToSet(e.optnums), e.leak)
                 ELSE JudgeDelivery(e.role, cls, e.rcpt = "peer", e.own, e.res, e.equal)
           dr == IF e.k = "deliver" /\ x # e.res THEN {"DRIFT_model"} ELSE {}
           nb == bad \cup cs \cup dr
       IN /\ bad' = nb
          \* every failing event is reported (up to a cap), not only the first per clause
          /\ firstBad' = IF Cardinality(firstBad) < 60
                           THEN firstBad \cup {<<c, l + 1>> : c \in cs \cup (dr \ bad)}
                           ELSE firstBad
  /\ l' = l + 1
  /\ UNCHANGED <<idc, net, pend, seen, used, nreq, nresp, act, tid>>

TSpec == TInit /\ [][TNext]_tvars

Report == (l = Len(Traces[tid])) => PrintT(<<"TRACE", tid, l, firstBad>>)
=============================================================================
