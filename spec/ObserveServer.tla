---------------------------- MODULE ObserveServer ----------------------------
(* Implementation-shaped model of aiocoap's Observe server side:             *)
(*   interfaces.ObservableResource._render_to_pipe  (first response with     *)
(*     Observe 0, then one iteration per wake-up of the lossy single-slot    *)
(*     trigger future: a burst of triggers inside one callback coalesces     *)
(*     into one notification rendered after the burst; an unsuccessful or    *)
(*     is_last response ends the loop; `finally' runs the cancellation       *)
(*     callback),                                                            *)
(*   resource.ObservableResource  (observer set, update_observation_count),  *)
(*   TokenManager.process_request (a new request on (token, remote) stops    *)
(*     the old pipe), dispatch_error and shutdown (stop every pipe of the    *)
(*     remote / of the context),                                             *)
(*   MessageManager: piggy-backed first response, CON notifications with     *)
(*     retransmission and NSTART = 1 (a CON to a remote with an open         *)
(*     exchange waits in the per-remote backlog), _remove_exchange (RST      *)
(*     calls the message-error monitor = the pipe's stopper), _retransmit    *)
(*     giving up (drops the backlog, dispatch_error), deduplication of a     *)
(*     repeated request datagram (stored ACK replayed).                      *)
(* One action per event-loop callback chain that runs without virtual time   *)
(* passing.  Observer o has token Tok(o) and sits on endpoint Rem(o): its    *)
(* own endpoint o, or -- SharedEndpoint = TRUE -- endpoint 1 for all of     *)
(* them (several registrations of one endpoint on different tokens: they    *)
(* share the exchange, the backlog, the time-out and the transport error,   *)
(* but not Reset, re-registration or the queued responses of each other).   *)
(* The environment: the observers (register, re-register, deregister,       *)
(* duplicate datagram, unrelated request on a fresh token, ACK, RST,        *)
(* silence), the application (bursts of state changes, plain / explicit /   *)
(* unsuccessful / last), ICMP errors, shutdown, the clock.                  *)
(*                                                                          *)
(* Rendering a notification is two steps when SlowRender is TRUE: the       *)
(* renderer samples the state (event "render") and suspends; Release lets   *)
(* it produce the response.  Whatever happens in between -- further state   *)
(* changes, whose trigger lands in the slot that was re-armed BEFORE the    *)
(* render started, Reset, re-registration, time-out, shutdown -- is         *)
(* explored; after the response the loop finds the slot full and goes       *)
(* round again, so the change that fell into the window is not forgotten.   *)
(*                                                                          *)
(* DropQueuedOnStop tells which version of the code is modelled: FALSE is    *)
(* the pinned tree, where notifications waiting in the backlog survive the   *)
(* end of their registration (TLC finds C08_SilentAfterEnd false); TRUE is   *)
(* the repaired design.  BacklogCap > 0 is another known-bad variant: a      *)
(* bounded backlog that drops the NEWEST notification when it is full (TLC  *)
(* must find C08_LatestEventuallySent false); 0 = unbounded, the code.      *)
(*                                                                          *)
(* Further dimensions (each switched by a constant):                        *)
(*  TwoResources  observer o observes resource o (own state number, own     *)
(*     observer count, own changes) instead of all observing resource 1.    *)
(*  SlowFirst     the FIRST rendering of a registration suspends as well:   *)
(*     the piggy-back opportunity of a CON request runs out after           *)
(*     EmptyAckDelay (empty ACK), the first response is then a SEPARATE     *)
(*     response (CON with an exchange of its own / waiting in the backlog,  *)
(*     or NON) carrying Observe 0; state changes in that window land in the *)
(*     trigger future the ServerObservation was created with, so the loop   *)
(*     goes round at once after the first response; Reset and time-out of   *)
(*     the separate first response end the registration like those of any   *)
(*     notification; a new request on the token while the first rendering   *)
(*     is suspended cancels it (and inherits or replaces the piggy-back     *)
(*     opportunity of the token, as _process_request does).                 *)
(*  NonNotif      the resource answers with Unreliable tuning: every        *)
(*     separate response is NON also for a CON registration.                *)
(*  RstNonEnds    TRUE: a Reset carrying the message ID of the NON          *)
(*     notification sent last to the endpoint stops the pipe that sent it   *)
(*     (the statement: "when the observer answers a notification with       *)
(*     Reset"); FALSE: it is ignored (known-bad variant: TLC must find      *)
(*     C08_EndsOnRstNon false).                                             *)
(*  Big           the representation has three blocks: every rendered       *)
(*     response carries Block2 0/more/6 next to Observe; BlockFetch = the   *)
(*     observer fetches block 1 with a plain GET (no Observe) on a fresh    *)
(*     token -- nothing of the registration is touched --, or (Request kind *)
(*     "blk") on the registration's own token, which IS a new request on    *)
(*     the same token.  Interleaved with state changes in every order.      *)
EXTENDS ObserveServerObs, TLC

CONSTANTS NObservers, MaxChanges, MaxEnv, MaxSilence, AckTimeout, MaxTime, DropQueuedOnStop,
          SlowRender,     \* TRUE: the renderer of a notification suspends after sampling the state
          RearmBeforeRender, \* TRUE: the code (the trigger slot is re-armed before render() is awaited);
                             \* FALSE: re-armed after it -- a trigger that lands during the rendering is
                             \* overwritten and forgotten (known-bad variant: TLC must find
                             \* C08_LatestEventuallySent false, which shows that the window is explored)
          SharedEndpoint, \* TRUE: all observers are tokens of endpoint 1
          BacklogCap,     \* 0: unbounded (the code); n > 0: known-bad variant, see above
          TwoResources, SlowFirst, EmptyAckDelay, NonNotif, RstNonEnds, Big     \* see above

Observers == 1..NObservers
Rem(o) == IF SharedEndpoint THEN 1 ELSE o
Remotes == {Rem(o) : o \in Observers}
Tok(o) == CASE o = 1 -> "a1" [] o = 2 -> "a2" [] OTHER -> "a3"
Res(o) == IF TwoResources THEN o ELSE 1      \* the resource observer o observes
Mid0 == 100                      \* the server's first message ID
B2First == IF Big THEN 14 ELSE -1            \* Block2 0 / more / szx 6 on every rendered response
B2Req(n) == 16 * n + 6                       \* Block2 n / - / 6 in a request
B2Resp(n) == 16 * n + (IF n < 2 THEN 8 ELSE 0) + 6
ReqMid(r, k) == 1000 * r + k     \* the k-th request datagram of endpoint r

VARIABLES now,
          chg,      \* q -> state changes of resource q so far = its state number
          nreg,     \* registrations accepted so far
          reg,      \* o -> running render task of the registration: [g, num (next_observation_number), late, con]
          ex,       \* r -> open CON exchange with that remote (_active_exchanges + retransmission timer)
          bl,       \* r -> _backlogs[remote]: notifications waiting behind the open exchange
          nextMid,  \* MessageManager.message_id
          pmid,     \* r -> request datagrams sent by endpoint r
          lastReq,  \* o -> last request datagram and the reply stored for its duplicates (_recent_messages)
          nsent,    \* r -> distinct separate (CON/NON) responses put on the wire for r
          lastNon,  \* r -> [idx, mid, o, g] of the last NON response of a registration (target of RstNon)
          rs,       \* o -> suspended render of the task: [on, st (the state it sampled), first (it is the first
                    \*      rendering of the registration)]
          ea,       \* o -> _piggyback_opportunities[(remote, token)]: [on, due (empty ACK then), mid, cur (it belongs
                    \*      to the token's latest request datagram)]
          slot,     \* o -> servobs._trigger while the task is busy rendering: [full, v (the latest trigger value)]
          shut, fin, benv, bsil, emit, obs

vars == <<now, chg, nreg, reg, ex, bl, nextMid, pmid, lastReq, nsent, lastNon, rs, ea, slot, shut, fin, benv, bsil, emit, obs>>

NoReg == [g |-> 0, num |-> 0, late |-> FALSE, con |-> FALSE]
NoNtf == [o |-> 0, g |-> 0, ty |-> "", mid |-> 0, code |-> 0, ob |-> -1, st |-> -1, x |-> ""]
NoEx == [on |-> FALSE, due |-> 0, retr |-> 0, tmo |-> 0, n |-> NoNtf, idx |-> 0]
NoRs == [on |-> FALSE, st |-> 0, first |-> FALSE]
NoEa == [on |-> FALSE, due |-> 0, mid |-> 0, cur |-> FALSE]
NoLastNon == [idx |-> 0, mid |-> 0, o |-> 0, g |-> 0]
NoVal == [kind |-> "", code |-> 0, st |-> 0]
NoSlot == [full |-> FALSE, v |-> NoVal]
NewEx(n, idx) == [on |-> TRUE, due |-> now + AckTimeout, retr |-> 0, tmo |-> AckTimeout, n |-> n, idx |-> idx]

EvAt(t, k, r, ty, mid, tok, cls, code, ob, st, g, n, x) ==
  [k |-> k, t |-> t, r |-> r, ty |-> ty, mid |-> mid, tok |-> tok, cls |-> cls, code |-> code,
   dig |-> IF k \in {"rx", "tx"} THEN 1 ELSE 0, obs |-> ob, st |-> st, g |-> g, n |-> n, x |-> x, q |-> 0, b2 |-> -1]
QB(e, q, b2) == [e EXCEPT !.q = q, !.b2 = b2]
Ev(k, r, ty, mid, tok, cls, code, ob, st, g, n, x) == EvAt(now, k, r, ty, mid, tok, cls, code, ob, st, g, n, x)
Plain(k, r, tok, st, g, n, x) == Ev(k, r, "", 0, tok, "", 0, -1, st, g, n, x)

TxNtf(n) == QB(Ev("tx", Rem(n.o), n.ty, n.mid, Tok(n.o), "resp", n.code, n.ob, n.st, n.g, 0, n.x),
                 Res(n.o), IF n.x = "S" THEN B2First ELSE -1)
\* the finally clause of the render task: cancellation callback -> _observations.remove, update_observation_count
\* (c: the observer count of o's resource before)
StopEvs(o, g, c) == <<QB(Plain("cancelcb", Rem(o), Tok(o), -1, g, 0, ""), Res(o), -1),
                      QB(Plain("obscount", 0, "", -1, 0, c - 1, ""), Res(o), -1)>>

CountQ(rg, q) == Cardinality({o \in Observers : rg[o].g # 0 /\ Res(o) = q})
Drop(q, g) == SelectSeq(q, LAMBDA n : n.g # g)
Step(es) == /\ emit' = es /\ obs' = ObsFold(obs, es)

\* the running tasks of the observers in S are stopped one after the other (dispatch_error, shutdown)
RECURSIVE StopSet(_, _, _)
StopSet(o, S, rg) == IF o > NObservers THEN << >>
                     ELSE IF o \notin S \/ rg[o].g = 0 THEN StopSet(o + 1, S, rg)
                     ELSE StopEvs(o, rg[o].g, CountQ(rg, Res(o))) \o StopSet(o + 1, S, [rg EXCEPT ![o] = NoReg])
On(r) == {o \in Observers : Rem(o) = r}

Init == /\ now = 0 /\ chg = [q \in 1..2 |-> 0] /\ nreg = 0
        /\ reg = [o \in Observers |-> NoReg] /\ ex = [r \in Remotes |-> NoEx] /\ bl = [r \in Remotes |-> << >>]
        /\ nextMid = Mid0 /\ pmid = [r \in Remotes |-> 0]
        /\ lastReq = [o \in Observers |-> [rx |-> << >>, reply |-> << >>]]
        /\ nsent = [r \in Remotes |-> 0] /\ lastNon = [r \in Remotes |-> NoLastNon]
        /\ rs = [o \in Observers |-> NoRs] /\ ea = [o \in Observers |-> NoEa] /\ slot = [o \in Observers |-> NoSlot]
        /\ shut = FALSE /\ fin = FALSE /\ benv = MaxEnv /\ bsil = MaxSilence
        /\ emit = << >> /\ obs = ObsInit

TimerDue == \/ \E r \in Remotes : ex[r].on /\ ex[r].due <= now
            \/ \E o \in Observers : ea[o].on /\ ea[o].due <= now

(* -- a new request datagram of observer o on its token ---------------------- *)
(*    kind "reg": GET Observe=0;  "dereg": GET Observe=1;  "plain": GET;       *)
(*    "blk": GET Block2 1/-/6 without Observe (a block fetched on the          *)
(*    registration's own token: a new request on that token like any other)    *)
Request(o, ty, kind) ==
  /\ ~shut /\ ~fin /\ benv > 0
  /\ LET r == Rem(o)
         q == Res(o)
         mid == ReqMid(r, pmid[r])
         ob == CASE kind = "reg" -> 0 [] kind = "dereg" -> 1 [] OTHER -> -1
         old == reg[o].g
         c0 == CountQ(reg, q)
         c1 == IF old # 0 THEN c0 - 1 ELSE c0
         g == IF kind = "reg" THEN nreg + 1 ELSE 0
         \* _process_request: a CON request opens the piggy-back opportunity of (remote, token), replacing a
         \* pending one; a NON request leaves a pending one where it is (its response then uses it)
         pig == IF ty = "CON" THEN [on |-> TRUE, due |-> now + EmptyAckDelay, mid |-> mid, cur |-> TRUE]
                ELSE [ea[o] EXCEPT !.cur = FALSE]
         susp == SlowFirst /\ kind = "reg"                  \* the first rendering suspends
         rty == IF pig.on THEN "ACK" ELSE "NON"             \* immediate response: piggy-backed on the ACK
         rmid == IF pig.on THEN pig.mid ELSE nextMid
         sent == ~susp /\ ~pig.on                           \* a separate (NON) response goes out now
         rxE(t) == QB(EvAt(t, "rx", r, ty, mid, Tok(o), "req", 1, ob, -1, 0, 0, "obs"), q, IF kind = "blk" THEN B2Req(1) ELSE -1)
         txE(t) == QB(EvAt(t, "tx", r, rty, rmid, Tok(o), "resp", 69, IF kind = "reg" THEN 0 ELSE -1, chg[q], g, 0, "S"),
                      q, IF kind = "blk" THEN B2Resp(1) ELSE B2First)
         regEvs == IF kind = "reg"
                     THEN <<QB(Plain("accept", r, Tok(o), -1, g, c1, ""), q, -1), QB(Plain("obscount", 0, "", -1, 0, c1 + 1, ""), q, -1)>>
                     ELSE << >>
     IN /\ Step(<<rxE(now)>>
                \o (IF old # 0 THEN StopEvs(o, old, c0) ELSE << >>)      \* the overridden pipe's task is cancelled first
                \o regEvs
                \o <<QB(Plain("render", r, Tok(o), chg[q], g, 0, "S"), q, -1)>>
                \o (IF susp THEN << >> ELSE <<txE(now)>>))
        /\ reg' = [reg EXCEPT ![o] = IF kind = "reg" THEN [g |-> g, num |-> 0, late |-> FALSE, con |-> ty = "CON" /\ ~NonNotif] ELSE NoReg]
        /\ nreg' = IF kind = "reg" THEN nreg + 1 ELSE nreg
        /\ nextMid' = IF sent THEN nextMid + 1 ELSE nextMid
        /\ nsent' = IF sent THEN [nsent EXCEPT ![r] = @ + 1] ELSE nsent
        /\ lastNon' = IF sent /\ kind = "reg" THEN [lastNon EXCEPT ![r] = [idx |-> nsent[r] + 1, mid |-> nextMid, o |-> o, g |-> g]] ELSE lastNon
        \* repaired design: responses to an earlier request on the same token that still wait are void
        \* (those on the endpoint's other tokens stay)
        /\ bl' = IF DropQueuedOnStop THEN [bl EXCEPT ![r] = SelectSeq(@, LAMBDA n : n.o # o)] ELSE bl
        /\ lastReq' = [lastReq EXCEPT ![o] = [rx |-> <<rxE(0)>>, reply |-> IF ty = "CON" /\ ~susp THEN <<txE(0)>> ELSE << >>]]
        /\ pmid' = [pmid EXCEPT ![r] = @ + 1]
        \* a suspended render of the overridden pipe is cancelled with its task; the first rendering of the new
        \* registration answers at once (piggy-backed / NON) unless SlowFirst suspends it
        /\ rs' = [rs EXCEPT ![o] = IF susp THEN [on |-> TRUE, st |-> chg[q], first |-> TRUE] ELSE NoRs]
        /\ slot' = [slot EXCEPT ![o] = NoSlot]
        /\ ea' = [ea EXCEPT ![o] = IF susp THEN pig ELSE NoEa]
  /\ benv' = benv - 1
  /\ UNCHANGED <<now, chg, ex, shut, fin, bsil>>

(* -- the last request datagram of o arrives again (deduplication) ------------ *)
DupRequest(o) ==
  /\ ~shut /\ ~fin /\ benv > 0 /\ lastReq[o].rx # << >>
  /\ Step(<<[lastReq[o].rx[1] EXCEPT !.t = now]>>
          \o [i \in 1..Len(lastReq[o].reply) |-> [lastReq[o].reply[i] EXCEPT !.t = now]])
  /\ benv' = benv - 1
  /\ UNCHANGED <<now, chg, nreg, reg, ex, bl, nextMid, pmid, lastReq, nsent, lastNon, rs, ea, slot, shut, fin, bsil>>

(* -- an unrelated request of endpoint r: plain GET on a fresh token ----------- *)
(*    (nothing that waits for r, and no registration, is touched by it);        *)
(*    blk: it asks for block 1 of resource q's representation                   *)
Unrelated(r, ty, q, blk) ==
  /\ ~shut /\ ~fin /\ benv > 0
  /\ LET mid == ReqMid(r, pmid[r]) IN
     Step(<<QB(Ev("rx", r, ty, mid, "c1", "req", 1, -1, -1, 0, 0, "obs"), q, IF blk THEN B2Req(1) ELSE -1),
            QB(Plain("render", r, "c1", chg[q], 0, 0, "S"), q, -1),
            QB(Ev("tx", r, IF ty = "CON" THEN "ACK" ELSE "NON", IF ty = "CON" THEN mid ELSE nextMid, "c1", "resp", 69, -1, chg[q], 0, 0, "S"),
               q, IF blk THEN B2Resp(1) ELSE B2First)>>)
  /\ nextMid' = IF ty = "CON" THEN nextMid ELSE nextMid + 1
  /\ nsent' = IF ty = "CON" THEN nsent ELSE [nsent EXCEPT ![r] = @ + 1]
  /\ pmid' = [pmid EXCEPT ![r] = @ + 1]
  /\ benv' = benv - 1
  /\ UNCHANGED <<now, chg, nreg, reg, ex, bl, lastReq, lastNon, rs, ea, slot, shut, fin, bsil>>

(* -- a burst of k state changes of resource q inside one callback ------------- *)
(*    x = ""       updated_state()                 -> trigger(None)             *)
(*    x = "ok"     trigger(2.05 explicit)      x = "unsucc"  trigger(4.04)      *)
(*    x = "last"   trigger(None, is_last=True)                                  *)
(*    every render task wakes once afterwards and sees only the last trigger.   *)
\* the task puts one notification on the wire (or into the backlog) and, if it is the last, runs its finally;
\* first: it is the (separate) first response of the registration -- Observe 0, the counter stays
EmitN(o, acc, kind, code, st, isLast, first) ==
  LET R == acc.reg[o]
      r == Rem(o)
      n == [o |-> o, g |-> R.g, ty |-> IF R.con THEN "CON" ELSE "NON", mid |-> acc.mid, code |-> code,
            ob |-> IF isLast THEN -1 ELSE IF first THEN 0 ELSE R.num + 1, st |-> st, x |-> kind]
      queued == R.con /\ acc.ex[r].on           \* NSTART = 1: waits behind the open exchange
      full == queued /\ BacklogCap > 0 /\ Len(acc.bl[r]) >= BacklogCap      \* known-bad variant: the newest is dropped
  IN [evs |-> acc.evs \o (IF queued THEN << >> ELSE <<TxNtf(n)>>) \o (IF isLast THEN StopEvs(o, R.g, acc.cnt) ELSE << >>),
      cnt |-> IF isLast THEN acc.cnt - 1 ELSE acc.cnt,
      mid |-> acc.mid + 1,
      reg |-> [acc.reg EXCEPT ![o] = IF isLast THEN NoReg ELSE IF first THEN R ELSE [R EXCEPT !.num = R.num + 1]],
      ex |-> IF queued \/ ~R.con THEN acc.ex ELSE [acc.ex EXCEPT ![r] = NewEx(n, acc.nsent[r] + 1)],
      bl |-> IF queued /\ ~full THEN [acc.bl EXCEPT ![r] = Append(acc.bl[r], n)] ELSE acc.bl,
      nsent |-> IF queued THEN acc.nsent ELSE [acc.nsent EXCEPT ![r] = acc.nsent[r] + 1],
      lastNon |-> IF R.con THEN acc.lastNon ELSE [acc.lastNon EXCEPT ![r] = [idx |-> acc.nsent[r] + 1, mid |-> acc.mid, o |-> o, g |-> R.g]],
      rs |-> [acc.rs EXCEPT ![o] = NoRs],
      slot |-> IF isLast THEN [acc.slot EXCEPT ![o] = NoSlot] ELSE acc.slot]
Emit(o, acc, kind, code, st, isLast) == EmitN(o, acc, kind, code, st, isLast, FALSE)

\* the task wakes with trigger value v (the slot has been re-armed): an explicit response is sent as it
\* is; otherwise the resource is rendered -- at once, or (SlowRender) sampled now and produced at Release
Serve(o, acc, v, stNow) ==
  LET R == acc.reg[o]
      rend == <<QB(Plain("render", Rem(o), Tok(o), stNow, R.g, 0, "S"), Res(o), -1)>>
  IN IF v.kind = "E" THEN Emit(o, acc, "E", v.code, v.st, R.late \/ v.code = 132)
     ELSE IF SlowRender
       THEN [acc EXCEPT !.evs = acc.evs \o rend, !.rs = [acc.rs EXCEPT ![o] = [on |-> TRUE, st |-> stNow, first |-> FALSE]]]
       ELSE Emit(o, [acc EXCEPT !.evs = acc.evs \o rend], "S", 69, stNow, R.late)

ChgOne(o, acc, st1, x) ==
  IF acc.reg[o].g = 0 THEN acc ELSE
  LET v == IF x = "ok" THEN [kind |-> "E", code |-> 69, st |-> st1]
           ELSE IF x = "unsucc" THEN [kind |-> "E", code |-> 132, st |-> st1]
           ELSE [kind |-> "S", code |-> 0, st |-> 0]
      acc1 == [acc EXCEPT !.reg = [acc.reg EXCEPT ![o] = [acc.reg[o] EXCEPT !.late = acc.reg[o].late \/ x = "last"]]]
  IN IF acc.rs[o].on
       THEN \* the task is inside render() -- of a notification: the trigger lands in the re-armed slot; of the
            \* first response: in the future the ServerObservation was born with -- (latest value wins)
            [acc1 EXCEPT !.slot = [acc.slot EXCEPT ![o] = [full |-> TRUE, v |-> v]]]
       ELSE Serve(o, acc1, v, st1)

\* the observations of resource q are triggered, and their tasks wake, in the order in which they were registered
RECURSIVE ChgFold(_, _, _, _, _, _)
ChgFold(g, rg0, acc, st1, x, q) ==
  IF g > nreg THEN acc
  ELSE LET S == {o \in Observers : rg0[o].g = g /\ Res(o) = q} IN
       ChgFold(g + 1, rg0, IF S = {} THEN acc ELSE ChgOne(CHOOSE o \in S : TRUE, acc, st1, x), st1, x, q)

Change(k, x, q) ==
  /\ ~shut /\ ~fin /\ chg[1] + chg[2] + k <= MaxChanges
  /\ LET acc0 == [evs |-> [i \in 1..k |-> QB(Plain("change", 0, "", chg[q] + i, 0, 0, x), q, -1)],
                  cnt |-> CountQ(reg, q), mid |-> nextMid, reg |-> reg, ex |-> ex, bl |-> bl,
                  nsent |-> nsent, lastNon |-> lastNon, rs |-> rs, slot |-> slot]
         acc == ChgFold(1, reg, acc0, chg[q] + k, x, q)
     IN /\ Step(acc.evs)
        /\ reg' = acc.reg /\ ex' = acc.ex /\ bl' = acc.bl /\ nsent' = acc.nsent /\ lastNon' = acc.lastNon
        /\ nextMid' = acc.mid /\ rs' = acc.rs /\ slot' = acc.slot
  /\ chg' = [chg EXCEPT ![q] = @ + k]
  /\ UNCHANGED <<now, nreg, pmid, lastReq, ea, shut, fin, benv, bsil>>

(* -- the suspended renderer of o's task is released: it produces the response   *)
(*    for the state it sampled; the loop then looks at the slot again ----------- *)
(*    The first response of a registration is piggy-backed while the           *)
(*    opportunity lasts, a separate response afterwards; it is never the last  *)
(*    one by is_last (only the loop looks at that), and the loop goes round at *)
(*    once when a trigger arrived during the first rendering.                  *)
Release(o) ==
  /\ ~fin /\ rs[o].on
  /\ LET R == reg[o]
         q == Res(o)
         acc0 == [evs |-> <<QB(Plain("release", Rem(o), Tok(o), -1, R.g, 0, ""), q, -1)>>,
                  cnt |-> CountQ(reg, q), mid |-> nextMid, reg |-> reg, ex |-> ex, bl |-> bl,
                  nsent |-> nsent, lastNon |-> lastNon, rs |-> rs, slot |-> slot]
         pigE(t) == QB(EvAt(t, "tx", Rem(o), "ACK", ea[o].mid, Tok(o), "resp", 69, 0, rs[o].st, R.g, 0, "S"), q, B2First)
         f1 == IF ea[o].on
                 THEN [acc0 EXCEPT !.evs = acc0.evs \o <<pigE(now)>>, !.rs = [acc0.rs EXCEPT ![o] = NoRs]]
                 ELSE EmitN(o, acc0, "S", 69, rs[o].st, FALSE, TRUE)
         a1 == Emit(o, acc0, "S", 69, rs[o].st, R.late)          \* is_last is looked at after the rendering
         acc == IF rs[o].first
                  THEN IF slot[o].full THEN Serve(o, [f1 EXCEPT !.slot = [f1.slot EXCEPT ![o] = NoSlot]], slot[o].v, chg[q]) ELSE f1
                ELSE IF R.late \/ ~slot[o].full THEN a1
                ELSE IF ~RearmBeforeRender THEN [a1 EXCEPT !.slot = [a1.slot EXCEPT ![o] = NoSlot]]
                ELSE Serve(o, [a1 EXCEPT !.slot = [a1.slot EXCEPT ![o] = NoSlot]], slot[o].v, chg[q])
     IN /\ Step(acc.evs)
        /\ reg' = acc.reg /\ ex' = acc.ex /\ bl' = acc.bl /\ nsent' = acc.nsent /\ lastNon' = acc.lastNon
        /\ nextMid' = acc.mid /\ rs' = acc.rs /\ slot' = acc.slot
        /\ ea' = IF rs[o].first THEN [ea EXCEPT ![o] = NoEa] ELSE ea
        /\ lastReq' = IF rs[o].first /\ ea[o].on /\ ea[o].cur THEN [lastReq EXCEPT ![o].reply = <<pigE(0)>>] ELSE lastReq
  /\ UNCHANGED <<now, chg, nreg, pmid, shut, fin, benv, bsil>>

(* -- the piggy-back opportunity of o's token runs out: empty ACK --------------- *)
EmptyAck(o) ==
  /\ ~fin /\ ea[o].on /\ ea[o].due = now
  /\ LET e(t) == EvAt(t, "tx", Rem(o), "ACK", ea[o].mid, "", "empty", 0, -1, -1, 0, 0, "") IN
     /\ Step(<<e(now)>>)
     /\ lastReq' = IF ea[o].cur THEN [lastReq EXCEPT ![o].reply = <<e(0)>>] ELSE lastReq
  /\ ea' = [ea EXCEPT ![o] = NoEa]
  /\ UNCHANGED <<now, chg, nreg, reg, ex, bl, nextMid, pmid, nsent, lastNon, rs, slot, shut, fin, benv, bsil>>

(* -- _continue_backlog: the next waiting notification goes out ----------------- *)
Continue(r, pre, post, q) ==
  IF q = << >>
    THEN /\ ex' = [ex EXCEPT ![r] = NoEx] /\ bl' = [bl EXCEPT ![r] = << >>] /\ nsent' = nsent
         /\ Step(pre \o post)
    ELSE /\ ex' = [ex EXCEPT ![r] = NewEx(Head(q), nsent[r] + 1)] /\ bl' = [bl EXCEPT ![r] = Tail(q)]
         /\ nsent' = [nsent EXCEPT ![r] = @ + 1]
         /\ Step(pre \o <<TxNtf(Head(q))>> \o post)

(* -- the endpoint acknowledges the open confirmable notification ------------- *)
Ack(r) ==
  /\ ~shut /\ ~fin /\ ex[r].on
  /\ Continue(r, <<Ev("rx", r, "ACK", ex[r].n.mid, "", "empty", 0, -1, -1, 0, ex[r].idx, "")>>, << >>, bl[r])
  /\ UNCHANGED <<now, chg, nreg, reg, nextMid, pmid, lastReq, lastNon, rs, ea, slot, shut, fin, benv, bsil>>

(* -- ... or rejects it: _remove_exchange calls the message-error monitor,      *)
(*    i.e. the stopper of the pipe that sent it (and of no other pipe) -------- *)
Rst(r) ==
  /\ ~shut /\ ~fin /\ ex[r].on
  /\ LET g == ex[r].n.g
         o == ex[r].n.o
         hit == g # 0 /\ reg[o].g = g             \* that pipe is still the running one
     IN /\ Continue(r, <<Ev("rx", r, "RST", ex[r].n.mid, "", "empty", 0, -1, -1, 0, ex[r].idx, "")>>,
                    IF hit THEN StopEvs(o, g, CountQ(reg, Res(o))) ELSE << >>,
                    IF DropQueuedOnStop THEN Drop(bl[r], g) ELSE bl[r])
        /\ reg' = IF hit THEN [reg EXCEPT ![o] = NoReg] ELSE reg
        /\ rs' = IF hit THEN [rs EXCEPT ![o] = NoRs] ELSE rs
        /\ slot' = IF hit THEN [slot EXCEPT ![o] = NoSlot] ELSE slot
  /\ UNCHANGED <<now, chg, nreg, nextMid, pmid, lastReq, lastNon, ea, shut, fin, benv, bsil>>

(* -- a Reset answering the NON response sent last to r by a registration:      *)
(*    RstNonEnds: it stops the pipe that sent it (if that is still the running  *)
(*    one) like a Reset to a confirmable one; otherwise: no exchange, nothing   *)
RstNon(r) ==
  /\ ~shut /\ ~fin /\ benv > 0 /\ lastNon[r].idx # 0
  /\ LET L == lastNon[r]
         hit == RstNonEnds /\ L.g # 0 /\ reg[L.o].g = L.g
     IN /\ Step(<<Ev("rx", r, "RST", L.mid, "", "empty", 0, -1, -1, 0, L.idx, "")>>
                \o (IF hit THEN StopEvs(L.o, L.g, CountQ(reg, Res(L.o))) ELSE << >>))
        /\ reg' = IF hit THEN [reg EXCEPT ![L.o] = NoReg] ELSE reg
        /\ rs' = IF hit THEN [rs EXCEPT ![L.o] = NoRs] ELSE rs
        /\ slot' = IF hit THEN [slot EXCEPT ![L.o] = NoSlot] ELSE slot
        /\ bl' = IF hit /\ DropQueuedOnStop THEN [bl EXCEPT ![r] = Drop(@, L.g)] ELSE bl
  /\ benv' = benv - 1
  /\ UNCHANGED <<now, chg, nreg, ex, nextMid, pmid, lastReq, nsent, lastNon, ea, shut, fin, bsil>>

\* every pipe of endpoint r is stopped (dispatch_error); piggy-back opportunities are not touched by it
StopRemote(r, pre) ==
  /\ Step(pre \o StopSet(1, On(r), reg))
  /\ ex' = [ex EXCEPT ![r] = NoEx] /\ bl' = [bl EXCEPT ![r] = << >>]
  /\ reg' = [o \in Observers |-> IF Rem(o) = r THEN NoReg ELSE reg[o]]
  /\ rs' = [o \in Observers |-> IF Rem(o) = r THEN NoRs ELSE rs[o]]
  /\ slot' = [o \in Observers |-> IF Rem(o) = r THEN NoSlot ELSE slot[o]]

(* -- retransmission timer of the open exchange (_retransmit) ------------------ *)
TimerRetransmit(r) ==
  /\ ~fin /\ ex[r].on /\ ex[r].due = now
  /\ LET x == ex[r] IN
     IF x.retr < MaxRetransmit
       THEN /\ Step(<<TxNtf(x.n)>>)
            /\ ex' = [ex EXCEPT ![r] = [x EXCEPT !.retr = x.retr + 1, !.tmo = 2 * x.tmo, !.due = now + 2 * x.tmo]]
            /\ UNCHANGED <<reg, bl, rs, slot>>
       ELSE \* give up: the backlog of the remote is dropped, dispatch_error stops every pipe of the remote
            StopRemote(r, << >>)
  /\ bsil' = IF bsil > 0 THEN bsil - 1 ELSE 0
  /\ UNCHANGED <<now, chg, nreg, nextMid, pmid, lastReq, nsent, lastNon, ea, shut, fin, benv>>

(* -- ICMP error reported for remote r (MessageManager.dispatch_error) --------- *)
Err(r) ==
  /\ ~shut /\ ~fin /\ benv > 0
  /\ StopRemote(r, <<Plain("err", r, "", -1, 0, 0, "")>>)
  /\ benv' = benv - 1
  /\ UNCHANGED <<now, chg, nreg, nextMid, pmid, lastReq, nsent, lastNon, ea, shut, fin, bsil>>

(* -- Context.shutdown: every pipe stopped, every timer cancelled -------------- *)
Shutdown ==
  /\ ~shut /\ ~fin /\ benv > 0
  /\ Step(<<Plain("shutdown", 0, "", -1, 0, 0, "")>> \o StopSet(1, Observers, reg)
          \o <<Plain("shutdown-done", 0, "", -1, 0, 0, "ok")>>)
  /\ shut' = TRUE
  /\ reg' = [o \in Observers |-> NoReg] /\ ex' = [r \in Remotes |-> NoEx] /\ bl' = [r \in Remotes |-> << >>]
  /\ rs' = [o \in Observers |-> NoRs] /\ slot' = [o \in Observers |-> NoSlot] /\ ea' = [o \in Observers |-> NoEa]
  /\ benv' = benv - 1
  /\ UNCHANGED <<now, chg, nreg, nextMid, pmid, lastReq, nsent, lastNon, fin, bsil>>

(* -- the clock: an endpoint may stay silent across at most MaxSilence timers -- *)
Tick == /\ ~fin /\ ~TimerDue /\ now < MaxTime
        \* idle waiting changes nothing: time passes only towards a timer
        /\ (\E r \in Remotes : ex[r].on) \/ (\E o \in Observers : ea[o].on)
        /\ Cardinality({r \in Remotes : ex[r].on /\ ex[r].due = now + 1}) <= bsil
        /\ now' = now + 1 /\ emit' = << >>
        /\ UNCHANGED <<chg, nreg, reg, ex, bl, nextMid, pmid, lastReq, nsent, lastNon, rs, ea, slot, shut, fin, benv, bsil, obs>>

(* -- quiescence: nothing in flight, no timer armed, no rendering suspended ---- *)
End == /\ ~fin /\ (\A r \in Remotes : ~ex[r].on) /\ (\A o \in Observers : ~rs[o].on /\ ~ea[o].on)
       /\ Step(<<Plain("end", 0, "", -1, 0, 0, "")>>)
       /\ fin' = TRUE
       /\ UNCHANGED <<now, chg, nreg, reg, ex, bl, nextMid, pmid, lastReq, nsent, lastNon, rs, ea, slot, shut, benv, bsil>>

Next == \/ \E r \in Remotes : TimerRetransmit(r)
        \/ \E o \in Observers : EmptyAck(o)
        \* (observers are interchangeable: observer o + 1 does not appear before observer o)
        \/ (~TimerDue /\ \E o \in Observers, ty \in {"CON", "NON"} :
               (IF o = 1 THEN TRUE ELSE lastReq[o - 1].rx # << >>) /\ Request(o, ty, "reg"))
        \/ (~TimerDue /\ \E o \in Observers, ty \in {"CON", "NON"} : reg[o].g # 0 /\ Request(o, ty, "dereg"))
        \/ (~TimerDue /\ Big /\ \E o \in Observers, ty \in {"CON", "NON"} : reg[o].g # 0 /\ Request(o, ty, "blk"))
        \/ (~TimerDue /\ \E o \in Observers : DupRequest(o))
        \* (an unrelated request matters where something of the endpoint waits in the backlog; explored in the
        \* configurations with several tokens per endpoint)
        \/ (~TimerDue /\ SharedEndpoint /\ \E o \in Observers : bl[Rem(o)] # << >> /\ Unrelated(Rem(o), "CON", Res(o), FALSE))
        \* (a block of the large representation fetched on another token while the registration runs)
        \/ (~TimerDue /\ Big /\ \E o \in Observers, ty \in {"CON", "NON"} : reg[o].g # 0 /\ Unrelated(Rem(o), ty, Res(o), TRUE))
        \/ (~TimerDue /\ \E k \in 1..MaxChanges, x \in {"", "ok", "unsucc", "last"}, q \in {Res(o) : o \in Observers} : Change(k, x, q))
        \/ (~TimerDue /\ \E r \in Remotes : Ack(r) \/ Rst(r) \/ RstNon(r))
        \/ (~TimerDue /\ \E o \in Observers : Release(o))
        \/ (~TimerDue /\ \E r \in Remotes : Err(r))
        \/ (~TimerDue /\ Shutdown)
        \/ Tick
        \/ End

Spec == Init /\ [][Next]_vars

NoBad == obs.bad = {}
\* state-based forms of the bookkeeping clauses: per resource the reported count is the number of running tasks
CountMatches == \A q \in DOMAIN obs.cnt : obs.cnt[q] = CountQ(reg, q)
View == <<now, chg, nreg, reg, ex, bl, nextMid, pmid, lastReq, nsent, lastNon, rs, ea, slot, shut, fin, benv, bsil, obs>>
=============================================================================
