---------------------------- MODULE ObserveServer ----------------------------
(* Implementation-shaped model of aiocoap's Observe server side:             *)
(*   interfaces.ObservableResource._render_to_pipe  (first response with     *)
(*     Observe 0, then one iteration per wake-up of the lossy single-slot    *)
(*     trigger future: a burst of triggers inside one callback coalesces     *)
(*     into one notification rendered after the burst; an unsuccessful or    *)
(*     is_last response ends the loop; `finally' runs the cancellation       *)
(*     callback),                                                            *)
(*   resource.ObservableResource  (observer set, update_observation_count),  *)
(*   TokenManager.process_request (a new request on (token, remote) stops    *)
(*     the old pipe), dispatch_error and shutdown (stop every pipe of the    *)
(*     remote / of the context),                                             *)
(*   MessageManager: piggy-backed first response, CON notifications with     *)
(*     retransmission and NSTART = 1 (a CON to a remote with an open         *)
(*     exchange waits in the per-remote backlog), _remove_exchange (RST      *)
(*     calls the message-error monitor = the pipe's stopper), _retransmit    *)
(*     giving up (drops the backlog, dispatch_error), deduplication of a     *)
(*     repeated request datagram (stored ACK replayed).                      *)
(* One action per event-loop callback chain that runs without virtual time   *)
(* passing.  Observer o has token Tok(o) and sits on endpoint Rem(o): its    *)
(* own endpoint o, or -- SharedEndpoint = TRUE -- endpoint 1 for all of     *)
(* them (several registrations of one endpoint on different tokens: they    *)
(* share the exchange, the backlog, the time-out and the transport error,   *)
(* but not Reset, re-registration or the queued responses of each other).   *)
(* The environment: the observers (register, re-register, deregister,       *)
(* duplicate datagram, unrelated request on a fresh token, ACK, RST,        *)
(* silence), the application (bursts of state changes, plain / explicit /   *)
(* unsuccessful / last), ICMP errors, shutdown, the clock.                  *)
(*                                                                          *)
(* Rendering a notification is two steps when SlowRender is TRUE: the       *)
(* renderer samples the state (event "render") and suspends; Release lets   *)
(* it produce the response.  Whatever happens in between -- further state   *)
(* changes, whose trigger lands in the slot that was re-armed BEFORE the    *)
(* render started, Reset, re-registration, time-out, shutdown -- is         *)
(* explored; after the response the loop finds the slot full and goes       *)
(* round again, so the change that fell into the window is not forgotten.   *)
(*                                                                          *)
(* DropQueuedOnStop tells which version of the code is modelled: FALSE is    *)
(* the pinned tree, where notifications waiting in the backlog survive the   *)
(* end of their registration (TLC finds C08_SilentAfterEnd false); TRUE is   *)
(* the repaired design.  BacklogCap > 0 is another known-bad variant: a      *)
(* bounded backlog that drops the NEWEST notification when it is full (TLC  *)
(* must find C08_LatestEventuallySent false); 0 = unbounded, the code.      *)
EXTENDS ObserveServerObs, TLC

CONSTANTS NObservers, MaxChanges, MaxEnv, MaxSilence, AckTimeout, MaxTime, DropQueuedOnStop,
          SlowRender,     \* TRUE: the renderer of a notification suspends after sampling the state
          RearmBeforeRender, \* TRUE: the code (the trigger slot is re-armed before render() is awaited);
                             \* FALSE: re-armed after it -- a trigger that lands during the rendering is
                             \* overwritten and forgotten (known-bad variant: TLC must find
                             \* C08_LatestEventuallySent false, which shows that the window is explored)
          SharedEndpoint, \* TRUE: all observers are tokens of endpoint 1
          BacklogCap      \* 0: unbounded (the code); n > 0: known-bad variant, see above

Observers == 1..NObservers
Rem(o) == IF SharedEndpoint THEN 1 ELSE o
Remotes == {Rem(o) : o \in Observers}
Tok(o) == CASE o = 1 -> "a1" [] o = 2 -> "a2" [] OTHER -> "a3"
Mid0 == 100                      \* the server's first message ID
ReqMid(r, k) == 1000 * r + k     \* the k-th request datagram of endpoint r

VARIABLES now,
          chg,      \* state changes so far = the resource's state number
          nreg,     \* registrations accepted so far
          reg,      \* o -> running render task of the registration: [g, num (next_observation_number), late, con]
          ex,       \* r -> open CON exchange with that remote (_active_exchanges + retransmission timer)
          bl,       \* r -> _backlogs[remote]: notifications waiting behind the open exchange
          nextMid,  \* MessageManager.message_id
          pmid,     \* r -> request datagrams sent by endpoint r
          lastReq,  \* o -> last request datagram and the reply stored for its duplicates (_recent_messages)
          nsent,    \* r -> distinct separate (CON/NON) responses put on the wire for r
          lastNon,  \* r -> [idx, mid] of the last NON notification (target of an unjudged Reset)
          rs,       \* o -> suspended render of the task: [on, st (the state it sampled)]
          slot,     \* o -> servobs._trigger while the task is busy rendering: [full, v (the latest trigger value)]
          shut, fin, benv, bsil, emit, obs

vars == <<now, chg, nreg, reg, ex, bl, nextMid, pmid, lastReq, nsent, lastNon, rs, slot, shut, fin, benv, bsil, emit, obs>>

NoReg == [g |-> 0, num |-> 0, late |-> FALSE, con |-> FALSE]
NoNtf == [o |-> 0, g |-> 0, ty |-> "", mid |-> 0, code |-> 0, ob |-> -1, st |-> -1, x |-> ""]
NoEx == [on |-> FALSE, due |-> 0, retr |-> 0, tmo |-> 0, n |-> NoNtf, idx |-> 0]
NoRs == [on |-> FALSE, st |-> 0]
NoVal == [kind |-> "", code |-> 0, st |-> 0]
NoSlot == [full |-> FALSE, v |-> NoVal]
NewEx(n, idx) == [on |-> TRUE, due |-> now + AckTimeout, retr |-> 0, tmo |-> AckTimeout, n |-> n, idx |-> idx]

EvAt(t, k, r, ty, mid, tok, cls, code, ob, st, g, n, x) ==
  [k |-> k, t |-> t, r |-> r, ty |-> ty, mid |-> mid, tok |-> tok, cls |-> cls, code |-> code,
   dig |-> IF k \in {"rx", "tx"} THEN 1 ELSE 0, obs |-> ob, st |-> st, g |-> g, n |-> n, x |-> x]
Ev(k, r, ty, mid, tok, cls, code, ob, st, g, n, x) == EvAt(now, k, r, ty, mid, tok, cls, code, ob, st, g, n, x)
Plain(k, r, tok, st, g, n, x) == Ev(k, r, "", 0, tok, "", 0, -1, st, g, n, x)

TxNtf(n) == Ev("tx", Rem(n.o), n.ty, n.mid, Tok(n.o), "resp", n.code, n.ob, n.st, n.g, 0, n.x)
\* the finally clause of the render task: cancellation callback -> _observations.remove, update_observation_count
StopEvs(o, g, c) == <<Plain("cancelcb", Rem(o), Tok(o), -1, g, 0, ""), Plain("obscount", 0, "", -1, 0, c - 1, "")>>

Count(rg) == Cardinality({o \in Observers : rg[o].g # 0})
Drop(q, g) == SelectSeq(q, LAMBDA n : n.g # g)
Step(es) == /\ emit' = es /\ obs' = ObsFold(obs, es)

\* the running tasks of the observers in S are stopped one after the other (dispatch_error, shutdown)
RECURSIVE StopSet(_, _, _, _)
StopSet(o, S, rg, c) == IF o > NObservers THEN << >>
                        ELSE IF o \notin S \/ rg[o].g = 0 THEN StopSet(o + 1, S, rg, c)
                        ELSE StopEvs(o, rg[o].g, c) \o StopSet(o + 1, S, rg, c - 1)
On(r) == {o \in Observers : Rem(o) = r}

Init == /\ now = 0 /\ chg = 0 /\ nreg = 0
        /\ reg = [o \in Observers |-> NoReg] /\ ex = [r \in Remotes |-> NoEx] /\ bl = [r \in Remotes |-> << >>]
        /\ nextMid = Mid0 /\ pmid = [r \in Remotes |-> 0]
        /\ lastReq = [o \in Observers |-> [rx |-> << >>, reply |-> << >>]]
        /\ nsent = [r \in Remotes |-> 0] /\ lastNon = [r \in Remotes |-> [idx |-> 0, mid |-> 0]]
        /\ rs = [o \in Observers |-> NoRs] /\ slot = [o \in Observers |-> NoSlot]
        /\ shut = FALSE /\ fin = FALSE /\ benv = MaxEnv /\ bsil = MaxSilence
        /\ emit = << >> /\ obs = ObsInit

TimerDue == \E r \in Remotes : ex[r].on /\ ex[r].due <= now

(* -- a new request datagram of observer o on its token ---------------------- *)
(*    kind "reg": GET Observe=0;  "dereg": GET Observe=1;  "plain": GET        *)
Request(o, ty, kind) ==
  /\ ~shut /\ ~fin /\ benv > 0
  /\ LET r == Rem(o)
         mid == ReqMid(r, pmid[r])
         ob == CASE kind = "reg" -> 0 [] kind = "dereg" -> 1 [] OTHER -> -1
         old == reg[o].g
         c0 == Count(reg)
         c1 == IF old # 0 THEN c0 - 1 ELSE c0
         g == IF kind = "reg" THEN nreg + 1 ELSE 0
         rty == IF ty = "CON" THEN "ACK" ELSE "NON"         \* immediate response: piggy-backed on the ACK
         rmid == IF ty = "CON" THEN mid ELSE nextMid
         mk(t) == <<EvAt(t, "rx", r, ty, mid, Tok(o), "req", 1, ob, -1, 0, 0, "obs"),
                    EvAt(t, "tx", r, rty, rmid, Tok(o), "resp", 69, IF kind = "reg" THEN 0 ELSE -1, chg, g, 0, "S")>>
         regEvs == IF kind = "reg"
                     THEN <<Plain("accept", r, Tok(o), -1, g, c1, ""), Plain("obscount", 0, "", -1, 0, c1 + 1, "")>>
                     ELSE << >>
     IN /\ Step(<<mk(now)[1]>>
                \o (IF old # 0 THEN StopEvs(o, old, c0) ELSE << >>)      \* the overridden pipe's task is cancelled first
                \o regEvs
                \o <<Plain("render", r, Tok(o), chg, g, 0, "S"), mk(now)[2]>>)
        /\ reg' = [reg EXCEPT ![o] = IF kind = "reg" THEN [g |-> g, num |-> 0, late |-> FALSE, con |-> ty = "CON"] ELSE NoReg]
        /\ nreg' = IF kind = "reg" THEN nreg + 1 ELSE nreg
        /\ nextMid' = IF ty = "CON" THEN nextMid ELSE nextMid + 1
        /\ nsent' = IF ty = "CON" THEN nsent ELSE [nsent EXCEPT ![r] = @ + 1]
        /\ lastNon' = IF ty = "CON" THEN lastNon ELSE [lastNon EXCEPT ![r] = [idx |-> nsent[r] + 1, mid |-> nextMid]]
        \* repaired design: responses to an earlier request on the same token that still wait are void
        \* (those on the endpoint's other tokens stay)
        /\ bl' = IF DropQueuedOnStop THEN [bl EXCEPT ![r] = SelectSeq(@, LAMBDA n : n.o # o)] ELSE bl
        /\ lastReq' = [lastReq EXCEPT ![o] = [rx |-> <<mk(0)[1]>>, reply |-> IF ty = "CON" THEN <<mk(0)[2]>> ELSE << >>]]
        /\ pmid' = [pmid EXCEPT ![r] = @ + 1]
        \* a suspended render of the overridden pipe is cancelled with its task (the first rendering of
        \* the new registration is not suspended: its response is the piggy-backed one)
        /\ rs' = [rs EXCEPT ![o] = NoRs] /\ slot' = [slot EXCEPT ![o] = NoSlot]
  /\ benv' = benv - 1
  /\ UNCHANGED <<now, chg, ex, shut, fin, bsil>>

(* -- the last request datagram of o arrives again (deduplication) ------------ *)
DupRequest(o) ==
  /\ ~shut /\ ~fin /\ benv > 0 /\ lastReq[o].rx # << >>
  /\ Step(<<[lastReq[o].rx[1] EXCEPT !.t = now]>>
          \o [i \in 1..Len(lastReq[o].reply) |-> [lastReq[o].reply[i] EXCEPT !.t = now]])
  /\ benv' = benv - 1
  /\ UNCHANGED <<now, chg, nreg, reg, ex, bl, nextMid, pmid, lastReq, nsent, lastNon, rs, slot, shut, fin, bsil>>

(* -- an unrelated request of endpoint r: plain GET on a fresh token ----------- *)
(*    (nothing that waits for r is touched by it)                               *)
Unrelated(r, ty) ==
  /\ ~shut /\ ~fin /\ benv > 0
  /\ LET mid == ReqMid(r, pmid[r]) IN
     Step(<<Ev("rx", r, ty, mid, "c1", "req", 1, -1, -1, 0, 0, "obs"),
            Plain("render", r, "c1", chg, 0, 0, "S"),
            Ev("tx", r, IF ty = "CON" THEN "ACK" ELSE "NON", IF ty = "CON" THEN mid ELSE nextMid, "c1", "resp", 69, -1, chg, 0, 0, "S")>>)
  /\ nextMid' = IF ty = "CON" THEN nextMid ELSE nextMid + 1
  /\ nsent' = IF ty = "CON" THEN nsent ELSE [nsent EXCEPT ![r] = @ + 1]
  /\ pmid' = [pmid EXCEPT ![r] = @ + 1]
  /\ benv' = benv - 1
  /\ UNCHANGED <<now, chg, nreg, reg, ex, bl, lastReq, lastNon, rs, slot, shut, fin, bsil>>

(* -- a burst of k state changes inside one callback --------------------------- *)
(*    x = ""       updated_state()                 -> trigger(None)             *)
(*    x = "ok"     trigger(2.05 explicit)      x = "unsucc"  trigger(4.04)      *)
(*    x = "last"   trigger(None, is_last=True)                                  *)
(*    every render task wakes once afterwards and sees only the last trigger.   *)
\* the task puts one notification on the wire (or into the backlog) and, if it is the last, runs its finally
Emit(o, acc, kind, code, st, isLast) ==
  LET R == acc.reg[o]
      r == Rem(o)
      n == [o |-> o, g |-> R.g, ty |-> IF R.con THEN "CON" ELSE "NON", mid |-> acc.mid, code |-> code,
            ob |-> IF isLast THEN -1 ELSE R.num + 1, st |-> st, x |-> kind]
      queued == R.con /\ acc.ex[r].on           \* NSTART = 1: waits behind the open exchange
      full == queued /\ BacklogCap > 0 /\ Len(acc.bl[r]) >= BacklogCap      \* known-bad variant: the newest is dropped
  IN [evs |-> acc.evs \o (IF queued THEN << >> ELSE <<TxNtf(n)>>) \o (IF isLast THEN StopEvs(o, R.g, acc.cnt) ELSE << >>),
      cnt |-> IF isLast THEN acc.cnt - 1 ELSE acc.cnt,
      mid |-> acc.mid + 1,
      reg |-> [acc.reg EXCEPT ![o] = IF isLast THEN NoReg ELSE [R EXCEPT !.num = R.num + 1]],
      ex |-> IF queued \/ ~R.con THEN acc.ex ELSE [acc.ex EXCEPT ![r] = NewEx(n, acc.nsent[r] + 1)],
      bl |-> IF queued /\ ~full THEN [acc.bl EXCEPT ![r] = Append(acc.bl[r], n)] ELSE acc.bl,
      nsent |-> IF queued THEN acc.nsent ELSE [acc.nsent EXCEPT ![r] = acc.nsent[r] + 1],
      lastNon |-> IF R.con THEN acc.lastNon ELSE [acc.lastNon EXCEPT ![r] = [idx |-> acc.nsent[r] + 1, mid |-> acc.mid]],
      rs |-> [acc.rs EXCEPT ![o] = NoRs],
      slot |-> IF isLast THEN [acc.slot EXCEPT ![o] = NoSlot] ELSE acc.slot]

\* the task wakes with trigger value v (the slot has been re-armed): an explicit response is sent as it
\* is; otherwise the resource is rendered -- at once, or (SlowRender) sampled now and produced at Release
Serve(o, acc, v, stNow) ==
  LET R == acc.reg[o]
      rend == <<Plain("render", Rem(o), Tok(o), stNow, R.g, 0, "S")>>
  IN IF v.kind = "E" THEN Emit(o, acc, "E", v.code, v.st, R.late \/ v.code = 132)
     ELSE IF SlowRender
       THEN [acc EXCEPT !.evs = acc.evs \o rend, !.rs = [acc.rs EXCEPT ![o] = [on |-> TRUE, st |-> stNow]]]
       ELSE Emit(o, [acc EXCEPT !.evs = acc.evs \o rend], "S", 69, stNow, R.late)

ChgOne(o, acc, st1, x) ==
  IF acc.reg[o].g = 0 THEN acc ELSE
  LET v == IF x = "ok" THEN [kind |-> "E", code |-> 69, st |-> st1]
           ELSE IF x = "unsucc" THEN [kind |-> "E", code |-> 132, st |-> st1]
           ELSE [kind |-> "S", code |-> 0, st |-> 0]
      acc1 == [acc EXCEPT !.reg = [acc.reg EXCEPT ![o] = [acc.reg[o] EXCEPT !.late = acc.reg[o].late \/ x = "last"]]]
  IN IF acc.rs[o].on
       THEN \* the task is inside render(): the trigger lands in the re-armed slot (latest value wins)
            [acc1 EXCEPT !.slot = [acc.slot EXCEPT ![o] = [full |-> TRUE, v |-> v]]]
       ELSE Serve(o, acc1, v, st1)

\* the observations are triggered, and their tasks wake, in the order in which they were registered
RECURSIVE ChgFold(_, _, _, _, _)
ChgFold(g, rg0, acc, st1, x) ==
  IF g > nreg THEN acc
  ELSE LET S == {o \in Observers : rg0[o].g = g} IN
       ChgFold(g + 1, rg0, IF S = {} THEN acc ELSE ChgOne(CHOOSE o \in S : TRUE, acc, st1, x), st1, x)

Change(k, x) ==
  /\ ~shut /\ ~fin /\ chg + k <= MaxChanges
  /\ LET acc0 == [evs |-> [i \in 1..k |-> Plain("change", 0, "", chg + i, 0, 0, x)],
                  cnt |-> Count(reg), mid |-> nextMid, reg |-> reg, ex |-> ex, bl |-> bl,
                  nsent |-> nsent, lastNon |-> lastNon, rs |-> rs, slot |-> slot]
         acc == ChgFold(1, reg, acc0, chg + k, x)
     IN /\ Step(acc.evs)
        /\ reg' = acc.reg /\ ex' = acc.ex /\ bl' = acc.bl /\ nsent' = acc.nsent /\ lastNon' = acc.lastNon
        /\ nextMid' = acc.mid /\ rs' = acc.rs /\ slot' = acc.slot
  /\ chg' = chg + k
  /\ UNCHANGED <<now, nreg, pmid, lastReq, shut, fin, benv, bsil>>

(* -- the suspended renderer of o's task is released: it produces the response   *)
(*    for the state it sampled; the loop then looks at the slot again ----------- *)
Release(o) ==
  /\ ~fin /\ rs[o].on
  /\ LET R == reg[o]
         acc0 == [evs |-> <<Plain("release", Rem(o), Tok(o), -1, R.g, 0, "")>>,
                  cnt |-> Count(reg), mid |-> nextMid, reg |-> reg, ex |-> ex, bl |-> bl,
                  nsent |-> nsent, lastNon |-> lastNon, rs |-> rs, slot |-> slot]
         a1 == Emit(o, acc0, "S", 69, rs[o].st, R.late)          \* is_last is looked at after the rendering
         acc == IF R.late \/ ~slot[o].full THEN a1
                ELSE IF ~RearmBeforeRender THEN [a1 EXCEPT !.slot = [a1.slot EXCEPT ![o] = NoSlot]]
                ELSE Serve(o, [a1 EXCEPT !.slot = [a1.slot EXCEPT ![o] = NoSlot]], slot[o].v, chg)
     IN /\ Step(acc.evs)
        /\ reg' = acc.reg /\ ex' = acc.ex /\ bl' = acc.bl /\ nsent' = acc.nsent /\ lastNon' = acc.lastNon
        /\ nextMid' = acc.mid /\ rs' = acc.rs /\ slot' = acc.slot
  /\ UNCHANGED <<now, chg, nreg, pmid, lastReq, shut, fin, benv, bsil>>

(* -- _continue_backlog: the next waiting notification goes out ----------------- *)
Continue(r, pre, post, q) ==
  IF q = << >>
    THEN /\ ex' = [ex EXCEPT ![r] = NoEx] /\ bl' = [bl EXCEPT ![r] = << >>] /\ nsent' = nsent
         /\ Step(pre \o post)
    ELSE /\ ex' = [ex EXCEPT ![r] = NewEx(Head(q), nsent[r] + 1)] /\ bl' = [bl EXCEPT ![r] = Tail(q)]
         /\ nsent' = [nsent EXCEPT ![r] = @ + 1]
         /\ Step(pre \o <<TxNtf(Head(q))>> \o post)

(* -- the endpoint acknowledges the open confirmable notification ------------- *)
Ack(r) ==
  /\ ~shut /\ ~fin /\ ex[r].on
  /\ Continue(r, <<Ev("rx", r, "ACK", ex[r].n.mid, "", "empty", 0, -1, -1, 0, ex[r].idx, "")>>, << >>, bl[r])
  /\ UNCHANGED <<now, chg, nreg, reg, nextMid, pmid, lastReq, lastNon, rs, slot, shut, fin, benv, bsil>>

(* -- ... or rejects it: _remove_exchange calls the message-error monitor,      *)
(*    i.e. the stopper of the pipe that sent it (and of no other pipe) -------- *)
Rst(r) ==
  /\ ~shut /\ ~fin /\ ex[r].on
  /\ LET g == ex[r].n.g
         o == ex[r].n.o
         hit == g # 0 /\ reg[o].g = g             \* that pipe is still the running one
     IN /\ Continue(r, <<Ev("rx", r, "RST", ex[r].n.mid, "", "empty", 0, -1, -1, 0, ex[r].idx, "")>>,
                    IF hit THEN StopEvs(o, g, Count(reg)) ELSE << >>,
                    IF DropQueuedOnStop THEN Drop(bl[r], g) ELSE bl[r])
        /\ reg' = IF hit THEN [reg EXCEPT ![o] = NoReg] ELSE reg
        /\ rs' = IF hit THEN [rs EXCEPT ![o] = NoRs] ELSE rs
        /\ slot' = IF hit THEN [slot EXCEPT ![o] = NoSlot] ELSE slot
  /\ UNCHANGED <<now, chg, nreg, nextMid, pmid, lastReq, lastNon, shut, fin, benv, bsil>>

(* -- a Reset answering a NON notification: no exchange, nothing happens ------ *)
RstNon(r) ==
  /\ ~shut /\ ~fin /\ benv > 0 /\ lastNon[r].idx # 0
  /\ Step(<<Ev("rx", r, "RST", lastNon[r].mid, "", "empty", 0, -1, -1, 0, lastNon[r].idx, "")>>)
  /\ benv' = benv - 1
  /\ UNCHANGED <<now, chg, nreg, reg, ex, bl, nextMid, pmid, lastReq, nsent, lastNon, rs, slot, shut, fin, bsil>>

\* every pipe of endpoint r is stopped (dispatch_error)
StopRemote(r, pre) ==
  /\ Step(pre \o StopSet(1, On(r), reg, Count(reg)))
  /\ ex' = [ex EXCEPT ![r] = NoEx] /\ bl' = [bl EXCEPT ![r] = << >>]
  /\ reg' = [o \in Observers |-> IF Rem(o) = r THEN NoReg ELSE reg[o]]
  /\ rs' = [o \in Observers |-> IF Rem(o) = r THEN NoRs ELSE rs[o]]
  /\ slot' = [o \in Observers |-> IF Rem(o) = r THEN NoSlot ELSE slot[o]]

(* -- retransmission timer of the open exchange (_retransmit) ------------------ *)
TimerRetransmit(r) ==
  /\ ~fin /\ ex[r].on /\ ex[r].due = now
  /\ LET x == ex[r] IN
     IF x.retr < MaxRetransmit
       THEN /\ Step(<<TxNtf(x.n)>>)
            /\ ex' = [ex EXCEPT ![r] = [x EXCEPT !.retr = x.retr + 1, !.tmo = 2 * x.tmo, !.due = now + 2 * x.tmo]]
            /\ UNCHANGED <<reg, bl, rs, slot>>
       ELSE \* give up: the backlog of the remote is dropped, dispatch_error stops every pipe of the remote
            StopRemote(r, << >>)
  /\ bsil' = IF bsil > 0 THEN bsil - 1 ELSE 0
  /\ UNCHANGED <<now, chg, nreg, nextMid, pmid, lastReq, nsent, lastNon, shut, fin, benv>>

(* -- ICMP error reported for remote r (MessageManager.dispatch_error) --------- *)
Err(r) ==
  /\ ~shut /\ ~fin /\ benv > 0
  /\ StopRemote(r, <<Plain("err", r, "", -1, 0, 0, "")>>)
  /\ benv' = benv - 1
  /\ UNCHANGED <<now, chg, nreg, nextMid, pmid, lastReq, nsent, lastNon, shut, fin, bsil>>

(* -- Context.shutdown: every pipe stopped, every timer cancelled -------------- *)
Shutdown ==
  /\ ~shut /\ ~fin /\ benv > 0
  /\ Step(<<Plain("shutdown", 0, "", -1, 0, 0, "")>> \o StopSet(1, Observers, reg, Count(reg))
          \o <<Plain("shutdown-done", 0, "", -1, 0, 0, "ok")>>)
  /\ shut' = TRUE
  /\ reg' = [o \in Observers |-> NoReg] /\ ex' = [r \in Remotes |-> NoEx] /\ bl' = [r \in Remotes |-> << >>]
  /\ rs' = [o \in Observers |-> NoRs] /\ slot' = [o \in Observers |-> NoSlot]
  /\ benv' = benv - 1
  /\ UNCHANGED <<now, chg, nreg, nextMid, pmid, lastReq, nsent, lastNon, fin, bsil>>

(* -- the clock: an endpoint may stay silent across at most MaxSilence timers -- *)
Tick == /\ ~fin /\ ~TimerDue /\ now < MaxTime
        /\ \E r \in Remotes : ex[r].on           \* idle waiting changes nothing: time passes only towards a timer
        /\ Cardinality({r \in Remotes : ex[r].on /\ ex[r].due = now + 1}) <= bsil
        /\ now' = now + 1 /\ emit' = << >>
        /\ UNCHANGED <<chg, nreg, reg, ex, bl, nextMid, pmid, lastReq, nsent, lastNon, rs, slot, shut, fin, benv, bsil, obs>>

(* -- quiescence: nothing in flight, no timer armed, no rendering suspended ---- *)
End == /\ ~fin /\ (\A r \in Remotes : ~ex[r].on) /\ (\A o \in Observers : ~rs[o].on)
       /\ Step(<<Plain("end", 0, "", -1, 0, 0, "")>>)
       /\ fin' = TRUE
       /\ UNCHANGED <<now, chg, nreg, reg, ex, bl, nextMid, pmid, lastReq, nsent, lastNon, rs, slot, shut, benv, bsil>>

Next == \/ \E r \in Remotes : TimerRetransmit(r)
        \* (observers are interchangeable: observer o + 1 does not appear before observer o)
        \/ (~TimerDue /\ \E o \in Observers, ty \in {"CON", "NON"} :
               (IF o = 1 THEN TRUE ELSE lastReq[o - 1].rx # << >>) /\ Request(o, ty, "reg"))
        \/ (~TimerDue /\ \E o \in Observers, ty \in {"CON", "NON"} : reg[o].g # 0 /\ Request(o, ty, "dereg"))
        \/ (~TimerDue /\ \E o \in Observers : DupRequest(o))
        \* (an unrelated request matters where something of the endpoint waits in the backlog; explored in the
        \* configurations with several tokens per endpoint)
        \/ (~TimerDue /\ SharedEndpoint /\ \E r \in Remotes : bl[r] # << >> /\ Unrelated(r, "CON"))
        \/ (~TimerDue /\ \E k \in 1..MaxChanges, x \in {"", "ok", "unsucc", "last"} : Change(k, x))
        \/ (~TimerDue /\ \E r \in Remotes : Ack(r) \/ Rst(r) \/ RstNon(r))
        \/ (~TimerDue /\ \E o \in Observers : Release(o))
        \/ (~TimerDue /\ \E r \in Remotes : Err(r))
        \/ (~TimerDue /\ Shutdown)
        \/ Tick
        \/ End

Spec == Init /\ [][Next]_vars

NoBad == obs.bad = {}
\* state-based forms of the bookkeeping clauses
CountMatches == obs.cnt = Count(reg)
View == <<now, chg, nreg, reg, ex, bl, nextMid, pmid, lastReq, nsent, lastNon, rs, slot, shut, fin, benv, bsil, obs>>
=============================================================================
