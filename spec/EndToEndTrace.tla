---------------------------- MODULE EndToEndTrace ----------------------------
(* Batch validation of recorded two-endpoint executions against EndToEndObs. *)
EXTENDS EndToEndObs, Json, IOUtils, TLC, TLCExt

Traces == JsonDeserialize(IOEnv.TRACE_FILE)

VARIABLES tid, l, obs, firstBad
tvars == <<tid, l, obs, firstBad>>

TInit == /\ tid \in 1..Len(Traces) /\ l = 1 /\ obs = ObsInit /\ firstBad = {}

TNext == /\ l <= Len(Traces[tid])
         /\ obs' = ObsEvent(obs, Traces[tid][l])
         /\ firstBad' = firstBad \cup {<<c, l>> : c \in obs'.bad \ obs.bad}
         /\ l' = l + 1
         /\ UNCHANGED tid

TSpec == TInit /\ [][TNext]_tvars

Report == (l = Len(Traces[tid]) + 1) => PrintT(<<"TRACE", tid, l - 1, firstBad>>)
=============================================================================
