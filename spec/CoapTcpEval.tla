----------------------------- MODULE CoapTcpEval -----------------------------
(* TLC as evaluator and judge for property C15 (no behaviours: everything   *)
(* happens while TLC checks the ASSUMEs).  The JSON file named by the       *)
(* environment variable TRACE_FILE holds                                    *)
(*                                                                          *)
(*   enc: messages to be framed.  TLC prints what RFC 8323 section 3.2 puts *)
(*        in front of the payload bytes (<<"ENC", i, bytes>>); checks/c15.py*)
(*        compares that with tcp._serialize / what a connection writes, and *)
(*        builds the peer's byte streams from it.                           *)
(*   rx:  executions recorded from the real TcpConnection: the stream frame *)
(*        by frame, the chunking, and after every chunk what was handed to  *)
(*        the token manager, what was written, whether the transport was    *)
(*        closed, and the state of the pending requests.  TLC runs the      *)
(*        receiver of CoapTcpFrame over the same chunks and evaluates the   *)
(*        clauses of the property after every chunk                         *)
(*        (<<"CASE", i, violated clauses, first bad step, expectation>>).   *)
EXTENDS CoapTcpFrame, Json, IOUtils, TLC

Data == JsonDeserialize(IOEnv.TRACE_FILE)
Enc == Data.enc
Rx == Data.rx

\* ------------------------------------------------------------- encoding
\* e.tkl is the value written into the TKL nibble (normally Len(e.tok));
\* e.raw = TRUE: e.ob is the option part as opaque bytes, else e.opts is encoded
EncHead(e) ==
  LET ob == IF e.raw THEN e.ob ELSE EncOpts(0, e.opts)
      n  == Len(ob) + (IF e.plen = 0 THEN 0 ELSE 1 + e.plen)
      l  == EncLen(n)
  IN <<l[1] * 16 + e.tkl>> \o l[2] \o <<e.code>> \o e.tok \o ob
     \o (IF e.plen = 0 THEN << >> ELSE <<255>>)

\* --------------------------------------------------------------- judging
Min(a, b) == IF a < b THEN a ELSE b
Cat(f(_), k) == Flatten([i \in 1..k |-> f(i)])

FrameCode(b) == LET h == Header(b) IN IF h.ok /\ Len(b) >= h.off THEN b[h.off] ELSE 999
RECURSIVE EndOf(_, _)
EndOf(c, i) == IF i = 0 THEN 0 ELSE EndOf(c, i - 1) + Len(c.frames[i].b)
CsmPossible(c, pos) == \E i \in 1..Len(c.frames) : EndOf(c, i) <= pos /\ FrameCode(c.frames[i].b) = CSM

ObsMsg(d) == Msg(d.code, d.tok, d.opts, d.pay)

\* model states after each observed chunk; where the statement leaves the
\* reaction open the model follows what the endpoint was seen to do
RECURSIVE States(_, _, _, _, _)
States(c, stream, k, st, pos) ==
  IF k > Len(c.obs.steps) THEN << >>
  ELSE LET n  == c.cuts[k]
           s2 == RecvChunk(st, SubSeq(stream, pos + 1, pos + n),
                           c.obs.steps[k].closed /\ c.obs.steps[k].exc = "", c.maxmsg, c.ptoks)
       IN <<s2>> \o States(c, stream, k + 1, s2, pos + n)

Pongs(msgs) == LET p == SelectSeq(msgs, LAMBDA m : m.code = PONG) IN [i \in 1..Len(p) |-> p[i].tok]
ExpPongToks(wr) == LET p == SelectSeq(wr, LAMBDA w : w[1] = "pong") IN [i \in 1..Len(p) |-> p[i][2]]

StepBad(c, stream, k, s, pos) ==
  LET os     == c.obs.steps[k]
      judged == s.done = "no"
      odr    == Cat(LAMBDA i : c.obs.steps[i].disp, k)
      od     == [i \in 1..Len(odr) |-> ObsMsg(odr[i])]
      exp    == s.disp
      m      == Min(Len(od), Len(exp))
      diff   == {i \in 1..m : od[i] # exp[i]}
      p      == IF diff = {} THEN m + 1 ELSE CHOOSE i \in diff : \A j \in diff : i <= j
      dOK    == (IF judged THEN Len(od) = Len(exp) ELSE Len(od) >= Len(exp)) /\ diff = {}
      extra  == p <= Len(od)
      csmP   == CsmPossible(c, pos)
      howOK  == \A i \in 1..Len(odr) : odr[i].how = (IF IsResp(odr[i].code) THEN "resp" ELSE "req")
      wbytes == Cat(LAMBDA i : c.obs.steps[i].wr, k)
      ow     == ParseFrames(wbytes)
      canon  == ow.rest = << >> /\ Flatten([i \in 1..Len(ow.msgs) |-> Frame(ow.msgs[i])]) = wbytes
      po     == Pongs(ow.msgs)
      pe     == ExpPongToks(s.wr)
      others == SelectSeq(ow.msgs, LAMBDA x : x.code \notin {PONG, ABORT})
      aborted == \E i \in 1..Len(ow.msgs) : ow.msgs[i].code = ABORT
      last   == k = Len(c.obs.steps)
      \* the connection was closed (or data_received raised) although the model
      \* is still judging: what would the rest of the stream have brought?
      cutoff == last /\ judged /\ (os.closed \/ os.exc # "") /\ pos < Len(stream)
      rest   == RecvChunk(s, SubSeq(stream, pos + 1, Len(stream)), FALSE, c.maxmsg, c.ptoks)
  IN (IF dOK /\ howOK THEN {}
      ELSE IF extra /\ od[p].code = EMPTY THEN {"C15_EmptyIgnored"}
      ELSE IF extra /\ ~csmP THEN {"C15_NoDispatchBeforeCsm"}
      ELSE {"C15_DispatchIndependentOfChunking"})
     \cup (IF od # << >> /\ ~csmP THEN {"C15_NoDispatchBeforeCsm"} ELSE {})
     \cup (IF canon THEN {} ELSE {"C15_FrameIs8323"})
     \cup (IF (IF judged THEN po = pe ELSE IsPrefix(pe, po)) THEN {} ELSE {"C15_PingPong"})
     \cup (IF s.done = "fatal" /\ ~(aborted /\ os.closed) THEN {"C15_FatalAborts"} ELSE {})
     \cup (IF judged /\ others # << >>
             THEN (IF s.nempty > 0 THEN {"C15_EmptyIgnored"} ELSE {"DRIFT_unexpected_output"}) ELSE {})
     \cup (IF s.done = "peer" /\ \E j \in DOMAIN s.pend : s.pend[j] = "neterr" /\ os.pend[j] # "neterr"
             THEN {"C15_ReleaseAbortFailPending"} ELSE {})
     \cup (IF judged /\ \E j \in DOMAIN s.pend : s.pend[j] # os.pend[j] THEN {"DRIFT_pending_requests"} ELSE {})
     \cup (IF cutoff
             THEN (IF Len(rest.disp) > Len(exp) \/ Len(rest.wr) > Len(s.wr) \/ rest.done = "fatal"
                     THEN {"C15_DispatchIndependentOfChunking"} ELSE {"DRIFT_closed_without_cause"})
             ELSE {})
     \cup (IF os.exc # "" THEN {"NOTE_exception"} ELSE {})

RECURSIVE PosAfter(_, _)
PosAfter(c, k) == IF k = 0 THEN 0 ELSE PosAfter(c, k - 1) + c.cuts[k]

Summary(s) == [ndisp |-> Len(s.disp), codes |-> [i \in 1..Len(s.disp) |-> s.disp[i].code],
               wr |-> s.wr, done |-> s.done, stopAt |-> s.stopAt, csm |-> s.csm, pend |-> s.pend]

IsClause(x) == x \notin {"NOTE_exception", "DRIFT_unexpected_output", "DRIFT_pending_requests", "DRIFT_closed_without_cause"}

Judge(c) ==
  LET stream == Flatten([i \in 1..Len(c.frames) |-> c.frames[i].b])
      n      == Len(c.obs.steps)
      sts    == States(c, stream, 1, RxInit(Len(c.ptoks)), 0)
      bad    == [k \in 1..n |-> StepBad(c, stream, k, sts[k], PosAfter(c, k))]
      all    == UNION {bad[k] : k \in 1..n}
      init   == ParseFrames(c.obs.init)
      initOK == init.rest = << >> /\ Flatten([i \in 1..Len(init.msgs) |-> Frame(init.msgs[i])]) = c.obs.init
      hot    == {k \in 1..n : \E x \in bad[k] : IsClause(x)}
      first  == IF hot = {} THEN 0 ELSE CHOOSE k \in hot : \A j \in hot : k <= j
  IN <<all \cup (IF initOK THEN {} ELSE {"C15_FrameIs8323"}), first,
       IF first = 0 THEN (IF n = 0 THEN Summary(RxInit(0)) ELSE Summary(sts[n])) ELSE Summary(sts[first])>>

ASSUME \A i \in 1..Len(Enc) : PrintT(<<"ENC", i, EncHead(Enc[i])>>)
ASSUME \A i \in 1..Len(Rx) : PrintT(<<"CASE", i>> \o Judge(Rx[i]))
=============================================================================
