----------------------------- MODULE CoapTcpEval -----------------------------
(* TLC as evaluator and judge for property C15 (one two-state behaviour per *)
(* item; everything happens while TLC checks the invariant `Report').  The  *)
(* JSON file named by the environment variable TRACE_FILE holds             *)
(*                                                                          *)
(*   enc: messages to be framed.  TLC prints what RFC 8323 section 3.2 puts *)
(*        in front of the payload bytes (<<"ENC", i, bytes>>); checks/c15.py*)
(*        compares that with tcp._serialize / what a connection writes, and *)
(*        builds the peer's byte streams from it.                           *)
(*   rx:  executions recorded from the real TcpConnection: the stream frame *)
(*        by frame, the chunking, and after every chunk what was handed to  *)
(*        the token manager, what was written, whether the transport was    *)
(*        closed, and the state of the pending requests.  TLC runs the      *)
(*        receiver of CoapTcpFrame over the same chunks and evaluates the   *)
(*        clauses of the property after every chunk                         *)
(*        (<<"CASE", i, violated clauses, first bad step, expectation>>).   *)
EXTENDS CoapTcpFrame, Json, IOUtils, TLC

Data == JsonDeserialize(IOEnv.TRACE_FILE)
Enc == Data.enc
Rx == Data.rx

\* ------------------------------------------------------------- encoding
\* e.tkl is the value written into the TKL nibble (normally Len(e.tok));
\* e.raw = TRUE: e.ob is the option part as opaque bytes, else e.opts is encoded
EncHead(e) ==
  LET ob == IF e.raw THEN e.ob ELSE EncOpts(0, e.opts)
      n  == Len(ob) + (IF e.plen = 0 THEN 0 ELSE 1 + e.plen)
      l  == EncLen(n)
  IN <<l[1] * 16 + e.tkl>> \o l[2] \o <<e.code>> \o e.tok \o ob
     \o (IF e.plen = 0 THEN << >> ELSE <<255>>)

\* --------------------------------------------------------------- judging
Min(a, b) == IF a < b THEN a ELSE b

FrameCode(b) == LET h == Header(b) IN IF h.ok /\ Len(b) >= h.off THEN b[h.off] ELSE 999
RECURSIVE EndOf(_, _)
EndOf(c, i) == IF i = 0 THEN 0 ELSE EndOf(c, i - 1) + Len(c.frames[i].b)
CsmPossible(c, pos) == \E i \in 1..Len(c.frames) : EndOf(c, i) <= pos /\ FrameCode(c.frames[i].b) = CSM

ObsMsg(d) == Msg(d.code, d.tok, d.opts, d.pay)

Pongs(msgs) == LET p == SelectSeq(msgs, LAMBDA m : m.code = PONG) IN [i \in 1..Len(p) |-> p[i].tok]
ExpPongToks(wr) == LET p == SelectSeq(wr, LAMBDA w : w[1] = "pong") IN [i \in 1..Len(p) |-> p[i][2]]

\* The clauses after chunk k.  s: model state; pos: bytes delivered; odr / wbytes:
\* everything handed to the token manager / written so far; os: the observed step.
StepBad(c, stream, s, pos, odr, wbytes, os, last) ==
  LET judged == s.done = "no"
      crashed == os.exc # ""          \* data_received raised: the connection is torn down
      od     == [i \in 1..Len(odr) |-> ObsMsg(odr[i])]
      exp    == s.disp
      m      == Min(Len(od), Len(exp))
      diff   == {i \in 1..m : od[i] # exp[i]}
      p      == IF diff = {} THEN m + 1 ELSE CHOOSE i \in diff : \A j \in diff : i <= j
      dOK    == diff = {} /\ (IF crashed THEN Len(od) <= Len(exp)
                              ELSE IF judged THEN Len(od) = Len(exp) ELSE Len(od) >= Len(exp))
      extra  == p <= Len(od)
      csmP   == CsmPossible(c, pos)
      howOK  == \A i \in 1..Len(odr) : odr[i].how = (IF IsResp(odr[i].code) THEN "resp" ELSE "req")
      ow     == ParseFrames(wbytes)
      canon  == ow.rest = << >> /\ Flatten([i \in 1..Len(ow.msgs) |-> Frame(ow.msgs[i])]) = wbytes
      po     == Pongs(ow.msgs)
      pe     == ExpPongToks(s.wr)
      pOK    == IF crashed THEN IsPrefix(po, pe) ELSE IF judged THEN po = pe ELSE IsPrefix(pe, po)
      others == SelectSeq(ow.msgs, LAMBDA x : x.code \notin {PONG, ABORT})
      aborted == \E i \in 1..Len(ow.msgs) : ow.msgs[i].code = ABORT
      \* the connection was closed although the model is still judging: what
      \* would the rest of the stream have brought?
      cutoff == last /\ judged /\ os.closed /\ ~crashed /\ pos < Len(stream)
      rest   == RecvChunk(s, SubSeq(stream, pos + 1, Len(stream)), FALSE, c.maxmsg, c.ptoks)
  IN (IF dOK /\ howOK THEN {}
      ELSE IF extra /\ od[p].code = EMPTY THEN {"C15_EmptyIgnored"}
      ELSE IF extra /\ ~csmP THEN {"C15_NoDispatchBeforeCsm"}
      ELSE {"C15_DispatchIndependentOfChunking"})
     \cup (IF od # << >> /\ ~csmP THEN {"C15_NoDispatchBeforeCsm"} ELSE {})
     \cup (IF canon THEN {} ELSE {"C15_FrameIs8323"})
     \cup (IF pOK THEN {} ELSE {"C15_PingPong"})
     \cup (IF crashed
             \* neither handled nor refused: the frame it choked on was to be
             \* dispatched, or (everything before it having been dispatched) refused with Abort
             THEN (IF s.done = "fatal" /\ od = exp /\ po = pe THEN {"C15_FatalAborts", "NOTE_exception"}
                   ELSE {"C15_DispatchIndependentOfChunking", "NOTE_exception"})
             ELSE {})
     \cup (IF ~crashed /\ s.done = "fatal" /\ ~(aborted /\ os.closed) THEN {"C15_FatalAborts"} ELSE {})
     \cup (IF judged /\ others # << >>
             THEN (IF s.nempty > 0 THEN {"C15_EmptyIgnored"} ELSE {"DRIFT_unexpected_output"}) ELSE {})
     \cup (IF ~crashed /\ s.done = "peer" /\ \E j \in DOMAIN s.pend : s.pend[j] = "neterr" /\ os.pend[j] # "neterr"
             THEN {"C15_ReleaseAbortFailPending"} ELSE {})
     \cup (IF ~crashed /\ judged /\ \E j \in DOMAIN s.pend : s.pend[j] # os.pend[j] THEN {"DRIFT_pending_requests"} ELSE {})
     \cup (IF cutoff
             THEN (IF Len(rest.disp) > Len(exp) \/ Len(rest.wr) > Len(s.wr) \/ rest.done = "fatal"
                     THEN {"C15_DispatchIndependentOfChunking"} ELSE {"DRIFT_closed_without_cause"})
             ELSE {})

Summary(s) == [ndisp |-> Len(s.disp), codes |-> [i \in 1..Len(s.disp) |-> s.disp[i].code],
               wr |-> s.wr, done |-> s.done, stopAt |-> s.stopAt, csm |-> s.csm, pend |-> s.pend]

IsClause(x) == x \notin {"NOTE_exception", "DRIFT_unexpected_output", "DRIFT_pending_requests", "DRIFT_closed_without_cause"}

\* walks the observed chunks: the model receiver takes the same chunk (where
\* the statement leaves the reaction open it follows what the endpoint was seen
\* to do), then the clauses are evaluated.  acc = <<all bad, first bad step, summary there>>
RECURSIVE Walk(_, _, _, _, _, _, _, _)
Walk(c, stream, k, st, pos, odr, wbytes, acc) ==
  IF k > Len(c.obs.steps) THEN acc
  ELSE LET os  == c.obs.steps[k]
           n   == c.cuts[k]
           s2  == RecvChunk(st, SubSeq(stream, pos + 1, pos + n), os.closed /\ os.exc = "", c.maxmsg, c.ptoks)
           od2 == odr \o os.disp
           wb2 == wbytes \o os.wr
           bad == StepBad(c, stream, s2, pos + n, od2, wb2, os, k = Len(c.obs.steps))
           hot == \E x \in bad : IsClause(x)
           acc2 == <<acc[1] \cup bad,
                     IF acc[2] = 0 /\ hot THEN k ELSE acc[2],
                     IF acc[2] = 0 THEN Summary(s2) ELSE acc[3]>>
       \* (the test forces the evaluation of this step before the next one starts)
       IN IF acc2[2] >= 0 /\ acc2[3].ndisp >= 0 THEN Walk(c, stream, k + 1, s2, pos + n, od2, wb2, acc2) ELSE acc2

Judge(c) ==
  LET stream == Flatten([i \in 1..Len(c.frames) |-> c.frames[i].b])
      r      == Walk(c, stream, 1, RxInit(Len(c.ptoks)), 0, << >>, << >>, <<{}, 0, Summary(RxInit(0))>>)
      init   == ParseFrames(c.obs.init)
      initOK == init.rest = << >> /\ Flatten([i \in 1..Len(init.msgs) |-> Frame(init.msgs[i])]) = c.obs.init
  IN <<r[1] \cup (IF initOK THEN {} ELSE {"C15_FrameIs8323"}), r[2], r[3]>>

\* One initial state per item; the work is done while the invariant is checked on
\* its successor (that is: on a TLC worker thread, whose stack size can be set).
VARIABLES tid, ph
evars == <<tid, ph>>
EInit == tid \in 1..(Len(Enc) + Len(Rx)) /\ ph = 0
ENext == ph = 0 /\ ph' = 1 /\ UNCHANGED tid
ESpec == EInit /\ [][ENext]_evars
Report == ph = 1 =>
            IF tid <= Len(Enc) THEN PrintT(<<"ENC", tid, EncHead(Enc[tid])>>)
            ELSE PrintT(<<"CASE", tid - Len(Enc)>> \o Judge(Rx[tid - Len(Enc)]))
=============================================================================
