------------------------ MODULE ResourceDirectoryObs ------------------------
(* Observable-event vocabulary, monitor summary and property clauses for    *)
(* the CoAP resource directory (RFC 9176; aiocoap/cli/rd.py): property C20. *)
(* The summary `obs' is a function of the observable events only (requests  *)
(* sent to the directory, response codes, Location-Path, lookup payloads);  *)
(* its `book' is the specification's own bookkeeping of *successful*        *)
(* writes, from which the expected content of every lookup is derived.      *)
(* The same operators are used by the exhaustive model                      *)
(* (ResourceDirectory.tla) and by trace validation of real executions       *)
(* (ResourceDirectoryTrace.tla).                                            *)
(*                                                                          *)
(* Time is counted in quanta (the driver maps one quantum to 15 s, so that  *)
(* lifetimes >= 60 s and the 15 s grace period are whole numbers).          *)
EXTENDS Naturals, Sequences, FiniteSets

CONSTANTS Grace,       \* Registration.grace_period            (quanta)
          DefaultLt    \* lifetime when no lt is given (90000 s) (quanta)

(* An event is a record                                                      *)
(*  [k, t, src, ep, d, loc, lt, base, x, links, var, vg, cls, n, eps, res]   *)
(*  k     "reg"   POST to the registration resource with ep, d, lt, base,    *)
(*                extra attribute x, link set `links'; loc = the location    *)
(*                returned (0: none)                                         *)
(*        "upd"   POST to location loc       "put"  PUT to location loc      *)
(*        "del"   DELETE of location loc                                     *)
(*        "lkep"  endpoint lookup: eps = set of [loc, ep, d, base, x]        *)
(*        "lkres" resource lookup: res = set of [base, ep, d, link]          *)
(*                n = number of entries in the payload (multiplicity)        *)
(*  t     time of the request (quanta);  src  number of the requesting peer  *)
(*  lt, base, x, links: 0 = not given.  base: 1..99 explicit base URI,       *)
(*        100 + n = base derived from the address of peer n                  *)
(*  var / vg   which valid/invalid form of the request was sent (label and   *)
(*        its group; used only for blame, never to decide success)           *)
(*  cls   class of the response code (2, 4, 5)                               *)

Has(f, k) == k \in DOMAIN f
Put(f, k, v) == [y \in (DOMAIN f) \cup {k} |-> IF y = k THEN v ELSE f[y]]
Drop(f, ks) == [y \in (DOMAIN f) \ ks |-> f[y]]

SrcBase(src) == 100 + src
EffLt(v) == IF v = 0 THEN DefaultLt ELSE v

(* the link sets the driver registers; every link is owned by its (ep, d)    *)
LinksOf(L) == CASE L = 1 -> {"a:r1"}
                [] L = 2 -> {"a:r2", "b:r1"}
                [] L = 3 -> {"b:r2"}
                [] OTHER -> {}

ObsInit == [ book  |-> << >>,   \* <<ep, d>> -> latest successful write of a registration that was not removed
             bad   |-> {},      \* clauses found false
             blame |-> {} ]     \* <<k, vg, cls>> of the failed writes a violation is attributed to

(* a registration of the book is listed at time t iff its latest successful  *)
(* write is younger than lifetime + grace                                    *)
Live(b, t) == t < b.w + b.lt + Grace
LiveKeys(o, t) == {q \in DOMAIN o.book : Live(o.book[q], t)}
(* the registrations of the book a request to location loc is aimed at: the  *)
(* live one(s) with that location, else expired ones that were not removed   *)
AtLoc(o, loc, t) == LET all == {q \in DOMAIN o.book : o.book[q].loc = loc}
                        lv  == {q \in all : Live(o.book[q], t)}
                    IN IF lv # {} THEN lv ELSE all

Flag(o, c, who) == [o EXCEPT !.bad = @ \cup {c}, !.blame = @ \cup who]
FlagIf(o, cond, c) == IF cond THEN Flag(o, c, {}) ELSE o

(* the latest write aimed at these registrations that was not answered 2.xx *)
Taint(o, qs, e) ==
  [o EXCEPT !.book = [q \in DOMAIN @ |-> IF q \in qs THEN [@[q] EXCEPT !.taint = {<<e.k, e.vg, e.cls>>}] ELSE @[q]]]

(* -- registration ---------------------------------------------------------- *)
(* (a location handed out while the book has another live registration      *)
(* there is judged by the lookups: either both are listed with one location *)
(* -- LocationsDistinct -- or the older one is missing)                     *)
ObsReg(o, e) ==
  LET key  == <<e.ep, e.d>>
      live == Has(o.book, key) /\ Live(o.book[key], e.t)
  IN IF e.cls = 2 /\ e.loc # 0
       THEN LET o1 == FlagIf(o, live /\ o.book[key].loc # e.loc, "C20_ReRegisterKeepsLocation")
                \* expired, never removed registrations that had this location are superseded
                stale == {q \in DOMAIN o.book : o.book[q].loc = e.loc /\ ~Live(o.book[q], e.t)}
                new == [loc |-> e.loc, lt |-> EffLt(e.lt),
                        base |-> IF e.base # 0 THEN e.base ELSE SrcBase(e.src),
                        expl |-> e.base # 0, x |-> e.x, links |-> e.links,
                        w |-> e.t, taint |-> {}]
            IN [o1 EXCEPT !.book = Put(Drop(@, stale), key, new)]
     ELSE IF e.cls # 2 /\ live
       THEN Taint(o, {key}, e)          \* a failed write aimed at it: it must not change
     ELSE o

(* -- update (POST) and replace (PUT) of a registration resource ------------ *)
ObsUpd(o, e) ==
  LET qs == AtLoc(o, e.loc, e.t)
      Upd(b) == [b EXCEPT !.lt    = IF e.lt # 0 THEN e.lt ELSE @,
                          !.base  = IF e.base # 0 THEN e.base ELSE IF b.expl THEN @ ELSE SrcBase(e.src),
                          !.expl  = b.expl \/ e.base # 0,
                          !.x     = IF e.x # 0 THEN e.x ELSE @,
                          !.links = IF e.k = "put" THEN e.links ELSE @,
                          !.w     = e.t,
                          !.taint = {}]
  IN IF e.cls = 2
       THEN [o EXCEPT !.book = [q \in DOMAIN @ |-> IF q \in qs THEN Upd(@[q]) ELSE @[q]]]
     ELSE Taint(o, qs, e)

ObsDel(o, e) == IF e.cls = 2 THEN [o EXCEPT !.book = Drop(@, AtLoc(o, e.loc, e.t))] ELSE o

(* -- lookups ------------------------------------------------------------------ *)
EpRec(q, b) == [loc |-> b.loc, ep |-> q[1], d |-> q[2], base |-> b.base, x |-> b.x]
ResRecs(q, b) == {[base |-> b.base, ep |-> q[1], d |-> q[2], link |-> k] : k \in LinksOf(b.links)}

ExpectedEps(o, t) == {EpRec(q, o.book[q]) : q \in LiveKeys(o, t)}
ExpectedRes(o, t) == UNION {ResRecs(q, o.book[q]) : q \in LiveKeys(o, t)}

(* failed writes that explain a difference at these registrations *)
TaintOf(o, qs) == UNION {o.book[q].taint : q \in qs \cap DOMAIN o.book}

(* a difference at a registration whose latest write was answered 4.xx is   *)
(* a failed write that changed the directory; any other difference is a     *)
(* lookup that does not reflect the successful writes                       *)
Mismatch(o, who) == IF \E f \in who : f[3] = 4
                      THEN Flag(o, "C20_FailedWriteChangesNothing", {f \in who : f[3] = 4})
                      ELSE Flag(o, "C20_LookupsAreLive", who)

ObsLkEp(o, e) ==
  LET exp  == ExpectedEps(o, e.t)
      got  == e.eps
      diff == (exp \ got) \cup (got \ exp)
      who  == TaintOf(o, {<<r.ep, r.d>> : r \in diff})
      o1   == IF e.cls # 2 THEN (IF exp # {} THEN Flag(o, "C20_LookupsAreLive", {}) ELSE o)
              ELSE IF diff # {} \/ e.n # Cardinality(exp) THEN Mismatch(o, who) ELSE o
      o2   == FlagIf(o1, e.cls = 2 /\ (\/ e.n > Cardinality(got)
                                       \/ \E a, b \in got : a # b /\ a.ep = b.ep /\ a.d = b.d),
                     "C20_OnePerKey")
      o3   == FlagIf(o2, e.cls = 2 /\ \E a, b \in got : a.loc = b.loc /\ (a.ep # b.ep \/ a.d # b.d),
                     "C20_LocationsDistinct")
  IN o3

ObsLkRes(o, e) ==
  LET exp   == ExpectedRes(o, e.t)
      got   == e.res
      diff  == (exp \ got) \cup (got \ exp)
      who   == TaintOf(o, {<<r.ep, r.d>> : r \in diff})
  IN IF e.cls # 2 THEN (IF exp # {} THEN Flag(o, "C20_LookupsAreLive", {}) ELSE o)
     ELSE IF diff # {} \/ e.n # Cardinality(exp) THEN Mismatch(o, who) ELSE o

ObsEvent(o, e) ==
  CASE e.k = "reg"   -> ObsReg(o, e)
    [] e.k = "upd"   -> ObsUpd(o, e)
    [] e.k = "put"   -> ObsUpd(o, e)
    [] e.k = "del"   -> ObsDel(o, e)
    [] e.k = "lkep"  -> ObsLkEp(o, e)
    [] e.k = "lkres" -> ObsLkRes(o, e)
    [] OTHER         -> o

RECURSIVE ObsFold(_, _)
ObsFold(o, es) == IF es = << >> THEN o ELSE ObsFold(ObsEvent(o, Head(es)), Tail(es))

(* -- property clauses ------------------------------------------------------- *)
Clauses == {"C20_LookupsAreLive", "C20_OnePerKey", "C20_ReRegisterKeepsLocation",
            "C20_LocationsDistinct", "C20_FailedWriteChangesNothing"}

C20_LookupsAreLive(o)            == "C20_LookupsAreLive" \notin o.bad
C20_OnePerKey(o)                 == "C20_OnePerKey" \notin o.bad
C20_ReRegisterKeepsLocation(o)   == "C20_ReRegisterKeepsLocation" \notin o.bad
C20_LocationsDistinct(o)         == "C20_LocationsDistinct" \notin o.bad
C20_FailedWriteChangesNothing(o) == "C20_FailedWriteChangesNothing" \notin o.bad
=============================================================================
