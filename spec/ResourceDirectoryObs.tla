------------------------ MODULE ResourceDirectoryObs ------------------------
(* Observable-event vocabulary, monitor summary and property clauses for    *)
(* the CoAP resource directory (RFC 9176; aiocoap/cli/rd.py): property C20. *)
(* The summary `obs' is a function of the observable events only (requests  *)
(* sent to the directory, response codes, Location-Path, lookup payloads);  *)
(* its `book' is the specification's own bookkeeping of *successful*        *)
(* writes, from which the expected content of every lookup is derived.      *)
(* The same operators are used by the exhaustive model                      *)
(* (ResourceDirectory.tla) and by trace validation of real executions       *)
(* (ResourceDirectoryTrace.tla).                                            *)
(*                                                                          *)
(* Time is counted in quanta (the driver maps one quantum to 15 s, so that  *)
(* ordinary lifetimes and the 15 s grace period are whole numbers); a       *)
(* lifetime may carry a remainder of seconds (lx, see the vocabulary).      *)
EXTENDS ResourceDirectoryVocab

CONSTANTS Grace,       \* Registration.grace_period            (quanta)
          DefaultLt    \* lifetime when no lt is given (90000 s) (quanta)

(* An event is a record                                                      *)
(*  [k, t, src, ep, d, loc, lt, lx, base, x, links, var, vg, cls, n, eps,    *)
(*   res, iface, crit, cnt, first, pages, pcls]                              *)
(*  k     "reg"   POST to the directory resource with ep, d, lt, base,       *)
(*                extra attributes x, link set `links'; loc = the location   *)
(*                returned (0: none)                                         *)
(*        "sreg"  simple registration: POST to /.well-known/rd (or           *)
(*                /.well-known/core) with ep, d, lt, x; the directory        *)
(*                fetches the link set from the registrant; no location is   *)
(*                returned (it shows in the next endpoint lookup)            *)
(*        "upd"   POST to location loc       "put"  PUT to location loc      *)
(*        "del"   DELETE of location loc                                     *)
(*        "lkep"  endpoint lookup without query: eps = sequence of           *)
(*                [loc, ep, d, base, xs] (base: the URI shown; xs: the other *)
(*                attributes, sequence of <<key, value>>)                    *)
(*        "lkres" resource lookup without query: res = sequence of           *)
(*                [href, anchor, attrs] (anchor "" = none shown)             *)
(*        "flk"   filtered lookup on interface iface ("ep" / "res") with the *)
(*                search criteria crit (sequence of [k, v, w, loc]: key,     *)
(*                value, w = 1: the value is followed by "*", loc # 0: the   *)
(*                criterion is href=<registration resource loc>); the result *)
(*                is in eps / res; with cnt > 0 the same query was repeated  *)
(*                with count=cnt (result: first) and with page=0,1,...       *)
(*                &count=cnt (results: pages); pcls = class of the worst     *)
(*                answer to those                                            *)
(*  t     time of the request (quanta);  src  number of the requesting peer  *)
(*  lt, lx, base, x, links: 0 = not given                                    *)
(*  var / vg   which valid/invalid form of the request was sent (label and   *)
(*        its group; used only for blame, never to decide success)           *)
(*  cls   class of the response code (2, 4, 5);  n  number of entries        *)

Has(f, k) == k \in DOMAIN f
Put(f, k, v) == [y \in (DOMAIN f) \cup {k} |-> IF y = k THEN v ELSE f[y]]
Drop(f, ks) == [y \in (DOMAIN f) \ ks |-> f[y]]
Range(s) == {s[i] : i \in DOMAIN s}
Min2(a, b) == IF a < b THEN a ELSE b

EffLt(v) == IF v = 0 THEN DefaultLt ELSE v
\* the lifetime a request asks for: [q, r] = q quanta + r seconds
EffLife(e) == IF e.lx # 0 THEN [q |-> LtX(e.lx).q, r |-> LtX(e.lx).r] ELSE [q |-> EffLt(e.lt), r |-> 0]
GivesLt(e) == e.lt # 0 \/ e.lx # 0

\* extra attributes as a map; an update replaces the keys it gives
XMap(x) == LET s == XAttrs(x) IN [k \in {s[i][1] : i \in DOMAIN s} |-> s[CHOOSE i \in DOMAIN s : s[i][1] = k][2]]
MergeX(old, x) == LET new == XMap(x) IN [k \in (DOMAIN old) \cup (DOMAIN new) |-> IF k \in DOMAIN new THEN new[k] ELSE old[k]]

ObsInit == [ book  |-> << >>,   \* <<ep, d>> -> latest successful write of a registration that was not removed
             bad   |-> {},      \* clauses found false
             blame |-> {} ]     \* <<k, vg, cls>> of the failed writes a violation is attributed to

(* a registration of the book is listed at time t iff its latest successful  *)
(* write is younger than lifetime + grace:  15 t < 15 (w + lq + Grace) + lr  *)
Live(b, t) == LET a == t - b.w - Grace - b.lq IN a < 0 \/ (a = 0 /\ b.lr > 0)
LiveKeys(o, t) == {q \in DOMAIN o.book : Live(o.book[q], t)}
(* the registrations of the book a request to location loc is aimed at: the  *)
(* live one(s) with that location, else expired ones that were not removed   *)
AtLoc(o, loc, t) == LET all == {q \in DOMAIN o.book : o.book[q].loc = loc}
                        lv  == {q \in all : Live(o.book[q], t)}
                    IN IF lv # {} THEN lv ELSE all

Flag(o, c, who) == [o EXCEPT !.bad = @ \cup {c}, !.blame = @ \cup who]
FlagIf(o, cond, c) == IF cond THEN Flag(o, c, {}) ELSE o

(* the latest write aimed at these registrations that was not answered 2.xx *)
Taint(o, qs, e) ==
  [o EXCEPT !.book = [q \in DOMAIN @ |-> IF q \in qs THEN [@[q] EXCEPT !.taint = {<<e.k, e.vg, e.cls>>}] ELSE @[q]]]

(* -- registration (k = "reg") and simple registration (k = "sreg") ---------- *)
(* (a location handed out while the book has another live registration      *)
(* there is judged by the lookups: either both are listed with one location *)
(* -- LocationsDistinct -- or the older one is missing.)  A simple          *)
(* registration returns no location: a re-registration must keep the one    *)
(* the book has (keep; judged at the next endpoint lookup), a new one gets  *)
(* loc 0 = "whatever the next endpoint lookup shows".                       *)
ObsReg(o, e) ==
  LET key    == <<e.ep, e.d>>
      live   == Has(o.book, key) /\ Live(o.book[key], e.t)
      simple == e.k = "sreg"
  IN IF e.cls = 2 /\ (e.loc # 0 \/ simple)
       THEN LET o1 == FlagIf(o, ~simple /\ live /\ o.book[key].loc # e.loc, "C20_ReRegisterKeepsLocation")
                loc == IF simple THEN (IF live THEN o.book[key].loc ELSE 0) ELSE e.loc
                \* expired, never removed registrations that had this location are superseded
                stale == IF loc = 0 THEN {} ELSE {q \in DOMAIN o.book : o.book[q].loc = loc /\ ~Live(o.book[q], e.t)}
                lf  == EffLife(e)
                new == [loc |-> loc, keep |-> simple /\ live, lq |-> lf.q, lr |-> lf.r,
                        base |-> IF e.base # 0 THEN e.base ELSE SrcBase(e.src),
                        expl |-> e.base # 0, xs |-> XMap(e.x), links |-> e.links,
                        w |-> e.t, taint |-> {}]
            IN [o1 EXCEPT !.book = Put(Drop(@, stale), key, new)]
     ELSE IF e.cls # 2 /\ live
       THEN Taint(o, {key}, e)          \* a failed write aimed at it: it must not change
     ELSE o

(* -- update (POST) and replace (PUT) of a registration resource ------------ *)
ObsUpd(o, e) ==
  LET qs == AtLoc(o, e.loc, e.t)
      lf == EffLife(e)
      Upd(b) == [b EXCEPT !.lq    = IF GivesLt(e) THEN lf.q ELSE @,
                          !.lr    = IF GivesLt(e) THEN lf.r ELSE @,
                          !.base  = IF e.base # 0 THEN e.base ELSE IF b.expl THEN @ ELSE SrcBase(e.src),
                          !.expl  = b.expl \/ e.base # 0,
                          !.xs    = MergeX(@, e.x),
                          !.links = IF e.k = "put" THEN e.links ELSE @,
                          !.w     = e.t,
                          !.taint = {}]
  IN IF e.cls = 2
       THEN [o EXCEPT !.book = [q \in DOMAIN @ |-> IF q \in qs THEN Upd(@[q]) ELSE @[q]]]
     ELSE Taint(o, qs, e)

ObsDel(o, e) == IF e.cls = 2 THEN [o EXCEPT !.book = Drop(@, AtLoc(o, e.loc, e.t))] ELSE o

(* -- what a lookup has to show ------------------------------------------------ *)
EpRec(q, b) == LET xs == {<<k, b.xs[k]>> : k \in DOMAIN b.xs}
               IN [loc |-> b.loc, ep |-> q[1], d |-> q[2], base |-> BaseUri(b.base), xs |-> xs, nx |-> Cardinality(xs)]
\* an observed endpoint entry in the same form
EpN(r) == [loc |-> r.loc, ep |-> r.ep, d |-> r.d, base |-> r.base, xs |-> Range(r.xs), nx |-> Len(r.xs)]
ExpectedEps(o, t) == {EpRec(q, o.book[q]) : q \in LiveKeys(o, t)}

\* resource entries: <<q, i>> = link i of registration q
ItemsOf(o, q) == ResTab[o.book[q].base][o.book[q].links]
ItemKeys(o, qs) == UNION {{<<q, i>> : i \in DOMAIN ItemsOf(o, q)} : q \in qs}
ItemAt(o, it) == ItemsOf(o, it[1])[it[2]]
ResRec(item) == [href |-> item.href, anc |-> item.anc, attrs |-> item.attrs, na |-> item.na]
RecAt(o, it) == ResRec(ItemAt(o, it))
(* an observed resource entry in the same form.  RFC 9176 section 6.1: the   *)
(* links returned are semantically equivalent to the registered ones; an     *)
(* entry shown without anchor has the root of its target as context, so a    *)
(* registered anchor that equals that root may be left out                   *)
ResN(r) == [href |-> r.href,
            anc  |-> IF r.anchor # "" THEN r.anchor ELSE IF r.href \in DOMAIN RootTab THEN RootTab[r.href] ELSE "?",
            attrs |-> Range(r.attrs), na |-> Len(r.attrs)]

(* the entries of `got' (sequence) whose multiplicity is not between the     *)
(* number of `lo' items and the number of `hi' items showing that entry      *)
BadRecs(o, got, lo, hi) ==
  LET gs  == Range(got)
      his == {RecAt(o, it) : it \in hi}
  IN IF lo = hi /\ Cardinality(gs) = Len(got) /\ Cardinality(his) = Cardinality(hi)
       THEN (gs \ his) \cup (his \ gs)                       \* no entry occurs twice: sets
     ELSE LET cg(r) == Cardinality({i \in DOMAIN got : got[i] = r})
              cl(r) == Cardinality({it \in lo : RecAt(o, it) = r})
              ch(r) == Cardinality({it \in hi : RecAt(o, it) = r})
          IN {r \in gs \cup his : cg(r) < cl(r) \/ cg(r) > ch(r)}
\* the registrations of the book (live or not) one of whose links shows as r
Owners(o, r) == {q \in DOMAIN o.book : \E i \in DOMAIN ItemsOf(o, q) : RecAt(o, <<q, i>>) = r}

(* failed writes that explain a difference at these registrations *)
TaintOf(o, qs) == UNION {o.book[q].taint : q \in qs \cap DOMAIN o.book}

(* a difference at a registration whose latest write was answered 4.xx is   *)
(* a failed write that changed the directory; any other difference is a     *)
(* lookup that does not reflect the successful writes                       *)
Mismatch(o, who) == IF \E f \in who : f[3] = 4
                      THEN Flag(o, "C20_FailedWriteChangesNothing", {f \in who : f[3] = 4})
                      ELSE Flag(o, "C20_LookupsAreLive", who)

(* what an endpoint lookup tells about locations the book does not know:    *)
(* a simple registration gets the location the lookup shows for its key (an *)
(* expired registration that had it is superseded); a simple                *)
(* re-registration shown at another location than before did not keep it    *)
Adopt(o, got, t) ==
  LET shown(q) == {r.loc : r \in {g \in got : g.ep = q[1] /\ g.d = q[2]}}
      one(q)   == Cardinality(shown(q)) = 1
      fresh    == {q \in LiveKeys(o, t) : o.book[q].loc = 0 /\ one(q)}
      moved    == {q \in LiveKeys(o, t) : o.book[q].keep /\ one(q) /\ shown(q) # {o.book[q].loc}}
      book1    == [q \in DOMAIN o.book |->
                     IF q \in fresh \cup moved THEN [o.book[q] EXCEPT !.loc = CHOOSE l \in shown(q) : TRUE, !.keep = FALSE]
                     ELSE [o.book[q] EXCEPT !.keep = FALSE]]
      taken    == {book1[q].loc : q \in fresh \cup moved}
      stale    == {q \in DOMAIN book1 : q \notin fresh \cup moved /\ book1[q].loc \in taken /\ ~Live(book1[q], t)}
  IN FlagIf([o EXCEPT !.book = Drop(book1, stale)], moved # {}, "C20_ReRegisterKeepsLocation")

ObsLkEp(o0, e) ==
  LET got  == {EpN(e.eps[i]) : i \in DOMAIN e.eps}
      o    == IF e.cls = 2 THEN Adopt(o0, got, e.t) ELSE o0
      exp  == ExpectedEps(o, e.t)
      diff == (exp \ got) \cup (got \ exp)
      who  == TaintOf(o, {<<r.ep, r.d>> : r \in diff})
      o1   == IF e.cls # 2 THEN (IF exp # {} THEN Flag(o, "C20_LookupsAreLive", {}) ELSE o)
              ELSE IF diff # {} \/ e.n # Cardinality(exp) THEN Mismatch(o, who) ELSE o
      o2   == FlagIf(o1, e.cls = 2 /\ (\/ e.n > Cardinality(got)
                                       \/ \E a, b \in got : a # b /\ a.ep = b.ep /\ a.d = b.d),
                     "C20_OnePerKey")
      o3   == FlagIf(o2, e.cls = 2 /\ \E a, b \in got : a.loc = b.loc /\ (a.ep # b.ep \/ a.d # b.d),
                     "C20_LocationsDistinct")
  IN o3

ObsLkRes(o, e) ==
  LET got  == [i \in DOMAIN e.res |-> ResN(e.res[i])]
      all  == ItemKeys(o, LiveKeys(o, e.t))
      bad  == BadRecs(o, got, all, all)
      who  == TaintOf(o, UNION {Owners(o, r) : r \in bad})
  IN IF e.cls # 2 THEN (IF all # {} THEN Flag(o, "C20_LookupsAreLive", {}) ELSE o)
     ELSE IF bad # {} \/ e.n # Cardinality(all) THEN Mismatch(o, who) ELSE o

(* -- lookup filtering (RFC 9176 section 6.2) ---------------------------------- *)
(* "A link matches a search criterion if it has an attribute of the same    *)
(* name and the same value, allowing for a trailing "*" wildcard operator.  *)
(* Attributes that are defined as relation-types match if the search value  *)
(* matches any of their values.  A resource link also matches a search      *)
(* criterion if its endpoint would match the criterion, and vice versa, an  *)
(* endpoint link matches a search criterion if any of its resource links    *)
(* matches it.  All included criteria MUST match for a link to be returned. *)
(* href matches [resolved] target references; on a resource lookup also the *)
(* registration resource of the endpoint."                                  *)
(* Must... = the entry has to be returned; May... = it may be returned       *)
(* (points the statement of C20 does not settle: the anchor a link has only  *)
(* implicitly, base / rt=core.rd-ep / lt of the endpoint entry, rel and rev  *)
(* as relation-types, a registration resource addressed by a string).        *)
ValMatch(c, v) == IF c.w = 1 THEN IsPrefix(c.v, v) ELSE v = c.v
RECURSIVE Tokens(_)
Tokens(s) == IF s = "" THEN {}
             ELSE LET e == Find(s, {" "}, 1)
                  IN (IF e > 1 THEN {SubSeq(s, 1, e - 1)} ELSE {}) \cup (IF e >= Len(s) THEN {} ELSE Tokens(From(s, e + 1)))
AnyToken(c, v) == \E tk \in Tokens(v) : ValMatch(c, tk)
AttrMust(c, v) == IF c.k \in {"rt", "if"} THEN AnyToken(c, v) ELSE ValMatch(c, v)
AttrMay(c, v)  == AttrMust(c, v) \/ (c.k \in {"rel", "rev"} /\ AnyToken(c, v))

EpOwnMust(c, q, b) ==
  \/ c.k = "ep" /\ ValMatch(c, q[1])
  \/ c.k = "d" /\ q[2] # "" /\ ValMatch(c, q[2])
  \/ c.k \in DOMAIN b.xs /\ AttrMust(c, b.xs[c.k])
  \/ c.k = "href" /\ c.loc # 0 /\ c.loc = b.loc
EpOwnMay(c, q, b) ==
  \/ EpOwnMust(c, q, b)
  \/ c.k \in DOMAIN b.xs /\ AttrMay(c, b.xs[c.k])
  \/ c.k = "base" /\ ValMatch(c, BaseUri(b.base))
  \/ c.k = "rt" /\ ValMatch(c, "core.rd-ep")
  \/ c.k = "lt"
  \/ c.k = "href" /\ c.loc = 0 /\ (c.v = "" \/ IsPrefix("/", c.v))
LinkMust(c, item) ==
  \/ c.k = "href" /\ c.loc = 0 /\ ValMatch(c, item.href)
  \/ c.k = "anchor" /\ item.hasanc /\ ValMatch(c, item.anc)
  \/ c.k \notin {"href", "anchor"} /\ \E a \in item.attrs : Len(a) = 2 /\ a[1] = c.k /\ AttrMust(c, a[2])
LinkMay(c, item) ==
  \/ LinkMust(c, item)
  \/ c.k = "anchor" /\ ValMatch(c, item.anc)
  \/ c.k \notin {"href", "anchor"} /\ \E a \in item.attrs : a[1] = c.k /\ (Len(a) = 1 \/ AttrMay(c, a[2]))

EpSel(o, q, crit, must) ==
  \A j \in DOMAIN crit :
     LET c == crit[j] b == o.book[q] IN
     IF must THEN EpOwnMust(c, q, b) \/ \E i \in DOMAIN ItemsOf(o, q) : LinkMust(c, ItemsOf(o, q)[i])
             ELSE EpOwnMay(c, q, b) \/ \E i \in DOMAIN ItemsOf(o, q) : LinkMay(c, ItemsOf(o, q)[i])
ResSel(o, it, crit, must) ==
  \A j \in DOMAIN crit :
     LET c == crit[j] b == o.book[it[1]] IN
     IF must THEN LinkMust(c, ItemAt(o, it)) \/ EpOwnMust(c, it[1], b)
             ELSE LinkMay(c, ItemAt(o, it)) \/ EpOwnMay(c, it[1], b)

(* paging: "count specifies how many links to return and page specifies     *)
(* which subset of links organized in sequential pages, each containing     *)
(* 'count' links, starting with link zero and page zero": the pages cut the *)
(* result of the same query without page and count (fetched at the same     *)
(* instant) into consecutive pieces, nothing lost, nothing twice            *)
PagesOk(all, cnt, first, pages) ==
  /\ first = SubSeq(all, 1, Min2(cnt, Len(all)))
  /\ \A i \in DOMAIN pages : pages[i] = SubSeq(all, (i - 1) * cnt + 1, Min2(i * cnt, Len(all)))

ObsFlk(o, e) ==
  LET live == LiveKeys(o, e.t)
      o1 == IF e.cls # 2 THEN Flag(o, "C20_FilteredLookupExact", {})
            ELSE IF e.iface = "ep"
              THEN LET got == {EpN(e.eps[i]) : i \in DOMAIN e.eps}
                       lo  == {EpRec(q, o.book[q]) : q \in {p \in live : EpSel(o, p, e.crit, TRUE)}}
                       hi  == {EpRec(q, o.book[q]) : q \in {p \in live : EpSel(o, p, e.crit, FALSE)}}
                   IN FlagIf(o, ~(lo \subseteq got /\ got \subseteq hi /\ Cardinality(got) = Len(e.eps)), "C20_FilteredLookupExact")
            ELSE LET got == [i \in DOMAIN e.res |-> ResN(e.res[i])]
                     all == ItemKeys(o, live)
                     lo  == {it \in all : ResSel(o, it, e.crit, TRUE)}
                     hi  == {it \in all : ResSel(o, it, e.crit, FALSE)}
                 IN FlagIf(o, BadRecs(o, got, lo, hi) # {}, "C20_FilteredLookupExact")
      raw == IF e.iface = "ep" THEN e.eps ELSE e.res
  IN IF e.cnt = 0 \/ e.cls # 2 THEN o1
     ELSE FlagIf(o1, e.pcls # 2 \/ ~PagesOk(raw, e.cnt, e.first, e.pages), "C20_PagingPartitions")

ObsEvent(o, e) ==
  CASE e.k = "reg"   -> ObsReg(o, e)
    [] e.k = "sreg"  -> ObsReg(o, e)
    [] e.k = "upd"   -> ObsUpd(o, e)
    [] e.k = "put"   -> ObsUpd(o, e)
    [] e.k = "del"   -> ObsDel(o, e)
    [] e.k = "lkep"  -> ObsLkEp(o, e)
    [] e.k = "lkres" -> ObsLkRes(o, e)
    [] e.k = "flk"   -> ObsFlk(o, e)
    [] OTHER         -> o

RECURSIVE ObsFold(_, _)
ObsFold(o, es) == IF es = << >> THEN o ELSE ObsFold(ObsEvent(o, Head(es)), Tail(es))

(* -- property clauses ------------------------------------------------------- *)
Clauses == {"C20_LookupsAreLive", "C20_OnePerKey", "C20_ReRegisterKeepsLocation",
            "C20_LocationsDistinct", "C20_FailedWriteChangesNothing",
            "C20_FilteredLookupExact", "C20_PagingPartitions"}

C20_LookupsAreLive(o)            == "C20_LookupsAreLive" \notin o.bad
C20_OnePerKey(o)                 == "C20_OnePerKey" \notin o.bad
C20_ReRegisterKeepsLocation(o)   == "C20_ReRegisterKeepsLocation" \notin o.bad
C20_LocationsDistinct(o)         == "C20_LocationsDistinct" \notin o.bad
C20_FailedWriteChangesNothing(o) == "C20_FailedWriteChangesNothing" \notin o.bad
C20_FilteredLookupExact(o)       == "C20_FilteredLookupExact" \notin o.bad
C20_PagingPartitions(o)          == "C20_PagingPartitions" \notin o.bad
=============================================================================
