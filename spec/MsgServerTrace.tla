--------------------------- MODULE MsgServerTrace ---------------------------
(* Batch validation of event traces recorded from the real aiocoap message  *)
(* layer (server role / reaction table) against the monitor summary and     *)
(* clauses of MsgServerObs (properties C04, C10).                           *)
EXTENDS MsgServerObs, Json, IOUtils, TLC, TLCExt

Traces == JsonDeserialize(IOEnv.TRACE_FILE)

VARIABLES tid, l, obs, firstBad
tvars == <<tid, l, obs, firstBad>>

TInit == /\ tid \in 1..Len(Traces) /\ l = 1 /\ obs = ObsInit /\ firstBad = {}

TNext == /\ l <= Len(Traces[tid])
         /\ obs' = ObsEvent(obs, Traces[tid][l])
         /\ firstBad' = firstBad \cup {<<c, l>> : c \in obs'.bad \ obs.bad}
         /\ l' = l + 1
         /\ UNCHANGED tid

TSpec == TInit /\ [][TNext]_tvars

Report == (l = Len(Traces[tid]) + 1) => PrintT(<<"TRACE", tid, l - 1, firstBad>>)
=============================================================================
