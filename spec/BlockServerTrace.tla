---------------------------- MODULE BlockServerTrace ----------------------------
(* Batch validation of recorded executions against the clauses of BlockServerObs. *)
EXTENDS BlockServerObs, Json, IOUtils, TLC, TLCExt

Traces == JsonDeserialize(IOEnv.TRACE_FILE)

VARIABLES tid, l, obs, firstBad
tvars == <<tid, l, obs, firstBad>>

TInit == /\ tid \in 1..Len(Traces) /\ l = 1 /\ obs = ObsInit /\ firstBad = {}

TNext == /\ l <= Len(Traces[tid])
         /\ obs' = ObsEvent(obs, Traces[tid][l])
         /\ firstBad' = firstBad \cup {<<c, l>> : c \in obs'.bad \ obs.bad}
         /\ l' = l + 1
         /\ UNCHANGED tid

TSpec == TInit /\ [][TNext]_tvars

\* per trace: the clauses found false (with the index of the first event at which each was) and how often
\* which judgement was made (obs.cnt: evidence)
Report == (l = Len(Traces[tid]) + 1) => /\ PrintT(<<"TRACE", tid, l - 1, firstBad>>)
                                         /\ PrintT(<<"COUNT", tid, obs.cnt>>)
=============================================================================
