------------------------- MODULE ObserveServerTrace -------------------------
(* Batch validation of event traces recorded from the real aiocoap server    *)
(* (harness/observeserverdrive.py) against the monitor summary and clauses   *)
(* of ObserveServerObs (property C08): one initial state per trace, the      *)
(* clauses are evaluated at every event, one TRACE line per trace.           *)
EXTENDS ObserveServerObs, Json, IOUtils, TLC, TLCExt

Traces == JsonDeserialize(IOEnv.TRACE_FILE)

VARIABLES tid, l, obs, firstBad
tvars == <<tid, l, obs, firstBad>>

TInit == /\ tid \in 1..Len(Traces) /\ l = 1 /\ obs = ObsInit /\ firstBad = {}

TNext == /\ l <= Len(Traces[tid])
         /\ obs' = ObsEvent(obs, Traces[tid][l])
         /\ firstBad' = firstBad \cup {<<c, l>> : c \in obs'.bad \ obs.bad}
         /\ l' = l + 1
         /\ UNCHANGED tid

TSpec == TInit /\ [][TNext]_tvars

\* also reported (vacuity evidence): Resets to NON notifications seen; why / for which kind of registration things
\* ended; how many registrations were judged, on which resources; how many separate responses were tracked
Report == (l = Len(Traces[tid]) + 1) =>
            PrintT(<<"TRACE", tid, l - 1, firstBad, obs.rstnon,
                     {<<obs.regs[g].cause, obs.regs[g].ty>> : g \in DOMAIN obs.regs} \cup {<<"RstNon", obs.regs[g].ty>> : g \in {h \in DOMAIN obs.regs : obs.regs[h].rn}},
                     Cardinality(DOMAIN obs.regs), {obs.regs[g].q : g \in DOMAIN obs.regs}, Cardinality(DOMAIN obs.ex)>>)
=============================================================================
