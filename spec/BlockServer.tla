---------------------------- MODULE BlockServer ----------------------------
(* Implementation-shaped model of aiocoap's server-side block-wise support  *)
(* (blockwise.py: Block1Spool.feed_and_take, Block2Cache.extract_or_insert, *)
(* _extract_block_key; message.py: _append_request_block, _extract_block;   *)
(* util/asyncio/timeoutdict.py: TimeoutDict with its items / recently       *)
(* accessed set / timer), driven by an adversarial client: blocks in order, *)
(* restarted, repeated, skipped, of wrong size, last first, from two        *)
(* endpoints, with any idle time relative to the state lifetime.            *)
(* FixGap / FixStale select which version of the code is modelled.          *)
EXTENDS BlockServerObs, TLC

CONSTANTS NRemotes, MaxNum, MaxEnv, MaxTime, Lens,
          FixGap,      \* TRUE: a gap/overlap in Block1 is answered 4.08 (FALSE: the ValueError -> 5.00)
          FixStale     \* TRUE: a block-0 rendering that needs no chunking drops the older cached rendering

VARIABLES now,
          spool,    \* Block1Spool._assemblies._items : key -> len
          cache,    \* Block2Cache._completes._items  : key -> [cid, len]
          tdS, tdC, \* TimeoutDict bookkeeping: [due (-1: no timer), recent]
          nreq, ninv, emit, obs

vars == <<now, spool, cache, tdS, tdC, nreq, ninv, emit, obs>>

Tok(n) == CASE n = 1 -> "k1" [] n = 2 -> "k2" [] n = 3 -> "k3" [] n = 4 -> "k4" [] n = 5 -> "k5"
            [] n = 6 -> "k6" [] OTHER -> "k7"

Ev(k, r, tok, code, cls, plen, ck, b1, b2, cid, off, i) ==
  [k |-> k, t |-> now, r |-> r, tok |-> tok, code |-> code, cls |-> cls, plen |-> plen, ck |-> ck,
   b1n |-> b1[1], b1m |-> b1[2], b1s |-> b1[3], b2n |-> b2[1], b2m |-> b2[2], b2s |-> b2[3],
   cid |-> cid, off |-> off, cok |-> TRUE, inv |-> i]
None == <<-1, -1, -1>>
Step(es) == /\ emit' = es /\ obs' = ObsFold(obs, es)
Drop(f, ks) == [x \in (DOMAIN f) \ ks |-> f[x]]

\* TimeoutDict._accessed
Accessed(td, key) == IF td.due < 0 THEN [due |-> now + T, recent |-> {}]
                     ELSE [td EXCEPT !.recent = @ \cup {key}]

Accessed2(td, key) == LET a == Accessed(td, key) IN [a EXCEPT !.recent = @ \cup {key}]

Init == /\ now = 0 /\ spool = << >> /\ cache = << >> /\ tdS = [due |-> -1, recent |-> {}]
        /\ tdC = [due |-> -1, recent |-> {}] /\ nreq = 0 /\ ninv = 0 /\ emit = << >> /\ obs = ObsInit

TimerDue == (tdS.due >= 0 /\ tdS.due <= now) \/ (tdC.due >= 0 /\ tdC.due <= now)

(* -- a PUT block ------------------------------------------------------------- *)
Block1(r, num, more, plen) ==
  /\ nreq < MaxEnv
  /\ LET key == <<r, 3, 10>>
         tok == Tok(nreq + 1)
         size == 16
         b1 == <<num, more, 0>>
         rx == Ev("rx", r, tok, 3, "req", plen, 10, b1, None, 0, num * size, 0)
         Resp(code, blk) == Ev("tx", r, tok, code, "resp", 0, 0, blk, None, -1, -1, 0)
     IN IF num = 0
          THEN /\ spool' = Put(spool, key, plen)
               \* __setitem__, and for a complete body the __getitem__ that returns it
               /\ tdS' = IF more = 1 THEN Accessed(tdS, key) ELSE Accessed2(tdS, key)
               /\ IF more = 1
                    THEN /\ Step(<<rx, Resp(95, b1)>>) /\ UNCHANGED ninv
                    ELSE /\ ninv' = ninv + 1
                         /\ Step(<<rx, Ev("call", r, tok, 3, "", plen, 10, None, None, 0, 0, ninv + 1),
                                   Ev("release", r, tok, 0, "", 0, 0, None, None, 0, 0, ninv + 1), Resp(68, b1)>>)
        ELSE IF key \notin DOMAIN spool
          THEN /\ Step(<<rx, Resp(136, None)>>) /\ UNCHANGED <<spool, tdS, ninv>>
        ELSE IF more = 1 /\ plen # size
          THEN /\ tdS' = Accessed(tdS, key)
               /\ Step(<<rx, Resp(128, None)>>) /\ UNCHANGED <<spool, ninv>>
        ELSE IF num * size # spool[key]
          THEN /\ tdS' = Accessed(tdS, key)
               /\ Step(<<rx, Resp(IF FixGap THEN 136 ELSE 160, None)>>) /\ UNCHANGED <<spool, ninv>>
        ELSE /\ spool' = [spool EXCEPT ![key] = @ + plen]
             /\ tdS' = IF more = 1 THEN Accessed(tdS, key) ELSE Accessed2(tdS, key)
             /\ IF more = 1
                  THEN /\ Step(<<rx, Resp(95, b1)>>) /\ UNCHANGED ninv
                  ELSE /\ ninv' = ninv + 1
                       /\ Step(<<rx, Ev("call", r, tok, 3, "", spool[key] + plen, 10, None, None, 0, 0, ninv + 1),
                                 Ev("release", r, tok, 0, "", 0, 0, None, None, 0, 0, ninv + 1), Resp(68, b1)>>)
  /\ nreq' = nreq + 1
  /\ UNCHANGED <<now, cache, tdC>>

(* -- a GET with Block2 -------------------------------------------------------- *)
Block2(r, num, L) ==
  /\ nreq < MaxEnv
  /\ LET key == <<r, 1, 20>>
         tok == Tok(nreq + 1)
         size == 16
         rx == Ev("rx", r, tok, 1, "req", 0, 20, None, <<num, 0, 0>>, -1, -1, 0)
         Resp(code, blk, plen, cid, off) == Ev("tx", r, tok, code, "resp", plen, 0, None, blk, cid, off, 0)
     IN IF num = 0
          THEN LET i == ninv + 1 IN
               /\ ninv' = i
               /\ IF L > size
                    THEN /\ cache' = Put(cache, key, [cid |-> i, len |-> L])
                         /\ tdC' = Accessed(tdC, key)
                         /\ Step(<<rx, Ev("call", r, tok, 1, "", 0, 20, None, None, 0, 0, i),
                                   Ev("release", r, tok, 0, "", L, 0, None, None, 0, 0, i),
                                   Resp(69, <<0, 1, 0>>, size, i, 0)>>)
                    ELSE /\ cache' = IF FixStale THEN Drop(cache, {key}) ELSE cache
                         /\ UNCHANGED tdC
                         /\ Step(<<rx, Ev("call", r, tok, 1, "", 0, 20, None, None, 0, 0, i),
                                   Ev("release", r, tok, 0, "", L, 0, None, None, 0, 0, i),
                                   Resp(69, None, L, i, 0)>>)
        ELSE /\ UNCHANGED ninv
             /\ IF key \notin DOMAIN cache
                  THEN /\ Step(<<rx, Resp(136, None, 0, -1, -1)>>) /\ UNCHANGED <<cache, tdC>>
                  ELSE LET c == cache[key]
                           off == num * size
                       IN /\ tdC' = Accessed(tdC, key)
                          /\ UNCHANGED cache
                          /\ IF off >= c.len
                               THEN Step(<<rx, Resp(128, None, 0, -1, -1)>>)
                               ELSE Step(<<rx, Resp(69, <<num, IF off + size < c.len THEN 1 ELSE 0, 0>>,
                                                    Min(size, c.len - off), c.cid, off)>>)
  /\ nreq' = nreq + 1
  /\ UNCHANGED <<now, spool, tdS>>

(* -- TimeoutDict._tick --------------------------------------------------------- *)
TickS == /\ tdS.due = now
         /\ LET kept == Drop(spool, (DOMAIN spool) \ tdS.recent)
            IN /\ spool' = kept
               /\ tdS' = IF kept # << >> THEN [due |-> now + T, recent |-> {}] ELSE [due |-> -1, recent |-> {}]
         /\ emit' = << >> /\ UNCHANGED <<now, cache, tdC, nreq, ninv, obs>>
TickC == /\ tdC.due = now
         /\ LET kept == Drop(cache, (DOMAIN cache) \ tdC.recent)
            IN /\ cache' = kept
               /\ tdC' = IF kept # << >> THEN [due |-> now + T, recent |-> {}] ELSE [due |-> -1, recent |-> {}]
         /\ emit' = << >> /\ UNCHANGED <<now, spool, tdS, nreq, ninv, obs>>

Tick == /\ ~TimerDue /\ now < MaxTime /\ now' = now + 1 /\ emit' = << >>
        /\ UNCHANGED <<spool, cache, tdS, tdC, nreq, ninv, obs>>

End == /\ nreq = MaxEnv /\ (IF emit = << >> THEN TRUE ELSE emit[Len(emit)].k # "end")
       /\ Step(<<Ev("end", 0, "", 0, "", 0, 0, None, None, 0, 0, 0)>>)
       /\ UNCHANGED <<now, spool, cache, tdS, tdC, nreq, ninv>>

Next == \/ TickS \/ TickC
        \/ (~TimerDue /\ \E r \in 1..NRemotes, num \in 0..MaxNum, more \in {0, 1}, plen \in {16, 5} : Block1(r, num, more, plen))
        \/ (~TimerDue /\ \E r \in 1..NRemotes, num \in 0..MaxNum, L \in Lens : Block2(r, num, L))
        \/ Tick \/ End

Spec == Init /\ [][Next]_vars
NoBad == obs.bad = {}
\* the lifetime promise of TimeoutDict, state-based: an entry used at u is present at every t < u + T
\* (what the monitor regards as certainly alive is in the tables)
AliveIsPresent ==
  /\ \A k \in DOMAIN obs.asm : (Alive(obs.asm[k], now) = "yes" /\ ~obs.asm[k].amb) => k \in DOMAIN spool
  /\ \A k \in DOMAIN obs.rend : (Alive(obs.rend[k], now) = "yes" /\ ~obs.rend[k].amb /\ obs.rend[k].len > 16) => k \in DOMAIN cache
View == <<now, spool, cache, tdS, tdC, nreq, ninv, obs>>
=============================================================================
