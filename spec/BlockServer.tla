---------------------------- MODULE BlockServer ----------------------------
(* Implementation-shaped model of aiocoap's server-side block-wise support  *)
(* (interfaces.py: Resource._render_to_pipe; blockwise.py:                  *)
(* Block1Spool.feed_and_take, Block2Cache.extract_or_insert,                *)
(* _extract_block_key; message.py: _append_request_block, _extract_block;   *)
(* util/asyncio/timeoutdict.py: TimeoutDict with its items / recently       *)
(* accessed set / timer), driven by an adversarial client: blocks in order, *)
(* restarted, repeated, skipped, of wrong size, last first, from two        *)
(* endpoints, with any idle time relative to the state lifetime.            *)
(*                                                                          *)
(* One request goes through both helpers, as in _render_to_pipe: the spool  *)
(* yields a complete request (the assembly -- the block-0 message with the  *)
(* later payloads appended, carrying the LAST block's Block1 option and,    *)
(* where the last block has one, its Block2 option, else block 0's), the    *)
(* cache either has the handler render it (Block2 absent or NUM = 0) or     *)
(* cuts a later block out of the rendering kept for the block key           *)
(* (endpoint, method, cache-key options); the response gets the request's   *)
(* Block1 option.  Requests without Block1 pass the spool untouched,        *)
(* whatever payload they carry.                                             *)
(* `Mode' selects the request alphabet (the state space of all of them      *)
(* together is too large for one exhaustive run):                           *)
(*   classic   PUT uploads (Block1 only) and GET downloads (Block2 only)    *)
(*   combined  POST: uploads whose response is larger than a block, Block2  *)
(*             on the final request block, follow-ups with and without      *)
(*             payload / repeated Block1 option, restarts                   *)
(*   methods   FETCH and POST with the same options: payload-bearing block-0*)
(*             requests and follow-ups, distinct state per method           *)
(*   sizes     GET with size exponents 0, 2 and 7 changing in mid-transfer, *)
(*             requests without Block2, renderings beyond the 1124-byte limit    *)
(*   all       the union (simulation)                                       *)
(* FixGap / FixStale select which version of the code is modelled.          *)
EXTENDS BlockServerObs, TLC

CONSTANTS NRemotes, MaxNum, MaxEnv, MaxTime, Lens, Mode,
          FixGap,      \* TRUE: a gap/overlap in Block1 is answered 4.08 (FALSE: the ValueError -> 5.00)
          FixStale     \* TRUE: a block-0 rendering that needs no chunking drops the older cached rendering

VARIABLES now,
          spool,    \* Block1Spool._assemblies._items : key -> [len, b2]
          cache,    \* Block2Cache._completes._items  : key -> [cid, len]
          tdS, tdC, \* TimeoutDict bookkeeping: [due (-1: no timer), recent]
          nreq, ninv, emit, obs

vars == <<now, spool, cache, tdS, tdC, nreq, ninv, emit, obs>>

MaxPayload == 1124      \* remote.maximum_payload_size (1024 plus slack: barely larger renderings are not fragmented)
MaxSzx == 6             \* remote.maximum_block_size_exp

Tok(n) == CASE n = 1 -> "k1" [] n = 2 -> "k2" [] n = 3 -> "k3" [] n = 4 -> "k4" [] n = 5 -> "k5"
            [] n = 6 -> "k6" [] OTHER -> "k7"

Ev(k, r, tok, code, cls, plen, ck, b1, b2, cid, off, i) ==
  [k |-> k, t |-> now, r |-> r, tok |-> tok, code |-> code, cls |-> cls, plen |-> plen, ck |-> ck,
   b1n |-> b1[1], b1m |-> b1[2], b1s |-> b1[3], b2n |-> b2[1], b2m |-> b2[2], b2s |-> b2[3],
   cid |-> cid, off |-> off, cok |-> TRUE, inv |-> i]
None == <<-1, -1, -1>>
Step(es) == /\ emit' = es /\ obs' = ObsFold(obs, es)
Drop(f, ks) == [x \in (DOMAIN f) \ ks |-> f[x]]

\* TimeoutDict._accessed
Accessed(td, key) == IF td.due < 0 THEN [due |-> now + T, recent |-> {}]
                     ELSE [td EXCEPT !.recent = @ \cup {key}]

Accessed2(td, key) == LET a == Accessed(td, key) IN [a EXCEPT !.recent = @ \cup {key}]

Init == /\ now = 0 /\ spool = << >> /\ cache = << >> /\ tdS = [due |-> -1, recent |-> {}]
        /\ tdC = [due |-> -1, recent |-> {}] /\ nreq = 0 /\ ninv = 0 /\ emit = << >> /\ obs = ObsInit

TimerDue == (tdS.due >= 0 /\ tdS.due <= now) \/ (tdC.due >= 0 /\ tdC.due <= now)

(* -- Block1Spool.feed_and_take ----------------------------------------------------- *)
\* -> [res (complete / continue / e408 / e400 / e500), spool, td, blen (assembled payload), b2 (the Block2
\*     option of the request handed on)]
Feed(key, b1, plen, b2) ==
  LET R(res, sp, td, blen, bb) == [res |-> res, spool |-> sp, td |-> td, blen |-> blen, b2 |-> bb]
      num == b1[1]
      more == b1[2]
      size == Size(b1[3])
  IN IF b1 = None THEN R("complete", spool, tdS, plen, b2)
     ELSE IF num = 0
       THEN \* __setitem__, and for a complete body the __getitem__ that returns it
            R(IF more = 1 THEN "continue" ELSE "complete", Put(spool, key, [len |-> plen, b2 |-> b2]),
              IF more = 1 THEN Accessed(tdS, key) ELSE Accessed2(tdS, key), plen, b2)
     ELSE IF key \notin DOMAIN spool THEN R("e408", spool, tdS, 0, None)
     ELSE IF more = 1 /\ plen # size THEN R("e400", spool, Accessed(tdS, key), 0, None)
     ELSE IF num * size # spool[key].len THEN R(IF FixGap THEN "e408" ELSE "e500", spool, Accessed(tdS, key), 0, None)
     ELSE LET nb2 == IF more = 0 /\ b2 # None THEN b2 ELSE spool[key].b2
          IN R(IF more = 1 THEN "continue" ELSE "complete",
               [spool EXCEPT ![key] = [len |-> @.len + plen, b2 |-> nb2]],
               IF more = 1 THEN Accessed(tdS, key) ELSE Accessed2(tdS, key), spool[key].len + plen, nb2)

(* -- one request: Resource._render_to_pipe ---------------------------------------------- *)
\* ck 10: a resource whose PUT handler answers 2.04 with an empty rendering; else 2.05 with L bytes
Req(r, code, ck, b1, plen, b2, L) ==
  /\ nreq < MaxEnv
  /\ LET key == <<r, code, ck>>
         tok == Tok(nreq + 1)
         okcode == IF ck = 10 THEN 68 ELSE 69
         rx == Ev("rx", r, tok, code, "req", plen, ck, b1, b2, -1, -1, 0)
         Err(c) == Ev("tx", r, tok, c, "resp", 0, 0, None, None, -1, -1, 0)
         f == Feed(key, b1, plen, b2)
     IN /\ spool' = f.spool
        /\ tdS' = f.td
        /\ CASE f.res = "continue" ->
                  /\ Step(<<rx, Ev("tx", r, tok, 95, "resp", 0, 0, b1, None, -1, -1, 0)>>)
                  /\ UNCHANGED <<ninv, cache, tdC>>
             [] f.res = "e408" -> Step(<<rx, Err(136)>>) /\ UNCHANGED <<ninv, cache, tdC>>
             [] f.res = "e400" -> Step(<<rx, Err(128)>>) /\ UNCHANGED <<ninv, cache, tdC>>
             [] f.res = "e500" -> Step(<<rx, Err(160)>>) /\ UNCHANGED <<ninv, cache, tdC>>
             [] OTHER ->
                  \* Block2Cache.extract_or_insert on the complete request
                  IF f.b2 = None \/ f.b2[1] = 0
                    THEN LET i == ninv + 1
                             call == Ev("call", r, tok, code, "", f.blen, ck, None, None, 0, 0, i)
                             rel == Ev("release", r, tok, 0, "", L, 0, None, None, 0, 0, i)
                             eff == IF f.b2 = None THEN <<0, 0, MaxSzx>> ELSE f.b2
                             size == Size(eff[3])
                             chunk == L > MaxPayload \/ (f.b2 # None /\ L > Size(f.b2[3]))
                         IN /\ ninv' = i
                            /\ IF chunk
                                 THEN /\ cache' = Put(cache, key, [cid |-> i, len |-> L])
                                      /\ tdC' = Accessed(tdC, key)
                                      /\ Step(<<rx, call, rel,
                                                Ev("tx", r, tok, okcode, "resp", Min(size, L), 0, b1,
                                                   <<0, IF size < L THEN 1 ELSE 0, eff[3]>>, i, 0, 0)>>)
                                 ELSE /\ cache' = IF FixStale THEN Drop(cache, {key}) ELSE cache
                                      /\ UNCHANGED tdC
                                      /\ Step(<<rx, call, rel, Ev("tx", r, tok, okcode, "resp", L, 0, b1, None, i, 0, 0)>>)
                    ELSE /\ UNCHANGED ninv
                         /\ IF key \notin DOMAIN cache
                              THEN /\ Step(<<rx, Err(136)>>) /\ UNCHANGED <<cache, tdC>>
                              ELSE LET c == cache[key]
                                       size == Size(f.b2[3])
                                       off == f.b2[1] * size
                                   IN /\ tdC' = Accessed(tdC, key)     \* __getitem__, then __setitem__ of the same value
                                      /\ UNCHANGED cache
                                      /\ IF off >= c.len
                                           THEN Step(<<rx, Err(128)>>)
                                           ELSE Step(<<rx, Ev("tx", r, tok, 69, "resp", Min(size, c.len - off), 0, b1,
                                                              <<f.b2[1], IF off + size < c.len THEN 1 ELSE 0, f.b2[3]>>,
                                                              c.cid, off, 0)>>)
  /\ nreq' = nreq + 1
  /\ UNCHANGED now

(* -- the request alphabets ---------------------------------------------------------------- *)
\* (the length of the rendering is a choice of the environment only where the handler is going to be invoked;
\*  `Rl' keeps the other requests from being generated once per length)
B1s == {<<n, m, 0>> : n \in 0..MaxNum, m \in {0, 1}}
Plens == {16, 5}
Rl(b1, b2, Ls) == IF (b1 = None \/ b1[2] = 0) /\ (b2 = None \/ b2[1] = 0) THEN Ls ELSE {0}
Classic(r) ==
  \/ \E b1 \in B1s, plen \in Plens : Req(r, 3, 10, b1, plen, None, 0)
  \/ \E num \in 0..MaxNum : \E L \in Rl(None, <<num, 0, 0>>, Lens) : Req(r, 1, 20, None, 0, <<num, 0, 0>>, L)
Combined(r) ==
  \* request blocks; the last one (and, for early negotiation, the first one) may carry Block2 0/0/0
  \/ \E b1 \in B1s, plen \in Plens, b2 \in {None, <<0, 0, 0>>} : \E L \in Rl(b1, b2, Lens) :
        (b2 # None => (b1[2] = 0 \/ b1[1] = 0)) /\ Req(r, 2, 20, b1, plen, b2, L)
  \* follow-ups for later blocks: bare, with a payload, repeating a (single-block / final) Block1 option
  \/ \E num \in 1..MaxNum :
        \/ Req(r, 2, 20, None, 0, <<num, 0, 0>>, 0)
        \/ Req(r, 2, 20, None, 5, <<num, 0, 0>>, 0)
        \/ Req(r, 2, 20, <<0, 0, 0>>, 5, <<num, 0, 0>>, 0)
        \/ Req(r, 2, 20, <<1, 0, 0>>, 5, <<num, 0, 0>>, 0)
Methods(r) ==
  \E code \in {2, 5}, num \in 0..MaxNum, plen \in {0, 5} : \E L \in Rl(None, <<num, 0, 0>>, Lens) :
     Req(r, code, 20, None, plen, <<num, 0, 0>>, L)
Sizes(r) ==
  \/ \E num \in 0..MaxNum, s \in {0, 2, 7} : \E L \in Rl(None, <<num, 0, s>>, Lens \cup {1200}) :
        Req(r, 1, 20, None, 0, <<num, 0, s>>, L)
  \/ \E L \in Lens \cup {1200} : Req(r, 1, 20, None, 0, None, L)

Request(r) ==
  CASE Mode = "classic" -> Classic(r)
    [] Mode = "combined" -> Combined(r)
    [] Mode = "methods" -> Methods(r)
    [] Mode = "sizes" -> Sizes(r)
    [] OTHER -> Classic(r) \/ Combined(r) \/ Methods(r) \/ Sizes(r)

(* -- TimeoutDict._tick --------------------------------------------------------- *)
TickS == /\ tdS.due = now
         /\ LET kept == Drop(spool, (DOMAIN spool) \ tdS.recent)
            IN /\ spool' = kept
               /\ tdS' = IF kept # << >> THEN [due |-> now + T, recent |-> {}] ELSE [due |-> -1, recent |-> {}]
         /\ emit' = << >> /\ UNCHANGED <<now, cache, tdC, nreq, ninv, obs>>
TickC == /\ tdC.due = now
         /\ LET kept == Drop(cache, (DOMAIN cache) \ tdC.recent)
            IN /\ cache' = kept
               /\ tdC' = IF kept # << >> THEN [due |-> now + T, recent |-> {}] ELSE [due |-> -1, recent |-> {}]
         /\ emit' = << >> /\ UNCHANGED <<now, spool, tdS, nreq, ninv, obs>>

Tick == /\ ~TimerDue /\ now < MaxTime /\ now' = now + 1 /\ emit' = << >>
        /\ UNCHANGED <<spool, cache, tdS, tdC, nreq, ninv, obs>>

End == /\ nreq = MaxEnv /\ (IF emit = << >> THEN TRUE ELSE emit[Len(emit)].k # "end")
       /\ Step(<<Ev("end", 0, "", 0, "", 0, 0, None, None, 0, 0, 0)>>)
       /\ UNCHANGED <<now, spool, cache, tdS, tdC, nreq, ninv>>

Next == \/ TickS \/ TickC
        \/ (~TimerDue /\ \E r \in 1..NRemotes : Request(r))
        \/ Tick \/ End

Spec == Init /\ [][Next]_vars
NoBad == obs.bad = {}
\* the lifetime promise of TimeoutDict, state-based: an entry used at u is present at every t < u + T
\* (what the monitor regards as certainly alive is in the tables)
AliveIsPresent ==
  /\ \A k \in DOMAIN obs.asm : (Alive(obs.asm[k], now) = "yes" /\ ~obs.asm[k].amb) => k \in DOMAIN spool
  /\ \A k \in DOMAIN obs.rend : (Alive(obs.rend[k], now) = "yes" /\ ~obs.rend[k].amb /\ obs.rend[k].chunked) => k \in DOMAIN cache
\* and what is in the cache is the rendering the monitor regards as the latest one of that key
CacheIsLatest ==
  \A k \in DOMAIN cache : (k \in DOMAIN obs.rend /\ ~obs.rend[k].amb /\ obs.rend[k].chunked)
                           => (cache[k].cid % 256 = obs.rend[k].cid /\ cache[k].len = obs.rend[k].len)
View == <<now, spool, cache, tdS, tdC, nreq, ninv, [obs EXCEPT !.cnt = 0]>>
=============================================================================
