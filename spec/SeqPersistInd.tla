--------------------------- MODULE SeqPersistInd ---------------------------
(* The persistence scheme of OSCORE sender sequence numbers                  *)
(* (oscore.py: new_sequence_number, FilesystemSecurityContext.               *)
(* post_seqnoincrease / _store / _destroy / _load) over UNBOUNDED integers,  *)
(* with a crash possible between any two steps, and an inductive invariant   *)
(* from which "no sequence number is ever issued twice" (C13_NoReuse)        *)
(* follows for every chunk size, start value and history length.  Checked    *)
(* with Apalache (IndInit /\ Next => IndInv'; Init => IndInv) in the         *)
(* thorough tier of C13; the implementation-shaped SeqPersist.tla is what    *)
(* TLC explores exhaustively and what the recorded histories are judged by.  *)
EXTENDS Integers

VARIABLES
  \* @type: Str;
  pc,          \* "idle" | "inc" | "mem" | "ret"   where new_sequence_number() currently is
  \* @type: Int;
  ssn,         \* sender_sequence_number (the next number to hand out)
  \* @type: Int;
  persisted,   \* sequence_number_persisted (in memory)
  \* @type: Int;
  disk,        \* "next-to-send" in sequence.json
  \* @type: Int;
  chunk,       \* sequence_number_chunksize
  \* @type: Int;
  ret,         \* the number new_sequence_number() is about to return
  \* @type: Int;
  maxIssued    \* the largest number returned so far (-1: none)

vars == <<pc, ssn, persisted, disk, chunk, ret, maxIssued>>

Limit == 4     \* sequence_number_chunksize_limit (any value >= 1 works; symbolic in the Apalache run below)

Init == /\ pc = "idle" /\ ssn = 0 /\ persisted = 0 /\ disk = 0 /\ chunk = 1 /\ ret = -1 /\ maxIssued = -1

Increment == /\ pc = "idle"
             /\ ret' = ssn /\ ssn' = ssn + 1 /\ pc' = "inc"
             /\ UNCHANGED <<persisted, disk, chunk, maxIssued>>

\* post_seqnoincrease: either nothing to persist, or the in-memory bound is raised first ...
NoStoreNeeded == /\ pc = "inc" /\ ssn <= persisted /\ pc' = "ret"
                 /\ UNCHANGED <<ssn, persisted, disk, chunk, ret, maxIssued>>
RaiseBound == /\ pc = "inc" /\ ssn > persisted
              /\ persisted' = persisted + chunk
              /\ chunk' = IF 2 * chunk < Limit THEN 2 * chunk ELSE Limit
              /\ pc' = "mem"
              /\ UNCHANGED <<ssn, disk, ret, maxIssued>>
\* ... and then written out (temp file, write, fsync, atomic replace: one visible effect)
Store == /\ pc = "mem" /\ disk' = persisted /\ pc' = "ret"
         /\ UNCHANGED <<ssn, persisted, chunk, ret, maxIssued>>

\* the number counts as issued when new_sequence_number() returns
Return == /\ pc = "ret"
          /\ maxIssued' = ret /\ pc' = "idle"
          /\ UNCHANGED <<ssn, persisted, disk, chunk, ret>>

\* the process dies at any point and the context is loaded again from disk
CrashAndLoad == /\ pc' = "idle" /\ ssn' = disk /\ persisted' = disk /\ chunk' = 1 /\ ret' = -1
                /\ UNCHANGED <<disk, maxIssued>>

\* clean shutdown (_destroy) stores the exact state; then load
CleanStopAndLoad == /\ pc = "idle"
                    /\ disk' = ssn /\ persisted' = ssn /\ ssn' = ssn /\ chunk' = 1 /\ ret' = -1 /\ pc' = "idle"
                    /\ UNCHANGED maxIssued

Next == Increment \/ NoStoreNeeded \/ RaiseBound \/ Store \/ Return \/ CrashAndLoad \/ CleanStopAndLoad

(* the property: a number is only ever returned if it is larger than everything returned before *)
NoReuse == pc = "ret" => ret > maxIssued

TypeOK == /\ pc \in {"idle", "inc", "mem", "ret"}
          /\ ssn \in Int /\ persisted \in Int /\ disk \in Int /\ chunk \in Int /\ ret \in Int /\ maxIssued \in Int

IndInv ==
  /\ TypeOK
  /\ chunk >= 1 /\ maxIssued >= -1 /\ ssn >= 0
  /\ maxIssued < disk            \* everything issued is below what a reload would start from
  /\ maxIssued < ssn
  /\ pc = "idle" => (ssn <= persisted /\ disk = persisted)
  /\ pc = "inc"  => (ret = ssn - 1 /\ ret > maxIssued /\ disk = persisted /\ ssn <= persisted + 1)
  /\ pc = "mem"  => (ret = ssn - 1 /\ ret > maxIssued /\ ssn <= persisted /\ disk = ssn - 1)
  /\ pc = "ret"  => (ret = ssn - 1 /\ ret > maxIssued /\ ssn <= persisted /\ disk = persisted /\ ret < disk)
  /\ NoReuse

IndInit == IndInv
Spec == Init /\ [][Next]_vars
=============================================================================
