SPECIFICATION Spec
CONSTANTS
  EmptyAckDelay = 1
  ExchangeLifetime = 3
  NRemotes = 2
  MidSpace = 3
  NToks = 2
  MaxInv = 2
  MaxTime = 7
  MaxEnv = 4
VIEW View
INVARIANT NoBad
INVARIANT PiggyOnlyForRunning
