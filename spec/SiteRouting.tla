----------------------------- MODULE SiteRouting -----------------------------
(***************************************************************************)
(* Property C17: routing of requests through a tree of aiocoap             *)
(* resource.Site objects and the /.well-known/core listing built from it.  *)
(*                                                                         *)
(* The module is written to be bound to the code:                          *)
(*  - the reference operators Route / Listing / Filter are pure and take   *)
(*    the "world" W (ids, link attributes) and the registration state as   *)
(*    arguments, so that TLC can evaluate them (a) on every state of the   *)
(*    small model below and (b) on histories read from JSON                *)
(*    (SiteRoutingEval.tla) -- the expected outcomes that the Python       *)
(*    driver compares the real Site objects against always come from here; *)
(*  - every action is Do(o) for an operation record o; Apply(W,st,pv,o)    *)
(*    yields the next registration state and the expected outcome `exp',   *)
(*    so that behaviours produced by `tlc -simulate' carry their oracle.   *)
(*                                                                         *)
(* Strings (path segments, hrefs, attribute names/values, filter values)   *)
(* are sequences of one-character strings, because RFC 6690 filtering      *)
(* needs prefix tests and splitting at spaces, which TLA+ strings do not   *)
(* offer.  Site / resource ids are ordinary (atomic) strings.              *)
(*                                                                         *)
(* Domain (DESIGN Appendix C, section 10): nested sites are never          *)
(* registered at the empty path; the nesting relation is acyclic; Remove   *)
(* is used only where exactly one of {resource, nested site} is registered *)
(* at the path (Site's documentation excludes removal otherwise); the      *)
(* /.well-known/core entry of the root site is never replaced; filter      *)
(* values contain no space.                                                *)
(***************************************************************************)
EXTENDS Naturals, Sequences, FiniteSets, TLC

SX == INSTANCE SequencesExt   \* FoldLeft: iterative (Java module override), keeps TLC's stack flat

CONSTANTS
  Root,        \* id of the root site
  SubSites,    \* ids of Site objects that can be nested
  Leaves,      \* ids of PathCapable catch-all handlers (registered like sites)
  ResIds,      \* ids of plain resources that the model registers
  Segs,        \* alphabet of path segments (set of strings-as-sequences)
  MaxRegLen,   \* longest registration path
  MaxReqLen,   \* longest request path
  MaxEntries,  \* bound on the number of registrations in the whole tree
  WithQueries  \* TRUE: Request / Discover actions enabled (behaviour generation)

VARIABLES
  st,    \* [res |-> [site -> [path -> resource id]], sub |-> [site -> [path -> site/leaf id]]]
         \*   one function per dict of the implementation (Site._resources / Site._subsites)
  prev,  \* st before the most recent mutating operation (only used to label stale answers)
  act,   \* the operation performed by the last step
  exp,   \* its expected outcome
  asked  \* request paths issued so far (behaviour generation: they are asked again
         \*   after later mutations, so that "adding or removing takes effect for the
         \*   next request" is exercised on paths the implementation has served before)

vars == <<st, prev, act, exp, asked>>

-----------------------------------------------------------------------------
(* Strings as sequences of characters                                        *)

IsPrefixOf(a, b) == Len(a) <= Len(b) /\ SubSeq(b, 1, Len(a)) = a
IsSuffixOf(a, b) == Len(a) <= Len(b) /\ SubSeq(b, Len(b) - Len(a) + 1, Len(b)) = a

RECURSIVE Join(_, _)
Join(p, sep) == IF p = <<>> THEN <<>>
                ELSE IF Len(p) = 1 THEN p[1]
                ELSE p[1] \o sep \o Join(Tail(p), sep)

(* URI path of a sequence of Uri-Path segments (RFC 7252 6.5): "/" seg "/" seg ... ; "/" if none *)
Href(p) == <<"/">> \o Join(p, <<"/">>)

(* The set of space-separated values of an attribute value *)
RECURSIVE Parts(_)
Parts(v) == LET sp == {i \in 1..Len(v) : v[i] = " "}
            IN IF sp = {} THEN {v}
               ELSE LET i == CHOOSE j \in sp : \A k \in sp : j <= k
                    IN {SubSeq(v, 1, i - 1)} \cup Parts(SubSeq(v, i + 1, Len(v)))

SeqsUpTo(S, n) == UNION {[1..k -> S] : k \in 0..n}

WkcPath == << <<".","w","e","l","l","-","k","n","o","w","n">>, <<"c","o","r","e">> >>

-----------------------------------------------------------------------------
(* Registration state                                                        *)

Put(f, k, v) == [x \in (DOMAIN f) \cup {k} |-> IF x = k THEN v ELSE f[x]]
Drop(f, k)   == IF (DOMAIN f) \ {k} = {} THEN <<>> ELSE [x \in (DOMAIN f) \ {k} |-> f[x]]

DoAddRes(s0, s, p, r) == [s0 EXCEPT !.res[s] = Put(@, p, r)]
DoAddSub(s0, s, p, c) == [s0 EXCEPT !.sub[s] = Put(@, p, c)]
DoRemove(s0, s, p)    == IF p \in DOMAIN s0.sub[s]
                         THEN [s0 EXCEPT !.sub[s] = Drop(@, p)]
                         ELSE [s0 EXCEPT !.res[s] = Drop(@, p)]

Entries(W, s0) ==
  LET RECURSIVE Sum(_)
      Sum(S) == IF S = {} THEN 0
                ELSE LET x == CHOOSE y \in S : TRUE
                     IN Cardinality(DOMAIN s0.res[x]) + Cardinality(DOMAIN s0.sub[x]) + Sum(S \ {x})
  IN Sum(W.sites)

(* nested Site objects directly below s *)
Children(W, s0, s) == {s0.sub[s][p] : p \in DOMAIN s0.sub[s]} \ W.leaves

RECURSIVE Closure(_, _, _, _)
Closure(W, s0, S, n) ==
  IF n = 0 THEN S ELSE Closure(W, s0, S \cup UNION {Children(W, s0, x) : x \in S}, n - 1)

(* c and everything nested below it *)
Below(W, s0, c) == Closure(W, s0, {c}, Cardinality(W.sites))

Acyclic(W, s0) == \A s \in W.sites : \A c \in Children(W, s0, s) : s \notin Below(W, s0, c)

-----------------------------------------------------------------------------
(* Reference operators: the statement of C17                                 *)

NotFound == [kind |-> "nf", via |-> "none", id |-> "", seen |-> <<>>]

(* Route(W, s0, s, p): who renders a request with Uri-Path p that site s     *)
(* receives.  "resource registered at exactly that path if there is one,     *)
(* otherwise the nested site registered at the longest proper [non-empty]    *)
(* prefix of the path, which receives the remaining components [a remainder  *)
(* <<"">> becomes <<>>: the nested site's root resource has the              *)
(* trailing-slash address], otherwise 4.04".  `via' tells which rule site s  *)
(* itself applied, `seen' is the Uri-Path the final handler is given.        *)
RECURSIVE Route(_, _, _, _)
Route(W, s0, s, p) ==
  IF p \in DOMAIN s0.res[s]
  THEN [kind |-> "hit", via |-> "exact", id |-> s0.res[s][p], seen |-> <<>>]
  ELSE LET K == {k \in 1..(Len(p) - 1) : SubSeq(p, 1, k) \in DOMAIN s0.sub[s]}
       IN IF K = {} THEN NotFound
          ELSE LET k    == CHOOSE j \in K : \A i \in K : i <= j
                   c    == s0.sub[s][SubSeq(p, 1, k)]
                   rem0 == SubSeq(p, k + 1, Len(p))
                   rem  == IF rem0 = << <<>> >> THEN <<>> ELSE rem0
               IN IF c \in W.leaves
                  THEN [kind |-> "hit", via |-> "prefix", id |-> c, seen |-> rem]
                  ELSE LET r == Route(W, s0, c, rem)
                       IN IF r.kind = "nf" THEN NotFound ELSE [r EXCEPT !.via = "prefix"]

Link(h, a) == [href |-> h, pairs |-> a]

(* Listing(W, s0, s): links of all resources below s that do not hide        *)
(* themselves, with their full paths through nested sites.  PathCapable      *)
(* leaves describe no links.                                                 *)
RECURSIVE Listing(_, _, _)
Listing(W, s0, s) ==
  {Link(Href(p), W.attrs[s0.res[s][p]].pairs) :
      p \in {q \in DOMAIN s0.res[s] : ~W.attrs[s0.res[s][q]].hidden}}
  \cup
  UNION {{Link(Href(p) \o l.href, l.pairs) : l \in Listing(W, s0, s0.sub[s][p])} :
      p \in {q \in DOMAIN s0.sub[s] : s0.sub[s][q] \notin W.leaves}}

(* RFC 6690 section 4.1, one filter [key, val, star]: `href' is compared     *)
(* with the link target, any other key with the attribute of that name; rt,  *)
(* if and ct hold space-separated values of which one has to match; without  *)
(* star the value has to be identical, with star `val' has to be a prefix.   *)
(* A link that does not carry the attribute never matches.                   *)
S_href == <<"h","r","e","f">>
MultiValued == {<<"r","t">>, <<"i","f">>, <<"c","t">>}

Matches(x, f) == IF f.star THEN IsPrefixOf(f.val, x) ELSE x = f.val

LinkMatches(l, f) ==
  IF f.key = S_href THEN Matches(l.href, f)
  ELSE \E i \in 1..Len(l.pairs) :
          /\ l.pairs[i][1] = f.key
          /\ IF f.key \in MultiValued
             THEN \E part \in Parts(l.pairs[i][2]) : Matches(part, f)
             ELSE Matches(l.pairs[i][2], f)

Filter(L, f) == {l \in L : LinkMatches(l, f)}

NoFilter == [key |-> <<>>, val |-> <<>>, star |-> FALSE]

-----------------------------------------------------------------------------
(* Operations and their expected outcomes                                    *)

(* A request also says how it is sent: method, confirmable or not, and the   *)
(* authority it names (Uri-Host / Uri-Port; <<>> and 0 = option absent).  The *)
(* routing decision depends on none of these; the handler has to be able to  *)
(* reconstruct the named authority along with path and query.                *)
Methods == {"GET", "POST", "PUT", "DELETE", "FETCH"}

MkOp(op, s, p, id, q, f) ==
  [op |-> op, site |-> s, path |-> p, id |-> id, query |-> q,
   key |-> f.key, val |-> f.val, star |-> f.star,
   method |-> "GET", con |-> FALSE, host |-> <<>>, port |-> 0]

InDomain(W, s0, o) ==
  CASE o.op = "add" ->
         /\ o.site \in W.sites /\ o.id \in DOMAIN W.attrs /\ o.id # "wkc"
         /\ ~(o.site = W.root /\ o.path = WkcPath)
    [] o.op = "addsite" ->
         /\ o.site \in W.sites /\ o.path # <<>> /\ o.id # o.site /\ o.id # W.root
         /\ \/ o.id \in W.leaves
            \/ o.id \in W.sites /\ o.site \notin Below(W, s0, o.id)
    [] o.op = "remove" ->
         /\ o.site \in W.sites
         /\ (o.path \in DOMAIN s0.res[o.site]) # (o.path \in DOMAIN s0.sub[o.site])
         /\ ~(o.site = W.root /\ o.path = WkcPath)
    [] o.op = "request"  -> o.path # WkcPath /\ o.method \in Methods
    [] o.op = "discover" -> Route(W, s0, W.root, WkcPath).id = "wkc"
    [] OTHER -> FALSE

Short(r) == [kind |-> r.kind, id |-> r.id, seen |-> r.seen]

ReqExp(W, s0, pv, o) ==
  LET r == Route(W, s0, W.root, o.path)
      u == Href(o.path) \o (IF o.query = <<>> THEN <<>> ELSE <<"?">> \o o.query)
  IN [kind |-> r.kind, via |-> r.via, id |-> r.id, seen |-> r.seen,
      uri |-> IF r.kind = "nf" THEN <<>> ELSE u,
      host |-> o.host, port |-> o.port,
      stale |-> Short(Route(W, pv, W.root, o.path))]

DiscExp(W, s0, o) ==
  LET L == Listing(W, s0, W.root)
      f == [key |-> o.key, val |-> o.val, star |-> o.star]
  IN [kind |-> "links", all |-> L, sel |-> IF o.key = <<>> THEN L ELSE Filter(L, f)]

Ok == [kind |-> "ok"]

(* Presentation: expected outcomes are handed to the driver with ordinary    *)
(* strings (TLC concatenates strings with \o), which keeps simulation files  *)
(* and evaluator output small.                                               *)
Flat(s) == SX!FoldLeft(LAMBDA acc, c : acc \o c, "", s)
FlatEach(q) == [i \in 1..Len(q) |-> Flat(q[i])]
ShowLinks(L) == {[href |-> Flat(l.href),
                  pairs |-> [i \in 1..Len(l.pairs) |-> <<Flat(l.pairs[i][1]), Flat(l.pairs[i][2])>>]] : l \in L}
Show(e) ==
  CASE e.kind \in {"hit", "nf"} ->
         [kind |-> e.kind, via |-> e.via, id |-> e.id, seen |-> FlatEach(e.seen), uri |-> Flat(e.uri),
          host |-> Flat(e.host), port |-> e.port,
          stale |-> [kind |-> e.stale.kind, id |-> e.stale.id, seen |-> FlatEach(e.stale.seen)]]
    [] e.kind = "links" -> [kind |-> "links", all |-> ShowLinks(e.all), sel |-> ShowLinks(e.sel)]
    [] OTHER -> e

(* next registration state, next `prev', expected outcome *)
Apply(W, s0, pv, o) ==
  CASE o.op = "add"      -> [st |-> DoAddRes(s0, o.site, o.path, o.id), prev |-> s0, exp |-> Ok]
    [] o.op = "addsite"  -> [st |-> DoAddSub(s0, o.site, o.path, o.id), prev |-> s0, exp |-> Ok]
    [] o.op = "remove"   -> [st |-> DoRemove(s0, o.site, o.path), prev |-> s0, exp |-> Ok]
    [] o.op = "request"  -> [st |-> s0, prev |-> pv, exp |-> ReqExp(W, s0, pv, o)]
    [] o.op = "discover" -> [st |-> s0, prev |-> pv, exp |-> DiscExp(W, s0, o)]

EmptySt(W) == [res |-> [s \in W.sites |-> <<>>], sub |-> [s \in W.sites |-> <<>>]]
(* the root site carries the WKCResource, as every aiocoap server does *)
InitSt(W) == DoAddRes(EmptySt(W), W.root, WkcPath, "wkc")

-----------------------------------------------------------------------------
(* The small model                                                           *)

(* `bare': the driver registers an object that implements interfaces.Resource *)
(* only (no get_link_description): it does not hide itself, so it is listed, *)
(* without attributes.  r2's title contains a space: title is single-valued, *)
(* the whole value is what a filter is compared with.                        *)
ModelAttrs ==
  [ r1  |-> [hidden |-> FALSE, bare |-> FALSE, pairs |-> <<<<<<"r","t">>, <<"t","1"," ","t","2">>>>, <<<<"i","f">>, <<"i","1">>>>>>],
    r2  |-> [hidden |-> FALSE, bare |-> FALSE, pairs |-> <<<<<<"c","t">>, <<"0"," ","4","1">>>>, <<<<"f","o","o">>, <<"b","a","r">>>>, <<<<"t","i","t","l","e">>, <<"t","1"," ","x">>>>>>],
    r3  |-> [hidden |-> TRUE,  bare |-> FALSE, pairs |-> <<<<<<"r","t">>, <<"t","1">>>>>>],
    r4  |-> [hidden |-> FALSE, bare |-> TRUE,  pairs |-> <<>>],
    wkc |-> [hidden |-> FALSE, bare |-> FALSE, pairs |-> <<<<<<"c","t">>, <<"4","0">>>>>>] ]

ASSUME ResIds \subseteq {"r1", "r2", "r3", "r4"}
ASSUME Root \notin SubSites /\ Leaves \cap (SubSites \cup {Root}) = {}

MW == [root |-> Root, sites |-> {Root} \cup SubSites, leaves |-> Leaves, attrs |-> ModelAttrs]

(* The driver builds its real test resources from this printed description   *)
(* (it does not keep a copy of the attribute table).                         *)
ShowWorld ==
  [root |-> Root, sites |-> MW.sites, leaves |-> Leaves,
   wrapped |-> SubSites \cap {"S2"},   \* nested through a PathCapable wrapper that is no Site
   attrs |-> [r \in ResIds \cup {"wkc"} |->
                [hidden |-> ModelAttrs[r].hidden, bare |-> ModelAttrs[r].bare,
                 pairs  |-> [i \in 1..Len(ModelAttrs[r].pairs) |->
                               <<Flat(ModelAttrs[r].pairs[i][1]), Flat(ModelAttrs[r].pairs[i][2])>>]]]]
ASSUME PrintT(<<"C17WORLD", ShowWorld>>)

Segs2 == {<<"a">>, <<>>}
Segs3 == {<<"a">>, <<"b">>, <<>>}

RegPaths == SeqsUpTo(Segs, MaxRegLen)
ReqPaths == SeqsUpTo(Segs, MaxReqLen)

F(k, v, s) == [key |-> k, val |-> v, star |-> s]
ModelFilters ==
  { F(<<"h","r","e","f">>, <<"/","a">>, FALSE),
    F(<<"h","r","e","f">>, <<"/","a">>, TRUE),
    F(<<"h","r","e","f">>, <<"/","a","/">>, TRUE),
    F(<<"h","r","e","f">>, <<"/">>, FALSE),
    F(<<"r","t">>, <<"t","1">>, FALSE),
    F(<<"r","t">>, <<"t","2">>, FALSE),
    F(<<"r","t">>, <<"t">>, TRUE),
    F(<<"r","t">>, <<"1">>, TRUE),
    F(<<"r","t">>, <<>>, TRUE),
    F(<<"i","f">>, <<"i","1">>, FALSE),
    F(<<"i","f">>, <<"i">>, TRUE),
    F(<<"c","t">>, <<"4","1">>, FALSE),
    F(<<"c","t">>, <<"4">>, TRUE),
    F(<<"c","t">>, <<>>, TRUE),
    F(<<"f","o","o">>, <<"b","a","r">>, FALSE),
    F(<<"f","o","o">>, <<"b","a">>, TRUE),
    F(<<"f","o","o">>, <<"a","r">>, TRUE),
    F(<<"f","o","o">>, <<>>, TRUE),
    F(<<"t","i","t","l","e">>, <<"t","1"," ","x">>, FALSE),
    F(<<"t","i","t","l","e">>, <<"t","1","x">>, FALSE),
    F(<<"t","i","t","l","e">>, <<"t","1">>, FALSE),
    F(<<"t","i","t","l","e">>, <<"x">>, FALSE),
    F(<<"t","i","t","l","e">>, <<"t","1">>, TRUE),
    F(<<"t","i","t","l","e">>, <<"x">>, TRUE),
    F(<<"r","t">>, <<"T","1">>, FALSE),
    F(<<"r","t">>, <<"T">>, TRUE),
    F(<<"h","r","e","f">>, <<"/","A">>, TRUE),
    F(<<"f","o","o">>, <<"B","A","R">>, FALSE),
    F(<<"z","z">>, <<>>, TRUE) }

(* the model sends requests without Uri-Query; histories evaluated through  *)
(* SiteRoutingEval also carry queries                                       *)
ModelQueries == {<<>>}

Init == /\ st = InitSt(MW)
        /\ prev = InitSt(MW)
        /\ act = MkOp("init", Root, <<>>, "", <<>>, NoFilter)
        /\ exp = Ok
        /\ asked = {}

Do(o) == /\ InDomain(MW, st, o)
         /\ LET r == Apply(MW, st, prev, o)
            IN /\ Entries(MW, r.st) <= MaxEntries + 1   \* + 1: the WKC entry
               /\ st' = r.st /\ prev' = r.prev /\ exp' = Show(r.exp)
         /\ act' = o

(* Behaviour generation (WithQueries): simulation picks successors blindly,  *)
(* which would drown the few mutations and reachable paths in 4.04 requests  *)
(* and listings.  The environment therefore takes turns -- mutate, request,  *)
(* mutate or request, discover -- and requests aim at paths that reach       *)
(* something now, reached something before the last mutation, are related    *)
(* (as prefix or extension) to a path registered at the root, or are empty.  *)
(* The request that follows a mutation goes to a path that was asked before *)
(* -- preferably one whose answer that mutation has changed --, because an   *)
(* implementation may remember what it answered (ReAsk).  How a request is   *)
(* sent (method, CON/NON, Uri-Host, Uri-Port) is drawn at random.            *)
(* This restricts only which behaviours the generator produces; the          *)
(* exhaustive run (WithQueries = FALSE) is not affected.                     *)
Turn == IF WithQueries THEN (TLCGet("level") % 4) + 1 ELSE 0
MayMutate   == Turn \in {0, 1, 3}
MayRequest  == Turn \in {2, 3}
MayDiscover == Turn = 4

(* (These generator predicates are written with IF rather than \/ : inside  *)
(* an action TLC treats a disjunction (and a bounded \E) as a choice of       *)
(* sub-actions and would produce the same successor once per true disjunct.) *)
Interesting(p) ==
  IF p = <<>> THEN TRUE
  ELSE IF Route(MW, st, Root, p).kind = "hit" THEN TRUE
  ELSE IF Route(MW, prev, Root, p).kind = "hit" THEN TRUE
  ELSE {e \in (DOMAIN st.res[Root] \cup DOMAIN st.sub[Root]) \ {WkcPath, <<>>} :
           IsPrefixOf(e, p) \/ IsPrefixOf(p, e)} # {}

Changed == {p \in asked : Short(Route(MW, prev, Root, p)) # Short(Route(MW, st, Root, p))}
ReAsk   == IF Turn = 2 /\ asked # {} THEN (IF Changed # {} THEN Changed ELSE asked) ELSE {}
Aimed(p) == IF ReAsk # {} THEN p \in ReAsk ELSE IF p \in asked THEN TRUE ELSE Interesting(p)

ModelHosts == {<<>>, <<"v",".","e","x","a","m","p","l","e">>}
ModelPorts == {0, 61616}

(* Mutations are biased towards the root's registrations at (prefixes of)    *)
(* paths that were asked before; the others are thinned out at random.       *)
Touches(s, p) == s = Root /\ p # <<>> /\ \E a \in asked : IsPrefixOf(p, a)
Biased(s, p)  == IF ~WithQueries THEN TRUE
                 ELSE IF asked = {} THEN TRUE
                 ELSE IF Touches(s, p) THEN TRUE
                 ELSE RandomElement(1..4) = 1

AddResource(s, p, r) == MayMutate /\ Biased(s, p) /\ Do(MkOp("add", s, p, r, <<>>, NoFilter)) /\ UNCHANGED asked
AddSite(s, p, c)     == MayMutate /\ Biased(s, p) /\ Do(MkOp("addsite", s, p, c, <<>>, NoFilter)) /\ UNCHANGED asked
Remove(s, p)         == MayMutate /\ Biased(s, p) /\ Do(MkOp("remove", s, p, "", <<>>, NoFilter)) /\ UNCHANGED asked
Request(p, q) ==
  /\ MayRequest /\ Aimed(p)
  /\ \E m \in {RandomElement(Methods)}, c \in {RandomElement(BOOLEAN)},
        h \in {RandomElement(ModelHosts)}, n \in {RandomElement(ModelPorts)} :
        Do([MkOp("request", Root, p, "", q, NoFilter) EXCEPT !.method = m, !.con = c, !.host = h, !.port = n])
  /\ asked' = asked \cup {p}
Discover(f)          == MayDiscover /\ Do(MkOp("discover", Root, WkcPath, "", <<>>, f)) /\ UNCHANGED asked

(* Candidates are enumerated so that hopeless ones (no room left for a new    *)
(* entry, nothing registered to remove) are not even built; Do decides.      *)
Room == Entries(MW, st) <= MaxEntries
Next == \/ \E s \in MW.sites :
              \E p \in (IF Room THEN RegPaths ELSE RegPaths \cap DOMAIN st.res[s]) :
                 \E r \in ResIds : AddResource(s, p, r)
        \/ \E s \in MW.sites :
              \E p \in (IF Room THEN RegPaths ELSE RegPaths \cap DOMAIN st.sub[s]) :
                 \E c \in SubSites \cup Leaves : AddSite(s, p, c)
        \/ \E s \in MW.sites :
              \E p \in RegPaths \cap (DOMAIN st.res[s] \cup DOMAIN st.sub[s]) : Remove(s, p)
        \/ \E p \in (IF ReAsk # {} THEN ReAsk ELSE ReqPaths), q \in ModelQueries : Request(p, q)
        \/ \E f \in ModelFilters \cup {NoFilter} : Discover(f)

Spec == Init /\ [][Next]_vars

(* act / exp / prev / asked are outputs for replay and labelling; the invariants *)
(* below are functions of st alone, so the exhaustive run may identify       *)
(* states by st.                                                             *)
View == st

-----------------------------------------------------------------------------
(* Design-level invariants of the reference operators (exhaustive run).      *)
(* Each is quantified over every site, every request path within the bound   *)
(* and every model filter, in every reachable registration state.            *)

Paths == DOMAIN st.res[Root] \cup DOMAIN st.sub[Root]

TypeOK ==
  /\ Acyclic(MW, st)
  /\ \A s \in MW.sites :
        /\ \A p \in DOMAIN st.res[s] : st.res[s][p] \in ResIds \cup {"wkc"}
        /\ \A p \in DOMAIN st.sub[s] : p # <<>> /\ st.sub[s][p] \in (SubSites \cup Leaves) \ {s}
  /\ st.res[Root][WkcPath] = "wkc"

Handle(c, rem) == IF c \in Leaves
                  THEN [kind |-> "hit", via |-> "prefix", id |-> c, seen |-> rem]
                  ELSE LET r == Route(MW, st, c, rem)
                       IN IF r.kind = "nf" THEN NotFound ELSE [r EXCEPT !.via = "prefix"]
Norm(rem) == IF rem = << <<>> >> THEN <<>> ELSE rem

(* exact match wins over every nested site *)
ExactWins ==
  \A s \in MW.sites, p \in ReqPaths :
     p \in DOMAIN st.res[s] =>
        Route(MW, st, s, p) = [kind |-> "hit", via |-> "exact", id |-> st.res[s][p], seen |-> <<>>]

(* declarative restatement of the prefix rule: the dispatching prefix is     *)
(* registered, proper, non-empty, and no longer registered one exists        *)
LongestPrefix ==
  \A s \in MW.sites, p \in ReqPaths :
     p \notin DOMAIN st.res[s] =>
        LET K == {k \in 1..(Len(p) - 1) : SubSeq(p, 1, k) \in DOMAIN st.sub[s]}
        IN IF K = {} THEN Route(MW, st, s, p) = NotFound
           ELSE \E k \in K :
                  /\ \A j \in K : j <= k
                  /\ Route(MW, st, s, p) = Handle(st.sub[s][SubSeq(p, 1, k)], Norm(SubSeq(p, k + 1, Len(p))))

(* a handler never sees more than the request carried, and what it sees is   *)
(* a suffix of it (up to the <<"">> -> <<>> rule)                            *)
SeenIsSuffix ==
  \A p \in ReqPaths :
     LET r == Route(MW, st, Root, p)
     IN r.kind = "hit" => \/ IsSuffixOf(r.seen, p)
                          \/ r.seen = <<>> /\ p[Len(p)] = <<>>

(* adding takes effect at once; removing a resource makes the path fall back *)
(* to the prefix rule (or 4.04)                                              *)
AddTakesEffect ==
  \A s \in MW.sites, p \in RegPaths, r \in ResIds :
     Route(MW, DoAddRes(st, s, p, r), s, p).id = r

RemovalFallsBack ==
  \A s \in MW.sites, p \in RegPaths :
     (p \in DOMAIN st.res[s] /\ p \notin DOMAIN st.sub[s] /\ ~(s = Root /\ p = WkcPath)) =>
        LET s2 == DoRemove(st, s, p)
            r2 == Route(MW, s2, s, p)
        IN /\ p \notin DOMAIN s2.res[s]
           /\ r2.via # "exact"
           /\ \A q \in ReqPaths : q # p => Route(MW, s2, s, q) = Route(MW, st, s, q)

(* whatever a request path reaches (a plain resource that does not hide      *)
(* itself) is listed under exactly that path                                 *)
RoutableListed ==
  LET L == Listing(MW, st, Root)
  IN \A p \in ReqPaths \cup {WkcPath} :
        LET r == Route(MW, st, Root, p)
        IN (r.kind = "hit" /\ r.id \notin Leaves /\ ~ModelAttrs[r.id].hidden)
              => Link(Href(p), ModelAttrs[r.id].pairs) \in L

(* every listed link stems from a registration of a non-hidden resource in   *)
(* a site nested (transitively) below the root, and ends in that path        *)
ListingSound ==
  \A l \in Listing(MW, st, Root) :
     \E s \in Below(MW, st, Root) : \E p \in DOMAIN st.res[s] :
        /\ ~ModelAttrs[st.res[s][p]].hidden
        /\ l.pairs = ModelAttrs[st.res[s][p]].pairs
        /\ IsSuffixOf(Href(p), l.href)

HiddenNeverListed ==
  \A l \in Listing(MW, st, Root) : l.pairs # ModelAttrs["r3"].pairs

FilterSane ==
  LET L == Listing(MW, st, Root)
  IN \A f \in ModelFilters :
        /\ Filter(L, f) \subseteq L
        /\ Filter(L, [f EXCEPT !.star = FALSE]) \subseteq Filter(L, [f EXCEPT !.star = TRUE])
        /\ (f.key = S_href /\ ~f.star) => \A l \in Filter(L, f) : l.href = f.val
        /\ (f.key # S_href /\ f.star /\ f.val = <<>>) =>
              Filter(L, f) = {l \in L : \E i \in 1..Len(l.pairs) : l.pairs[i][1] = f.key}
=============================================================================
