---------------------------- MODULE EndToEndObs ----------------------------
(* Clauses evaluated on recorded executions of two real aiocoap contexts    *)
(* talking through a lossy, duplicating network (harness/e2edrive.py); the  *)
(* safety and liveness properties of spec/EndToEnd.tla restated over the    *)
(* observable events:                                                       *)
(*   submit(q)  tx(side, kind, n, cls = network decision)  call(q, inv)     *)
(*   done(q, cls, inv)  loopexc  end(n = datagrams dropped)                 *)
EXTENDS Naturals, Integers, Sequences, FiniteSets

CONSTANTS MaxRetransmit, NReq

Has(f, k) == k \in DOMAIN f
Put(f, k, v) == [x \in (DOMAIN f) \cup {k} |-> IF x = k THEN v ELSE f[x]]

ObsInit == [ rq |-> << >>,     \* q -> [calls, inv, done, cls]
             bad |-> {} ]

Flag(o, c) == [o EXCEPT !.bad = @ \cup {c}]
FlagIf(o, cond, c) == IF cond THEN Flag(o, c) ELSE o

ObsSubmit(o, e) == [o EXCEPT !.rq = Put(@, e.q, [calls |-> 0, inv |-> 0, done |-> 0, cls |-> ""])]

ObsCall(o, e) ==
  IF ~Has(o.rq, e.q) THEN Flag(o, "E2E_CallWithoutRequest")
  ELSE FlagIf([o EXCEPT !.rq[e.q].calls = @ + 1, !.rq[e.q].inv = e.inv],
              o.rq[e.q].calls >= 1, "E2E_AtMostOnceExecution")

ObsDone(o, e) ==
  IF ~Has(o.rq, e.q) THEN Flag(o, "E2E_DoneUnknown")
  ELSE LET s == o.rq[e.q]
           o1 == FlagIf(o, s.done >= 1, "E2E_CompletesOnce")
           o2 == FlagIf(o1, e.cls = "resp" /\ ~(s.calls = 1 /\ e.inv = s.inv), "E2E_ResponseMatchesRequest")
           o3 == FlagIf(o2, e.cls = "other", "E2E_ErrorsAreLibraryErrors")
       IN [o3 EXCEPT !.rq[e.q].done = @ + 1, !.rq[e.q].cls = e.cls]

\* copies of one kind are bounded by the retransmission budget (per request)
ObsTx(o, e) == FlagIf(o, e.kind \in {"REQ", "SEP"} /\ e.n > NReq * (MaxRetransmit + 1), "E2E_CopiesBounded")

ObsEnd(o, e) ==
  LET o1 == FlagIf(o, e.n <= MaxRetransmit /\ \E q \in DOMAIN o.rq : o.rq[q].cls # "resp",
                   "E2E_CompletesUnderBoundedLoss")
  IN o1

ObsEvent(o, e) ==
  CASE e.k = "submit"  -> ObsSubmit(o, e)
    [] e.k = "call"    -> ObsCall(o, e)
    [] e.k = "done"    -> ObsDone(o, e)
    [] e.k = "tx"      -> ObsTx(o, e)
    [] e.k = "loopexc" -> Flag(o, "E2E_NoLoopException")
    [] e.k = "end"     -> ObsEnd(o, e)
    [] OTHER           -> o
=============================================================================
