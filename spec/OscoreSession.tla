--------------------------- MODULE OscoreSession ---------------------------
(* Stateful companion of Oscore.tla for property C11: two endpoints A and B *)
(* that share one OSCORE security context pair and KEEP their state -- the  *)
(* sender sequence number and the recipient replay window (possibly         *)
(* uninitialised, as after an unclean restart) -- while genuine messages    *)
(* are exchanged in both directions (role reversal), several responses with *)
(* their own partial IV answer one request (Observe notifications), the     *)
(* sender's numbers have gaps larger than the window, and the network       *)
(* delivers late, out of order and more than once.                          *)
(*                                                                          *)
(* RFC 8613 (section 7.4, 8.4) applies the replay window to REQUESTS only:  *)
(* a response that the matching context produced for a request verifies     *)
(* with that request's identifiers however often and in whatever order it   *)
(* arrives, and whatever the state of the receiver's window.  The only      *)
(* effect a response may have on the window is to initialise it when it is  *)
(* uninitialised and Echo recovery is enabled (CanUnprotect.unprotect,      *)
(* `try_initialize`).                                                       *)
(*                                                                          *)
(* Clauses (monitor, shared with OscoreSessionTrace):                       *)
(*   C11_RoundTrip     a genuine response delivered with the identifiers of *)
(*                     the request it answers yields the original message;  *)
(*                     a request that is accepted yields the original       *)
(*   C11_ResponseBound a genuine response delivered against another         *)
(*                     request's identifiers is rejected                    *)
(*   C11_ErrorFamily   whatever is delivered, unprotect returns a message   *)
(*                     or raises an error of the ProtectionInvalid family   *)
(* StrikeResponses = TRUE models an implementation that also strikes the    *)
(* partial IV of responses out of the window; TLC then exhibits the         *)
(* design-level counterexample.                                             *)
EXTENDS Naturals, Integers, Sequences, FiniteSets, TLC

CONSTANTS Ws,               \* window sizes explored
          StrikeResponses,
          MaxReq, MaxResp, MaxBurn, MaxDeliver

Ends == {"A", "B"}
Other(x) == IF x = "A" THEN "B" ELSE "A"

NoWin    == [init |-> FALSE, index |-> 0, seen |-> {}]
EmptyWin == [init |-> TRUE,  index |-> 0, seen |-> {}]

Valid(w, size, n) == n >= w.index /\ (n >= w.index + size \/ n \notin w.seen)
Strike(w, size, n) ==
  LET over == n - (w.index + size - 1)
      ni   == IF over > 0 THEN w.index + over ELSE w.index
  IN [w EXCEPT !.index = ni, !.seen = {x \in w.seen : x >= ni} \cup {n}]

EpInit(init, echo) == [ssn |-> 0, win |-> IF init THEN EmptyWin ELSE NoWin, echo |-> echo]

(* unprotect of a genuine request with number n (no Echo option: recovery is C12's subject) *)
RxRequest(e, size, n) ==
  IF e.win.init /\ Valid(e.win, size, n)
    THEN [res |-> "msg", ep |-> [e EXCEPT !.win = Strike(@, size, n)]]
    ELSE [res |-> "reject", ep |-> e]

(* unprotect of a genuine response; n = -1: it reuses the request's nonce;  *)
(* own: the identifiers passed are those of the request it answers          *)
RxResponse(e, size, n, own) ==
  IF ~own THEN [res |-> "reject", ep |-> e]                 \* the AEAD fails before anything else happens
  ELSE IF StrikeResponses /\ n >= 0 /\ (~e.win.init \/ ~Valid(e.win, size, n))
    THEN [res |-> "other", ep |-> e]                        \* strike_out raises ValueError / TypeError
  ELSE LET e1 == IF StrikeResponses /\ n >= 0 THEN [e EXCEPT !.win = Strike(@, size, n)] ELSE e
           e2 == IF ~e1.win.init /\ e1.echo /\ n >= 0
                   THEN [e1 EXCEPT !.win = [init |-> TRUE, index |-> n, seen |-> {n}]]
                   ELSE e1
       IN [res |-> "msg", ep |-> e2]

(* monitor: one delivery of a genuine, unmodified message to the peer *)
Judge(kind, own, res, equal) ==
  (IF res = "other" THEN {"C11_ErrorFamily"} ELSE {})
  \cup (IF kind = "resp" /\ own /\ ~(res = "msg" /\ equal) THEN {"C11_RoundTrip"} ELSE {})
  \cup (IF kind = "resp" /\ ~own /\ res = "msg" THEN {"C11_ResponseBound"} ELSE {})
  \cup (IF kind = "req" /\ res = "msg" /\ ~equal THEN {"C11_RoundTrip"} ELSE {})

VARIABLES size,    \* window size of both endpoints
          ep,      \* endpoint -> [ssn, win, echo]
          net,     \* genuine protected messages: [kind, from, n, rq]
          acc,     \* requests (net indices) their recipient has accepted
          reused,  \* requests whose nonce a response has reused
          nb, nd,  \* budgets used
          bad,     \* clauses found false
          act      \* last step (outside the VIEW)

vars == <<size, ep, net, acc, reused, nb, nd, bad, act>>

Count(kind) == Cardinality({i \in 1..Len(net) : net[i].kind = kind})

Init == \E w \in Ws, ia \in BOOLEAN, ib \in BOOLEAN, ea \in BOOLEAN, eb \in BOOLEAN :
          /\ size = w
          /\ ep = [x \in Ends |-> IF x = "A" THEN EpInit(ia, ea) ELSE EpInit(ib, eb)]
          /\ net = << >> /\ acc = {} /\ reused = {} /\ nb = 0 /\ nd = 0 /\ bad = {}
          /\ act = [k |-> "start", x |-> "A", id |-> 0, rq |-> 0, own |-> FALSE, n |-> 0, res |-> "start"]

Act(k, x, id, rq, own, n, res) == [k |-> k, x |-> x, id |-> id, rq |-> rq, own |-> own, n |-> n, res |-> res]

SendReq(x) ==
  /\ Count("req") < MaxReq
  /\ net' = Append(net, [kind |-> "req", from |-> x, n |-> ep[x].ssn, rq |-> 0])
  /\ ep' = [ep EXCEPT ![x].ssn = @ + 1]
  /\ act' = Act("req", x, Len(net) + 1, 0, TRUE, ep[x].ssn, "sent")
  /\ UNCHANGED <<size, acc, reused, nb, nd, bad>>

(* x uses up more numbers than the window is wide (traffic not shown here) *)
Burn(x) ==
  /\ nb < MaxBurn
  /\ ep' = [ep EXCEPT ![x].ssn = @ + size + 1]
  /\ nb' = nb + 1
  /\ act' = Act("burn", x, 0, 0, TRUE, size + 1, "sent")
  /\ UNCHANGED <<size, net, acc, reused, nd, bad>>

RxReq(id) ==
  /\ nd < MaxDeliver
  /\ net[id].kind = "req"
  /\ LET m == net[id]
         dst == Other(m.from)
         r == RxRequest(ep[dst], size, m.n)
     IN /\ ep' = [ep EXCEPT ![dst] = r.ep]
        /\ acc' = IF r.res = "msg" THEN acc \cup {id} ELSE acc
        /\ bad' = bad \cup Judge("req", TRUE, r.res, TRUE)
        /\ act' = Act("rx_req", dst, id, 0, TRUE, m.n, r.res)
  /\ nd' = nd + 1
  /\ UNCHANGED <<size, net, reused, nb>>

Respond(id, own) ==
  /\ Count("resp") < MaxResp
  /\ id \in acc
  /\ (~own => id \notin reused)
  /\ LET x == Other(net[id].from)
         n == IF own THEN ep[x].ssn ELSE -1
     IN /\ net' = Append(net, [kind |-> "resp", from |-> x, n |-> n, rq |-> id])
        /\ ep' = IF own THEN [ep EXCEPT ![x].ssn = @ + 1] ELSE ep
        /\ act' = Act("respond", x, Len(net) + 1, id, own, n, "sent")
  /\ reused' = IF own THEN reused ELSE reused \cup {id}
  /\ UNCHANGED <<size, acc, nb, nd, bad>>

(* response id is delivered to the requester as the answer to its request rq *)
RxResp(id, rq) ==
  /\ nd < MaxDeliver
  /\ net[id].kind = "resp" /\ net[rq].kind = "req" /\ net[rq].from = Other(net[id].from)
  /\ LET m == net[id]
         dst == Other(m.from)
         own == m.rq = rq
         r == RxResponse(ep[dst], size, m.n, own)
     IN /\ ep' = [ep EXCEPT ![dst] = r.ep]
        /\ bad' = bad \cup Judge("resp", own, r.res, TRUE)
        /\ act' = Act("rx_resp", dst, id, rq, own, m.n, r.res)
  /\ nd' = nd + 1
  /\ UNCHANGED <<size, net, acc, reused, nb>>

Next == \/ \E x \in Ends : SendReq(x) \/ Burn(x)
        \/ \E id \in 1..Len(net) : RxReq(id) \/ (\E own \in BOOLEAN : Respond(id, own))
        \/ \E id \in 1..Len(net), rq \in 1..Len(net) : RxResp(id, rq)

Spec == Init /\ [][Next]_vars
View == <<size, ep, net, acc, reused, nb, nd, bad>>

C11_RoundTrip     == "C11_RoundTrip" \notin bad
C11_ResponseBound == "C11_ResponseBound" \notin bad
C11_ErrorFamily   == "C11_ErrorFamily" \notin bad
NoBad == bad = {}
=============================================================================
