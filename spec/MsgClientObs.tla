--------------------------- MODULE MsgClientObs ---------------------------
(* Observable-event vocabulary and monitor summary for the client role of   *)
(* the CoAP message layer (RFC 7252 section 4.2, 4.7): properties C03 and   *)
(* C14.  The summary `obs' is a function of the observable events only      *)
(* (datagrams on the wire, application calls and completions); the property *)
(* clauses are predicates over it.  The same operators are used by the      *)
(* exhaustive model (MsgClient.tla) and by trace validation of real         *)
(* executions (MsgClientTrace.tla).                                         *)
EXTENDS Naturals, Integers, Sequences, FiniteSets

CONSTANTS ATmin,          \* ACK_TIMEOUT                       (ticks)
          ATmax,          \* ACK_TIMEOUT * ACK_RANDOM_FACTOR   (ticks)
          MaxRetransmit,  \* MAX_RETRANSMIT
          Tol             \* tolerance of time comparisons (0 when every instant of the trace is an exact
                          \* multiple of the time unit; a few units of 2^-20 s for traces whose timers
                          \* were armed with values that are not, where float rounding shows)

(* An event is a record                                                      *)
(*   [k, t, r, ty, mid, q, dig, con, cls]                                    *)
(*   k   "submit" application submits request q to remote r (con: CON/NON)   *)
(*       "tx"     the endpoint put a datagram on the wire                    *)
(*       "rx"     a datagram from r was read by the endpoint                 *)
(*       "done"   the result of request q completed; cls = "resp" or an      *)
(*                error class: "timeout" (TimeoutError & NetworkError),      *)
(*                "net" (other NetworkError), "lib" (other library error),   *)
(*                "other" (not a library error)                              *)
(*       "err"    an ICMP-style error for remote r was reported              *)
(*       "end"    quiescence: no datagram in flight, no timer left           *)
(*   ty  "CON" "NON" "ACK" "RST";  q = 0 when the datagram carries no known  *)
(*   request token;  cls for tx/rx is the code class "req" "resp" "empty"    *)

NoEx == [q |-> 0, n |-> 0, first |-> 0, last |-> 0, gap |-> 0, dig |-> 0,
         res |-> "none", resAt |-> 0]

ObsInit == [ ex    |-> << >>,    \* <<r, mid>> -> exchange summary
             rq    |-> << >>,    \* q -> request summary
             queue |-> << >>,    \* r -> Seq(q): submitted CONs held back, in order
             owed  |-> 0,        \* request that has to be transmitted by the next event
             owedAt |-> 0,       \* ... at this very instant
             bad   |-> {} ]      \* names of step-local clauses found false

Has(f, k) == k \in DOMAIN f
Put(f, k, v) == [x \in (DOMAIN f) \cup {k} |-> IF x = k THEN v ELSE f[x]]
QueueOf(o, r) == IF Has(o.queue, r) THEN o.queue[r] ELSE << >>
Without(s, q) == SelectSeq(s, LAMBDA x : x # q)

Pow2(n) == 2 ^ n
MaxTransmitWait == ATmax * (Pow2(MaxRetransmit + 1) - 1)

(* Time at which an unresolved exchange that has sent all its copies is     *)
(* given up (exact once a gap has been observed; an interval otherwise).    *)
AllSent(x)       == x.n = 1 + MaxRetransmit
GiveUpEarliest(x) == (IF x.n >= 2 THEN x.last + 2 * x.gap ELSE x.first + ATmin) - Tol
GiveUpLatest(x)   == (IF x.n >= 2 THEN x.last + 2 * x.gap ELSE x.first + ATmax) + Tol

(* x is certainly still awaiting its acknowledgement at time t *)
DefinitelyOpen(x, t) == x.res = "none" /\ (~AllSent(x) \/ t < GiveUpEarliest(x))
(* x may still be awaiting its acknowledgement at time t *)
MaybeOpen(x, t) == x.res = "none" /\ (~AllSent(x) \/ t <= GiveUpLatest(x))

OpenTo(o, r, t) == {k \in DOMAIN o.ex : k[1] = r /\ DefinitelyOpen(o.ex[k], t)}
MaybeOpenTo(o, r, t) == {k \in DOMAIN o.ex : k[1] = r /\ MaybeOpen(o.ex[k], t)}

Flag(o, c) == [o EXCEPT !.bad = @ \cup {c}]
FlagIf(o, cond, c) == IF cond THEN Flag(o, c) ELSE o

\* an owed transmission that did not happen as the very next event
Owing(o) == FlagIf([o EXCEPT !.owed = 0], o.owed # 0, "C14_AsSoonAs")

NewRq(e) == [r |-> e.r, con |-> e.con, sub |-> e.t, tx |-> -1, done |-> "no",
             doneAt |-> 0, cls |-> "", early |-> FALSE]

ObsSubmit(o0, e) ==
  LET o == Owing(o0)
      o1 == [o EXCEPT !.rq = Put(@, e.q, NewRq(e))]
      busy == MaybeOpenTo(o, e.r, e.t) # {} \/ QueueOf(o, e.r) # << >>
      certainlyBusy == OpenTo(o, e.r, e.t) # {}
  IN IF e.con /\ certainlyBusy
       THEN [o1 EXCEPT !.queue = Put(@, e.r, Append(QueueOf(o, e.r), e.q))]
     ELSE IF e.con /\ busy
       THEN \* give-up instant not observable yet: either behaviour is admissible
            [o1 EXCEPT !.queue = Put(@, e.r, Append(QueueOf(o, e.r), e.q))]
     ELSE [o1 EXCEPT !.owed = e.q, !.owedAt = e.t]      \* C14: others are never delayed

ObsTxFirst(o, e) ==      \* first copy of request q
  LET key == <<e.r, e.mid>>
      qd  == QueueOf(o, e.r)
      o1  == [o EXCEPT !.rq[e.q].tx = e.t,
                       !.queue = Put(@, e.r, Without(qd, e.q))]
      o2  == FlagIf(o1, e.ty = "CON" /\ qd # << >> /\ Head(qd) # e.q /\ e.q \in {qd[i] : i \in 1..Len(qd)},
                    "C14_Fifo")
      o3  == FlagIf(o2, e.ty = "CON" /\ OpenTo(o, e.r, e.t) # {}, "C14_OneOpen")
      o4  == FlagIf(o3, Has(o.rq, e.q) /\ o.rq[e.q].done = "err", "C14_SentAfterFailed")
  IN IF e.ty = "CON"
       THEN [o4 EXCEPT !.ex = Put(@, key, [q |-> e.q, n |-> 1, first |-> e.t, last |-> e.t,
                                           gap |-> 0, dig |-> e.dig, res |-> "none", resAt |-> 0])]
       ELSE o4

ObsTxCopy(o, e) ==       \* retransmission of an exchange seen before
  LET key == <<e.r, e.mid>>
      x   == o.ex[key]
      g   == e.t - x.last
      o1  == FlagIf(o,  x.res # "none", "C03_NoCopyAfterAckOrRst")
      o2  == FlagIf(o1, x.n + 1 > 1 + MaxRetransmit, "C03_MaxCopies")
      o3  == FlagIf(o2, e.dig # x.dig \/ e.ty # "CON", "C03_Identical")
      o4  == FlagIf(o3, x.n = 1 /\ ~(ATmin - Tol <= g /\ g <= ATmax + Tol), "C03_FirstGap")
      o5  == FlagIf(o4, x.n >= 2 /\ (g < 2 * x.gap - Tol \/ g > 2 * x.gap + Tol), "C03_GapsDouble")
  IN [o5 EXCEPT !.ex[key] = [x EXCEPT !.n = @ + 1, !.last = e.t, !.gap = g]]

ObsTx(o0, e) ==
  IF e.q = 0 \/ e.cls # "req" THEN o0      \* ACKs, RSTs, responses: not this role's concern
  ELSE LET key == <<e.r, e.mid>>
           isCopy == Has(o0.ex, key) /\ o0.ex[key].q = e.q
           o == IF isCopy THEN o0     \* a retransmission does not discharge an owed transmission
                ELSE FlagIf([o0 EXCEPT !.owed = 0],
                            o0.owed # 0 /\ (o0.owed # e.q \/ o0.owedAt # e.t), "C14_AsSoonAs")
       IN IF isCopy THEN ObsTxCopy(o, e) ELSE ObsTxFirst(o, e)

(* A response to a request that has not been put on the wire yet can only be *)
(* a forgery with a guessed token; such a request is outside C14's promise.  *)
MarkEarly(o, e) ==
  IF e.cls = "resp" /\ e.q # 0 /\ Has(o.rq, e.q) /\ o.rq[e.q].tx = -1
    THEN [o EXCEPT !.rq[e.q].early = TRUE] ELSE o

ObsRx(o00, e) ==
  LET o0 == MarkEarly(o00, e)
      o == Owing(o0)
      key == <<e.r, e.mid>>
  IN IF e.ty \in {"ACK", "RST"} /\ Has(o.ex, key) /\ o.ex[key].res = "none"
        /\ MaybeOpen(o.ex[key], e.t)
       THEN LET o1 == [o EXCEPT !.ex[key].res = IF e.ty = "ACK" THEN "ack" ELSE "rst",
                                !.ex[key].resAt = e.t]
                qd == QueueOf(o, e.r)
            IN IF qd # << >> /\ DefinitelyOpen(o.ex[key], e.t)
                 THEN [o1 EXCEPT !.owed = Head(qd), !.owedAt = e.t]    \* C14: released as soon as resolved
                 ELSE o1
       ELSE o

ObsDone(o0, e) ==
  LET o == IF o0.owed = e.q THEN [o0 EXCEPT !.owed = 0] ELSE o0
      \* a failing request is allowed in place of an owed transmission (C14: "or its request failed")
      r == IF Has(o.rq, e.q) THEN o.rq[e.q].r ELSE 0
      o1 == FlagIf(o, ~Has(o.rq, e.q), "C03_DoneUnknown")
  IN IF ~Has(o.rq, e.q) THEN o1
     ELSE LET o2 == FlagIf(o1, o.rq[e.q].done # "no", "C03_CompleteOnce")
              o3 == [o2 EXCEPT !.rq[e.q].done = IF e.cls = "resp" THEN "resp" ELSE "err",
                               !.rq[e.q].cls = e.cls,
                               !.rq[e.q].doneAt = e.t,
                               !.queue = Put(@, r, Without(QueueOf(o, r), e.q))]
              \* a failing request closes its own open exchange (give-up, RST)
              mine == {k \in DOMAIN o.ex : o.ex[k].q = e.q /\ o.ex[k].res = "none"}
              \* with its exchange still unresolved (no ACK, no Reset, no transport error reported for the
              \* endpoint) the only failure the statement allows is the time-out-class one
              o4 == FlagIf(o3, e.cls \notin {"resp", "timeout"} /\ mine # {}, "C03_GiveUpTimeout")
          IN IF e.cls = "resp" THEN o3
             ELSE [o4 EXCEPT !.ex = [k \in DOMAIN @ |->
                                       IF k \in mine THEN [@[k] EXCEPT !.res = "fail", !.resAt = e.t] ELSE @[k]]]

ObsErr(o0, e) ==
  LET o == Owing(o0)
  IN [o EXCEPT !.ex = [k \in DOMAIN @ |->
                         IF k[1] = e.r /\ @[k].res = "none"
                           THEN [@[k] EXCEPT !.res = "err", !.resAt = e.t] ELSE @[k]]]

(* -- end of run: the clauses that speak about "eventually" ---------------- *)
RqDoneBy(o, q, t) == Has(o.rq, q) /\ o.rq[q].done # "no" /\ o.rq[q].doneAt <= t

EndBad(o, t) ==
  {c \in {"C03_AllCopiesBeforeGiveUp", "C03_GiveUpTimeout", "C03_WaitBound", "C03_RstFailsRequest",
          "C14_NoneForgotten", "C14_AsSoonAs", "C03_ErrFailsRequest"} :
     \/ c = "C03_AllCopiesBeforeGiveUp" /\ \E k \in DOMAIN o.ex : o.ex[k].res = "none" /\ ~AllSent(o.ex[k])
     \/ c = "C03_GiveUpTimeout" /\ \E k \in DOMAIN o.ex :
            LET x == o.ex[k] IN
            /\ x.res = "none" /\ AllSent(x)
            /\ ~RqDoneBy(o, x.q, GiveUpEarliest(x) - 1)     \* still pending when the exchange gave up
            /\ ~(/\ o.rq[x.q].done = "err" /\ o.rq[x.q].cls = "timeout"
                 /\ o.rq[x.q].doneAt >= GiveUpEarliest(x) /\ o.rq[x.q].doneAt <= GiveUpLatest(x))
     \/ c = "C03_GiveUpTimeout" /\ \E k \in DOMAIN o.ex :
            LET x == o.ex[k] IN
            \* the request failed with a time-out: only legitimate at the give-up instant
            /\ x.res = "fail" /\ o.rq[x.q].cls = "timeout"
            /\ ~(AllSent(x) /\ x.resAt >= GiveUpEarliest(x) /\ x.resAt <= GiveUpLatest(x))
     \/ c = "C03_WaitBound" /\ \E k \in DOMAIN o.ex :
            LET x == o.ex[k] IN x.res = "fail" /\ o.rq[x.q].cls = "timeout"
                                /\ x.resAt > x.first + MaxTransmitWait + Tol
     \/ c = "C03_RstFailsRequest" /\ \E k \in DOMAIN o.ex :
            LET x == o.ex[k] IN x.res = "rst" /\ ~(RqDoneBy(o, x.q, x.resAt))
     \/ c = "C03_ErrFailsRequest" /\ \E k \in DOMAIN o.ex :
            LET x == o.ex[k] IN x.res = "err" /\ ~(RqDoneBy(o, x.q, x.resAt))
     \/ c = "C14_NoneForgotten" /\ \E q \in DOMAIN o.rq : o.rq[q].tx = -1 /\ o.rq[q].done # "err" /\ ~o.rq[q].early
     \/ c = "C14_AsSoonAs" /\ o.owed # 0 }

ObsEnd(o, e) == [o EXCEPT !.bad = @ \cup EndBad(o, e.t), !.owed = 0]

ObsEvent(o, e) ==
  CASE e.k = "submit" -> ObsSubmit(o, e)
    [] e.k = "tx"     -> ObsTx(o, e)
    [] e.k = "rx"     -> ObsRx(o, e)
    [] e.k = "done"   -> ObsDone(o, e)
    [] e.k = "err"    -> ObsErr(o, e)
    [] e.k = "end"    -> ObsEnd(o, e)
    [] OTHER          -> o

RECURSIVE ObsFold(_, _)
ObsFold(o, es) == IF es = << >> THEN o ELSE ObsFold(ObsEvent(o, Head(es)), Tail(es))

(* -- property clauses ------------------------------------------------------ *)
Clauses == {"C03_NoCopyAfterAckOrRst", "C03_MaxCopies", "C03_Identical", "C03_FirstGap",
            "C03_GapsDouble", "C03_AllCopiesBeforeGiveUp", "C03_GiveUpTimeout", "C03_WaitBound",
            "C03_RstFailsRequest", "C03_ErrFailsRequest", "C03_CompleteOnce", "C03_DoneUnknown",
            "C14_OneOpen", "C14_Fifo", "C14_AsSoonAs", "C14_NoneForgotten", "C14_SentAfterFailed"}
=============================================================================
