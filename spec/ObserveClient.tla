---------------------------- MODULE ObserveClient ----------------------------
(* Implementation-shaped model of the client side of one observation:        *)
(*   protocol.Request._run   first response, (v1, t1) updated only when a    *)
(*                           notification is handed over, is_last handling   *)
(*   ClientObservation       callback / error (once) / cancel                *)
(*   TokenManager            process_response keeps the token while the      *)
(*                           response carries Observe (`final`), drops it    *)
(*                           otherwise; dispatch_error                       *)
(* observed through register_callback / register_errback of a plain Request. *)
(* The peer sends notifications with serial numbers mod 16 embedded          *)
(* order-preservingly into the 24-bit space (x 2^20: 16 -> 2^24, 8 -> 2^23), *)
(* CON or NON, Gaps seconds apart, a terminating response (no Observe        *)
(* option; 2.05 or 4.04) at any position, late notifications after the end,  *)
(* an ICMP error at any position; an unanswered CON request gives up.        *)
(* Times are ticks of 2^-10 s.  Where the code signals "not observable" for  *)
(* a transport failure before the first response the model follows the       *)
(* property statement (network error); see notes/C07.md.                     *)
EXTENDS ObserveClientObs, TLC

CONSTANTS MaxArr,      \* arrivals after the first response
          Gaps,        \* inter-arrival times in seconds
          Serials      \* serial numbers (before scaling)

SCALE == 1048576       \* 2^20
SEC == 1024
MID0 == 300

VARIABLES st,          \* "idle" | "wait" | "live" | "over"     Request._run
          tok,         \* token in TokenManager.outgoing_requests
          con,         \* the request went out as CON
          v1, t1,      \* Request._run's variables of the same name
          now, budget, emit, obs

vars == <<st, tok, con, v1, t1, now, budget, emit, obs>>

Ev(k, ty, mid, cls, code, q, o, x) ==
  [k |-> k, t |-> 0, r |-> 1, ty |-> ty, mid |-> mid, cls |-> cls, code |-> code, q |-> q, obs |-> o, x |-> x]
At(t, es) == [i \in 1..Len(es) |-> [es[i] EXCEPT !.t = t]]

Step(es) == /\ emit' = es /\ obs' = ObsFold(obs, es)

RxEnd == Ev("rxend", "", 0, "", 0, 0, -1, "")
Ack(mid) == Ev("tx", "ACK", mid, "empty", 0, 0, -1, "")
Rst(mid) == Ev("tx", "RST", mid, "empty", 0, 0, -1, "")
Reply(ty, mid) == IF ty = "CON" THEN <<Ack(mid)>> ELSE << >>
Notif(o, code) == Ev("notif", "", 0, "", code, 1, o, "")
ObsEnded(cls, x) == Ev("obsend", "", 0, cls, 0, 1, -1, x)
Done(cls, code) == Ev("done", "", 0, cls, code, 1, -1, "")
Mid == 9000 + (MaxArr - budget) + 1

Init == /\ st = "idle" /\ tok = FALSE /\ con = FALSE /\ v1 = -1 /\ t1 = 0
        /\ now = 8 /\ budget = MaxArr /\ emit = << >> /\ obs = ObsInit

Submit(c) ==
  /\ st = "idle"
  /\ st' = "wait" /\ tok' = TRUE /\ con' = c
  /\ Step(At(now, <<Ev("submit", "", 0, "", 0, 1, -1, ""),
                    Ev("tx", IF c THEN "CON" ELSE "NON", MID0, "req", 1, 1, 0, "")>>))
  /\ UNCHANGED <<v1, t1, now, budget>>

(* The first response is piggy-backed on the ACK of a CON request, or a        *)
(* separate CON / NON response; a CON request is then acknowledged by an      *)
(* empty ACK first, so that its exchange is closed (a response overtaking a   *)
(* lost ACK is the message layer's subject, not this property's).             *)
FirstTypes == IF con THEN {"ACK", "CON", "NON"} ELSE {"NON", "CON"}
MidOf(ty) == IF ty = "ACK" THEN MID0 ELSE 9000
EmptyAck(ty) == IF con /\ ty # "ACK" THEN <<Ev("rx", "ACK", MID0, "empty", 0, 0, -1, ""), RxEnd>> ELSE << >>

(* first response with an Observe option: establishes (v1, t1) *)
RxFirstObs(v, ty) ==
  /\ st = "wait" /\ ty \in FirstTypes
  /\ now' = now + 8
  /\ st' = "live" /\ v1' = v * SCALE /\ t1' = now'
  /\ Step(At(now', EmptyAck(ty) \o <<Ev("rx", ty, MidOf(ty), "resp", 69, 1, v * SCALE, "")>> \o Reply(ty, MidOf(ty))
                   \o <<RxEnd, Done("resp", 69)>>))
  /\ UNCHANGED <<tok, con, budget>>

(* first response without Observe option: final at the token layer, "not observable" *)
RxFirstPlain(code, ty) ==
  /\ st = "wait" /\ ty \in FirstTypes
  /\ now' = now + 8
  /\ st' = "over" /\ tok' = FALSE
  /\ Step(At(now', EmptyAck(ty) \o <<Ev("rx", ty, MidOf(ty), "resp", code, 1, -1, ""), ObsEnded("lib", "NotObservable")>>
                   \o Reply(ty, MidOf(ty)) \o <<RxEnd, Done("resp", code)>>))
  /\ UNCHANGED <<con, v1, t1, budget>>

(* a notification on the live observation *)
RxNotif(v, gap, ty) ==
  /\ st = "live" /\ budget > 0
  /\ LET t2 == now + gap * SEC
         v2 == v * SCALE
         is_recent == \/ (v1 < v2 /\ v2 - v1 < 8388608)
                      \/ (v1 > v2 /\ v1 - v2 > 8388608)
                      \/ t2 > t1 + 128 * SEC
     IN /\ now' = t2
        /\ v1' = IF is_recent THEN v2 ELSE v1
        /\ t1' = IF is_recent THEN t2 ELSE t1
        /\ Step(At(t2, <<Ev("rx", ty, Mid, "resp", 69, 1, v2, "")>>
                       \o (IF is_recent THEN <<Notif(v2, 69)>> ELSE << >>)
                       \o Reply(ty, Mid) \o <<RxEnd>>))
  /\ budget' = budget - 1
  /\ UNCHANGED <<st, tok, con>>

(* a response without Observe option on the live observation: handed over, then cancellation *)
RxFinal(code, gap, ty) ==
  /\ st = "live" /\ budget > 0
  /\ now' = now + gap * SEC
  /\ st' = "over" /\ tok' = FALSE
  /\ Step(At(now', <<Ev("rx", ty, Mid, "resp", code, 1, -1, ""), Notif(-1, code), ObsEnded("lib", "ObservationCancelled")>>
                   \o Reply(ty, Mid) \o <<RxEnd>>))
  /\ budget' = budget - 1
  /\ UNCHANGED <<con, v1, t1>>

(* anything on that token after the end: unknown response *)
RxLate(o, gap, ty) ==
  /\ st = "over" /\ budget > 0 /\ ~tok
  /\ now' = now + gap * SEC
  /\ Step(At(now', <<Ev("rx", ty, Mid, "resp", IF o < 0 THEN 132 ELSE 69, 1, IF o < 0 THEN -1 ELSE o * SCALE, "")>>
                   \o (IF ty = "CON" THEN <<Rst(Mid)>> ELSE << >>) \o <<RxEnd>>))
  /\ budget' = budget - 1
  /\ UNCHANGED <<st, tok, con, v1, t1>>

IcmpErr(gap) ==
  /\ st \in {"wait", "live"} /\ budget > 0
  /\ (st = "wait" /\ con) => gap = 0          \* later the request has given up already
  /\ now' = now + gap * SEC
  /\ st' = "over" /\ tok' = FALSE
  /\ Step(At(now', <<Ev("err", "", 0, "", 0, 0, -1, ""), ObsEnded("net", "NetworkError"), RxEnd>>
                   \o (IF st = "wait" THEN <<Done("net", 0)>> ELSE << >>)))
  /\ budget' = budget - 1
  /\ UNCHANGED <<con, v1, t1>>

(* nobody answers the CON request: ACK_TIMEOUT 2 s, MAX_RETRANSMIT 1 -> 6 s *)
GiveUp ==
  /\ st = "wait" /\ con
  /\ now' = now + 6 * SEC
  /\ st' = "over" /\ tok' = FALSE
  /\ Step(At(now', <<ObsEnded("timeout", "ConRetransmitsExceeded"), Done("timeout", 0)>>))
  /\ UNCHANGED <<con, v1, t1, budget>>

Types == {"CON", "NON"}
Next == \/ \E c \in BOOLEAN : Submit(c)
        \/ \E v \in Serials, ty \in {"ACK", "CON", "NON"} : RxFirstObs(v, ty)
        \/ \E code \in {69, 132}, ty \in {"ACK", "CON", "NON"} : RxFirstPlain(code, ty)
        \/ \E v \in Serials, g \in Gaps, ty \in Types : RxNotif(v, g, ty)
        \/ \E code \in {69, 132}, g \in Gaps, ty \in Types : RxFinal(code, g, ty)
        \/ \E o \in {-1, 3, 11}, g \in {0, 129}, ty \in Types : RxLate(o, g, ty)
        \/ \E g \in {0, 129} : IcmpErr(g)
        \/ GiveUp

Spec == Init /\ [][Next]_vars

(* quiescence: what the monitor demands at the end of a recorded execution   *)
(* holds in every reachable state of the model                               *)
AtEnd == ObsEvent(obs, [k |-> "end"])

NoBad == obs.bad = {}
QuiescentOk == AtEnd.bad = {}
(* the token is retained exactly as long as the monitor regards the observation as running *)
TokenAgrees == st # "idle" => (tok <=> obs.rq[1].st \in {"wait", "live"})
LastAgrees == st = "live" => (obs.rq[1].v1 = v1 /\ obs.rq[1].t1 = t1)
View == <<st, tok, con, v1, t1, now, budget, obs>>
=============================================================================
