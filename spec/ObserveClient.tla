---------------------------- MODULE ObserveClient ----------------------------
(* Implementation-shaped model of the client side of one observation:        *)
(*   protocol.Request._run   first response, (v1, t1) updated only when a    *)
(*                           notification is handed over, is_last handling   *)
(*   ClientObservation       callback / error (once) / cancel, _Iterator     *)
(*                           (latest unfetched item, end raised after it)    *)
(*   TokenManager            process_response keeps the token while the      *)
(*                           response carries Observe (`final`), whatever    *)
(*                           its 2.xx code; drops it otherwise;              *)
(*                           dispatch_error                                  *)
(*   BlockwiseRequest        (Iface = "bwcb") _run_observation: takes items  *)
(*                           from the lower observation's iterator one at a  *)
(*                           time, completes a block-wise body by requesting *)
(*                           the next block (fetch in progress: later items  *)
(*                           wait in the iterator, the newest replacing the  *)
(*                           older) and only then hands it on                *)
(* observed through register_callback / register_errback of a plain Request  *)
(* (Iface = "cb") or of a BlockwiseRequest (Iface = "bwcb").                 *)
(* The peer sends notifications with serial numbers mod 16 embedded          *)
(* order-preservingly into the 24-bit space (x 2^20: 16 -> 2^24, 8 -> 2^23), *)
(* CON or NON, any 2.xx code of NCodes, Gaps seconds apart, with or without  *)
(* further blocks (B2), a terminating response (no Observe option; 2.05 or   *)
(* 4.04) at any position, late notifications after the end, an ICMP error at *)
(* any position; an unanswered CON request gives up.  Times are ticks of     *)
(* 2^-10 s.                                                                  *)
EXTENDS ObserveClientObs, TLC

CONSTANTS MaxArr,      \* arrivals after the first response
          Gaps,        \* inter-arrival times in seconds
          Serials,     \* serial numbers (before scaling)
          NCodes,      \* 2.xx codes of responses that carry an Observe option
          B2,          \* may a notification announce further blocks? ({FALSE} | {FALSE, TRUE})
          Iface        \* "cb" plain Request | "bwcb" BlockwiseRequest

SCALE == 1048576       \* 2^20
SEC == 1024
MID0 == 300
BW == Iface = "bwcb"

VARIABLES st,          \* "idle" | "wait" | "live" | "over"     Request._run
          tok,         \* token in TokenManager.outgoing_requests
          con,         \* the request went out as CON
          v1, t1,      \* Request._run's variables of the same name
          slot,        \* BW: the lower observation's iterator: << >> or <<latest unfetched item>>
          fetch,       \* BW: << >> or <<the item whose next block has been requested>>
          ended,       \* BW: the application has been told the end
          nreq,        \* BW: block requests made so far
          now, budget, emit, obs

vars == <<st, tok, con, v1, t1, slot, fetch, ended, nreq, now, budget, emit, obs>>

Ev(k, ty, mid, cls, code, q, o, x) ==
  [k |-> k, t |-> 0, r |-> 1, ty |-> ty, mid |-> mid, cls |-> cls, code |-> code, q |-> q, obs |-> o, x |-> x, tok |-> ""]
At(t, es) == [i \in 1..Len(es) |-> [es[i] EXCEPT !.t = t]]

Step(es) == /\ emit' = es /\ obs' = ObsFold(obs, es)

RxEnd == Ev("rxend", "", 0, "", 0, 0, -1, "")
Ack(mid) == Ev("tx", "ACK", mid, "empty", 0, 0, -1, "")
Rst(mid) == Ev("tx", "RST", mid, "empty", 0, 0, -1, "")
Reply(ty, mid) == IF ty = "CON" THEN <<Ack(mid)>> ELSE << >>
Notif(o, code) == Ev("notif", "", 0, "", code, 1, o, "")
ObsEnded(cls, x) == Ev("obsend", "", 0, cls, 0, 1, -1, x)
Done(cls, code) == Ev("done", "", 0, cls, code, 1, -1, "")
Mid == 9000 + (MaxArr - budget) + 1
(* the request for the next block of a notification: a new request with a new token *)
BlockReq(n) == [Ev("tx", IF con THEN "CON" ELSE "NON", MID0 + n, "req", 1, 0, -1, "b2") EXCEPT !.tok = "t2"]

(* an item of the lower observation: Observe value (-1: the final response), code, more blocks *)
Item(o, code, more) == [o |-> o, code |-> code, more |-> more]

(* _run_observation with nothing to wait for: works off the iterator.  Returns *)
(* <<events, fetch', ended', block requests made>>                            *)
Consume(items) ==
  IF items = << >> THEN <<<< >>, << >>, FALSE, 0>>
  ELSE LET it == items[1]
       IN IF it.o < 0 THEN <<<<Notif(-1, it.code), ObsEnded("lib", "ObservationCancelled")>>, << >>, TRUE, 0>>
          ELSE IF it.more THEN <<<<BlockReq(nreq + 1)>>, <<it>>, FALSE, 1>>
          ELSE <<<<Notif(it.o, it.code)>>, << >>, FALSE, 0>>

(* what the arrival of a lower-level item means one layer up.  cb: handed over *)
(* inside the read callback; BW: after it, by the _run_observation task, or    *)
(* kept in the iterator while a fetch is in progress                           *)
Deliver(it, inside, after) ==
  IF ~BW THEN /\ Step(inside \o At(now', IF it.o < 0 THEN <<Notif(-1, it.code), ObsEnded("lib", "ObservationCancelled")>>
                                                  ELSE <<Notif(it.o, it.code)>>) \o after)
              /\ ended' = (ended \/ it.o < 0) /\ UNCHANGED <<slot, fetch, nreq>>
  ELSE IF fetch # << >>
    THEN /\ slot' = <<it>> /\ Step(inside \o after) /\ UNCHANGED <<fetch, ended, nreq>>
    ELSE LET c == Consume(<<it>>)
         IN /\ Step(inside \o after \o At(now', c[1]))
            /\ fetch' = c[2] /\ ended' = c[3] /\ nreq' = nreq + c[4] /\ UNCHANGED slot

Init == /\ st = "idle" /\ tok = FALSE /\ con = FALSE /\ v1 = -1 /\ t1 = 0
        /\ slot = << >> /\ fetch = << >> /\ ended = FALSE /\ nreq = 0
        /\ now = 8 /\ budget = MaxArr /\ emit = << >> /\ obs = ObsInit

Submit(c) ==
  /\ st = "idle"
  /\ st' = "wait" /\ tok' = TRUE /\ con' = c
  /\ Step(At(now, <<Ev("submit", "", 0, "", 0, 1, 0, IF BW THEN "bwcb" ELSE ""),
                    [Ev("tx", IF c THEN "CON" ELSE "NON", MID0, "req", 1, 1, 0, "") EXCEPT !.tok = "t1"]>>))
  /\ UNCHANGED <<v1, t1, slot, fetch, ended, nreq, now, budget>>

(* The first response is piggy-backed on the ACK of a CON request, or a        *)
(* separate CON / NON response; a CON request is then acknowledged by an      *)
(* empty ACK first, so that its exchange is closed (a response overtaking a   *)
(* lost ACK is the message layer's subject, not this property's).             *)
FirstTypes == IF con THEN {"ACK", "CON", "NON"} ELSE {"NON", "CON"}
MidOf(ty) == IF ty = "ACK" THEN MID0 ELSE 9000
EmptyAck(ty) == IF con /\ ty # "ACK" THEN <<Ev("rx", "ACK", MID0, "empty", 0, 0, -1, ""), RxEnd>> ELSE << >>

(* first response with an Observe option (any success code): establishes (v1, t1) *)
RxFirstObs(v, ty, code) ==
  /\ st = "wait" /\ ty \in FirstTypes
  /\ now' = now + 8
  /\ st' = "live" /\ v1' = v * SCALE /\ t1' = now'
  /\ Step(At(now', EmptyAck(ty) \o <<Ev("rx", ty, MidOf(ty), "resp", code, 1, v * SCALE, "")>> \o Reply(ty, MidOf(ty))
                   \o <<RxEnd, Done("resp", code)>>))
  /\ UNCHANGED <<tok, con, slot, fetch, ended, nreq, budget>>

(* first response without Observe option: final at the token layer, "not observable" *)
RxFirstPlain(code, ty) ==
  /\ st = "wait" /\ ty \in FirstTypes
  /\ now' = now + 8
  /\ st' = "over" /\ tok' = FALSE /\ ended' = TRUE
  /\ LET rx == <<Ev("rx", ty, MidOf(ty), "resp", code, 1, -1, "")>>
         sig == <<ObsEnded("lib", "NotObservable")>>
     IN Step(At(now', EmptyAck(ty) \o rx \o (IF BW THEN Reply(ty, MidOf(ty)) \o <<RxEnd>> \o sig
                                                    ELSE sig \o Reply(ty, MidOf(ty)) \o <<RxEnd>>)
                      \o <<Done("resp", code)>>))
  /\ UNCHANGED <<con, v1, t1, slot, fetch, nreq, budget>>

(* while the next block of a notification is outstanding only little time passes *)
(* (its request would give up after 6 s)                                         *)
GapsNow == IF fetch # << >> THEN {0, 1} ELSE Gaps

(* a notification on the live observation *)
RxNotif(v, gap, ty, code, more) ==
  /\ st = "live" /\ budget > 0 /\ gap \in GapsNow
  /\ LET t2 == now + gap * SEC
         v2 == v * SCALE
         is_recent == \/ (v1 < v2 /\ v2 - v1 < 8388608)
                      \/ (v1 > v2 /\ v1 - v2 > 8388608)
                      \/ t2 > t1 + 128 * SEC
         rx == [Ev("rx", ty, Mid, "resp", code, 1, v2, "") EXCEPT !.x = IF more THEN "b2" ELSE ""]
     IN /\ now' = t2
        /\ v1' = IF is_recent THEN v2 ELSE v1
        /\ t1' = IF is_recent THEN t2 ELSE t1
        /\ IF is_recent
             THEN IF BW THEN Deliver(Item(v2, code, more), At(t2, <<rx>> \o Reply(ty, Mid) \o <<RxEnd>>), << >>)
                        ELSE Deliver(Item(v2, code, more), At(t2, <<rx>>), At(t2, Reply(ty, Mid) \o <<RxEnd>>))
             ELSE /\ Step(At(t2, <<rx>> \o Reply(ty, Mid) \o <<RxEnd>>))
                  /\ UNCHANGED <<slot, fetch, ended, nreq>>
  /\ budget' = budget - 1
  /\ UNCHANGED <<st, tok, con>>

(* a response without Observe option on the live observation: handed over, then cancellation *)
RxFinal(code, gap, ty) ==
  /\ st = "live" /\ budget > 0 /\ gap \in GapsNow
  /\ now' = now + gap * SEC
  /\ st' = "over" /\ tok' = FALSE
  /\ LET rx == Ev("rx", ty, Mid, "resp", code, 1, -1, "")
     IN IF BW THEN Deliver(Item(-1, code, FALSE), At(now', <<rx>> \o Reply(ty, Mid) \o <<RxEnd>>), << >>)
              ELSE /\ Deliver(Item(-1, code, FALSE), At(now', <<rx>>), At(now', Reply(ty, Mid) \o <<RxEnd>>))
  /\ budget' = budget - 1
  /\ UNCHANGED <<con, v1, t1>>

(* the next block of the notification being completed arrives: the whole body is handed *)
(* over, then whatever waits in the iterator is taken                                    *)
FetchDone(ticks, ty) ==
  /\ fetch # << >>
  /\ ty \in (IF con THEN {"ACK"} ELSE {"NON", "CON"})
  /\ now' = now + ticks
  /\ LET m == IF ty = "ACK" THEN MID0 + nreq ELSE 9100 + nreq
         c == Consume(slot)
     IN /\ Step(At(now', <<[Ev("rx", ty, m, "resp", 69, 0, -1, "b2") EXCEPT !.tok = "t2"]>> \o Reply(ty, m) \o <<RxEnd>>
                          \o <<Notif(fetch[1].o, fetch[1].code)>> \o c[1]))
        /\ fetch' = c[2] /\ ended' = c[3] /\ nreq' = nreq + c[4] /\ slot' = << >>
  /\ UNCHANGED <<st, tok, con, v1, t1, budget>>

(* anything on that token after the end: unknown response *)
RxLate(o, gap, ty) ==
  /\ st = "over" /\ budget > 0 /\ ~tok /\ gap \in GapsNow
  /\ now' = now + gap * SEC
  /\ Step(At(now', <<Ev("rx", ty, Mid, "resp", IF o < 0 THEN 132 ELSE 69, 1, IF o < 0 THEN -1 ELSE o * SCALE, "")>>
                   \o (IF ty = "CON" THEN <<Rst(Mid)>> ELSE << >>) \o <<RxEnd>>))
  /\ budget' = budget - 1
  /\ UNCHANGED <<st, tok, con, v1, t1, slot, fetch, ended, nreq>>

(* ICMP error: every request to the endpoint fails -- the observation, and the block request *)
(* of a notification being completed                                                          *)
IcmpErr(gap) ==
  /\ st \in {"wait", "live"} /\ budget > 0 /\ gap \in GapsNow
  /\ (st = "wait" /\ con) => gap = 0          \* later the request has given up already
  /\ now' = now + gap * SEC
  /\ st' = "over" /\ tok' = FALSE /\ ended' = TRUE /\ slot' = << >> /\ fetch' = << >>
  /\ LET e == Ev("err", "", 0, "", 0, 0, -1, "")
         sig == ObsEnded("net", "NetworkError")
     IN Step(At(now', (IF BW THEN <<e, RxEnd, sig>> ELSE <<e, sig, RxEnd>>)
                      \o (IF st = "wait" THEN <<Done("net", 0)>> ELSE << >>)))
  /\ budget' = budget - 1
  /\ UNCHANGED <<con, v1, t1, nreq>>

(* nobody answers the CON request: ACK_TIMEOUT 2 s, MAX_RETRANSMIT 1 -> 6 s *)
GiveUp ==
  /\ st = "wait" /\ con
  /\ now' = now + 6 * SEC
  /\ st' = "over" /\ tok' = FALSE /\ ended' = TRUE
  /\ Step(At(now', <<ObsEnded("timeout", "ConRetransmitsExceeded"), Done("timeout", 0)>>))
  /\ UNCHANGED <<con, v1, t1, slot, fetch, nreq, budget>>

Types == {"CON", "NON"}
Next == \/ \E c \in BOOLEAN : Submit(c)
        \/ \E v \in Serials, ty \in {"ACK", "CON", "NON"}, code \in NCodes : RxFirstObs(v, ty, code)
        \/ \E code \in {69, 132}, ty \in {"ACK", "CON", "NON"} : RxFirstPlain(code, ty)
        \/ \E v \in Serials, g \in Gaps \cup {1}, ty \in Types, code \in NCodes, more \in B2 : RxNotif(v, g, ty, code, more)
        \/ \E code \in {69, 132}, g \in Gaps \cup {1}, ty \in Types : RxFinal(code, g, ty)
        \/ \E o \in {-1, 3, 11}, g \in {0, 129}, ty \in Types : RxLate(o, g, ty)
        \/ \E g \in {0, 129} : IcmpErr(g)
        \/ \E d \in {1, 1024}, ty \in {"ACK", "CON", "NON"} : FetchDone(d, ty)
        \/ GiveUp

Spec == Init /\ [][Next]_vars

(* quiescence: what the monitor demands at the end of a recorded execution   *)
(* holds in every reachable state of the model in which nothing is under way *)
AtEnd == ObsEvent(obs, [k |-> "end"])

NoBad == obs.bad = {}
QuiescentOk == fetch = << >> => AtEnd.bad = {}
(* the token is retained exactly as long as the monitor regards the observation as running *)
TokenAgrees == st # "idle" => (tok <=> obs.rq[1].st \in {"wait", "live"})
LastAgrees == st = "live" => (obs.rq[1].v1 = v1 /\ obs.rq[1].t1 = t1)
(* the application is told the end exactly when the monitor has counted one *)
EndAgrees == st # "idle" => (ended <=> obs.rq[1].ends = 1)
View == <<st, tok, con, v1, t1, slot, fetch, ended, nreq, now, budget, obs>>
=============================================================================
