----------------------------- MODULE TokenLayer -----------------------------
(* Implementation-shaped model of aiocoap's TokenManager (tokenmanager.py:  *)
(* request, process_response, dispatch_error, shutdown; next_token) and of  *)
(* the completion discipline of protocol.Request/Pipe, with the message     *)
(* layer abstracted to "the exchange of a CON request is open / acknowledged*)
(* / reset".  The peer is adversarial: responses with current, retired and  *)
(* never-issued tokens, from the right and from the wrong endpoint, as CON, *)
(* NON or piggy-backed ACK; Resets; ICMP-style errors; shutdown at any      *)
(* point.  Time is not modelled here (retransmission is MsgClient's).       *)
EXTENDS TokenObs, TLC

CONSTANTS NRemotes, NReqs, MaxEnv

Remotes == 1..NRemotes

VARIABLES rq,        \* q -> [r, con, st ("out"|"done"), xopen]   outgoing_requests + exchange state
          shut, budget, emit, obs

vars == <<rq, shut, budget, emit, obs>>

TokOf(q) == IF q = 1 THEN "t1" ELSE IF q = 2 THEN "t2" ELSE IF q = 3 THEN "t3" ELSE "t9"   \* q = 0: never issued

Ev(k, r, ty, mid, tok, cls, q, con, x) ==
  [k |-> k, t |-> 0, r |-> r, ty |-> ty, mid |-> mid, tok |-> tok, cls |-> cls, q |-> q, con |-> con,
   x |-> x, loc |-> "u", obs |-> -1]

RxEnd == Ev("rxend", 0, "", 0, "", "", 0, FALSE, "")
Step(es) == /\ emit' = es /\ obs' = ObsFold(obs, es)

RECURSIVE SetToSeq(_)
SetToSeq(S) == IF S = {} THEN << >>
               ELSE LET m == CHOOSE x \in S : \A y \in S : x <= y IN <<m>> \o SetToSeq(S \ {m})

Out == {q \in DOMAIN rq : rq[q].st = "out"}
DoneEvs(qs, cls) == [i \in 1..Len(qs) |-> Ev("done", 0, "", 0, "", cls, qs[i], FALSE, "")]
Finish(qs) == [q \in DOMAIN rq |-> IF q \in qs THEN [rq[q] EXCEPT !.st = "done", !.xopen = FALSE] ELSE rq[q]]
\* completion by a separate (CON/NON) response: the exchange of the request stays open until its ACK
Complete(qs) == [q \in DOMAIN rq |-> IF q \in qs THEN [rq[q] EXCEPT !.st = "done"] ELSE rq[q]]

Init == rq = << >> /\ shut = FALSE /\ budget = MaxEnv /\ emit = << >> /\ obs = ObsInit

Submit(r, con) ==
  LET q == Cardinality(DOMAIN rq) + 1
      sub == Ev("submit", r, "", 0, "", "", q, con, "")
  IN /\ q <= NReqs
     \* NSTART queueing is MsgClient's subject: here a CON is only submitted when no exchange with r is open
     /\ con => \A p \in DOMAIN rq : ~(rq[p].r = r /\ rq[p].xopen)
     /\ IF shut
          THEN /\ rq' = Put(rq, q, [r |-> r, con |-> con, st |-> "done", xopen |-> FALSE])
               /\ Step(<<sub, Ev("done", 0, "", 0, "", "shutdown", q, FALSE, "")>>)
          ELSE /\ rq' = Put(rq, q, [r |-> r, con |-> con, st |-> "out", xopen |-> con])
               /\ Step(<<sub, Ev("tx", r, IF con THEN "CON" ELSE "NON", q, TokOf(q), "req", q, FALSE, "")>>)
     /\ UNCHANGED <<shut, budget>>

(* the kernel refuses the first datagram of a new request inside sendmsg     *)
(* (no route, EPERM, ...): recvmsg's transport reports it synchronously      *)
(* through error_received -> dispatch_error while TokenManager.request is    *)
(* still in send_message; everything outstanding towards r fails, the new    *)
(* request included (it is registered before it is sent)                     *)
SubmitRefused(r, con) ==
  LET q == Cardinality(DOMAIN rq) + 1
      sub == Ev("submit", r, "", 0, "", "", q, con, "")
      qs == {p \in Out : rq[p].r = r} \cup {q}
  IN /\ q <= NReqs /\ ~shut /\ budget > 0
     /\ con => \A p \in DOMAIN rq : ~(rq[p].r = r /\ rq[p].xopen)
     /\ rq' = [p \in (DOMAIN rq) \cup {q} |->
                IF p = q THEN [r |-> r, con |-> con, st |-> "done", xopen |-> FALSE]
                ELSE IF rq[p].r = r THEN [rq[p] EXCEPT !.st = "done", !.xopen = FALSE] ELSE rq[p]]
     /\ Step(<<sub, Ev("err", r, "", 0, "", "", 0, FALSE, "sync")>> \o DoneEvs(SetToSeq(qs), "net"))
     /\ budget' = budget - 1
     /\ UNCHANGED shut

(* a response datagram from endpoint src carrying the token of request p    *)
(* (p = 0: a token never issued); ty = "ACK" is piggy-backed on p's ID      *)
RxResp(src, p, ty) ==
  /\ budget > 0 /\ ~shut
  /\ p = 0 \/ p \in DOMAIN rq
  /\ LET match == p # 0 /\ rq[p].st = "out" /\ rq[p].r = src
         mid == IF ty = "ACK" /\ p # 0 THEN p ELSE 100 + (MaxEnv - budget)
         rx == Ev("rx", src, ty, mid, TokOf(p), "resp", IF p # 0 /\ rq[p].r = src THEN p ELSE 0, FALSE, "")
         reply == IF ty # "CON" THEN << >>
                  ELSE <<Ev("tx", src, IF match THEN "ACK" ELSE "RST", mid, "", "empty", 0, FALSE, "")>>
     IN /\ rq' = IF match THEN (IF ty = "ACK" THEN Finish({p}) ELSE Complete({p}))
                 ELSE IF ty = "ACK" /\ p # 0 /\ rq[p].r = src THEN [rq EXCEPT ![p].xopen = FALSE] ELSE rq
        /\ Step(<<rx>> \o reply \o <<RxEnd>> \o (IF match THEN DoneEvs(<<p>>, "resp") ELSE << >>))
  /\ budget' = budget - 1
  /\ UNCHANGED shut

(* an empty ACK / RST from src under the message ID of request p *)
RxEmpty(src, p, ty) ==
  /\ budget > 0 /\ ~shut /\ p \in DOMAIN rq
  /\ LET hit == rq[p].r = src /\ rq[p].xopen
         fails == hit /\ ty = "RST" /\ rq[p].st = "out"
     IN /\ rq' = IF fails THEN Finish({p}) ELSE IF hit THEN [rq EXCEPT ![p].xopen = FALSE] ELSE rq
        /\ Step(<<Ev("rx", src, ty, p, "", "empty", 0, FALSE, ""), RxEnd>> \o (IF fails THEN DoneEvs(<<p>>, "net") ELSE << >>))
  /\ budget' = budget - 1
  /\ UNCHANGED shut

Err(r) ==
  /\ budget > 0 /\ ~shut
  /\ LET qs == {q \in Out : rq[q].r = r}
     IN /\ rq' = [q \in DOMAIN rq |-> IF rq[q].r = r THEN [rq[q] EXCEPT !.st = "done", !.xopen = FALSE] ELSE rq[q]]
        /\ Step(<<Ev("err", r, "", 0, "", "", 0, FALSE, ""), RxEnd>> \o DoneEvs(SetToSeq(qs), "net"))
  /\ budget' = budget - 1
  /\ UNCHANGED shut

Shutdown ==
  /\ ~shut
  /\ shut' = TRUE
  /\ rq' = Finish(Out)
  /\ Step(<<Ev("shutdown", 0, "", 0, "", "", 0, FALSE, "")>> \o DoneEvs(SetToSeq(Out), "shutdown"))
  /\ UNCHANGED budget

Next == \/ \E r \in Remotes, con \in BOOLEAN : Submit(r, con)
        \/ \E r \in Remotes, con \in BOOLEAN : SubmitRefused(r, con)
        \/ \E src \in Remotes, p \in (DOMAIN rq) \cup {0}, ty \in {"CON", "NON", "ACK"} : RxResp(src, p, ty)
        \/ \E src \in Remotes, p \in DOMAIN rq, ty \in {"ACK", "RST"} : RxEmpty(src, p, ty)
        \/ \E r \in Remotes : Err(r)
        \/ Shutdown

Spec == Init /\ [][Next]_vars

NoBad == obs.bad = {}
\* state-based: every request the monitor regards as outstanding is in the table and vice versa
TableAgrees == \A q \in DOMAIN rq : (rq[q].st = "out") <=> (q \in Outstanding(obs))
View == <<rq, shut, budget, obs>>
=============================================================================
