---------------------------- MODULE ShutdownObs ----------------------------
(* Monitor summary and clauses of property C18: shutdown at any moment      *)
(* fails pending work and leaves nothing running.  Events (uniform records  *)
(* of harness/drive.py), x = "other" marks the second, untouched context:   *)
(*   submit(q, x)  done(q, cls)  call(inv)  release(inv)  cancelled(inv)    *)
(*   tx(x)  shutdown  shutdown-done(cls)  loopexc(x)  end                   *)
(* The second context may serve requests as well: rx(x = "other", cls =      *)
(* "req") is a request datagram it read, its handler events carry loc = "o". *)
EXTENDS Naturals, Integers, Sequences, FiniteSets

CONSTANTS ShutdownTimeout      \* SHUTDOWN_TIMEOUT (ticks)

Has(f, k) == k \in DOMAIN f
Put(f, k, v) == [x \in (DOMAIN f) \cup {k} |-> IF x = k THEN v ELSE f[x]]

ObsInit == [ rq |-> << >>,       \* q -> [other, st ("out"|"done"), late, cls, at, sub]
             hd |-> << >>,       \* inv -> "running" | "finished" | "cancelled"
             ohd |-> << >>,      \* the same for handlers of the other context
             oreq |-> << >>,     \* <<r, mid>> -> [con, tok, acked, answered]   requests the other context read
             shutAt |-> -1, retAt |-> -1, retOk |-> FALSE,
             bad |-> {} ]

Flag(o, c) == [o EXCEPT !.bad = @ \cup {c}]
FlagIf(o, cond, c) == IF cond THEN Flag(o, c) ELSE o

ErrClasses == {"shutdown", "net", "timeout", "lib"}

ObsSubmit(o, e) ==
  [o EXCEPT !.rq = Put(@, e.q, [other |-> e.x = "other", st |-> "out", cls |-> "", at |-> 0, sub |-> e.t,
                                late |-> (e.x # "other" /\ o.shutAt >= 0),
                                observing |-> (e.obs = 0), obsEnded |-> FALSE])]

ObsDone(o, e) ==
  IF ~Has(o.rq, e.q) THEN o
  ELSE LET s == o.rq[e.q]
           o1 == [o EXCEPT !.rq[e.q].st = "done", !.rq[e.q].cls = e.cls, !.rq[e.q].at = e.t]
           \* a request submitted after shutdown fails at once with the shutdown error
           o2 == FlagIf(o1, s.late /\ ~(e.cls = "shutdown" /\ e.t = s.sub), "C18_LateRequestsFailFast")
           \* whatever was pending at shutdown ends with a library error
           o3 == FlagIf(o2, ~s.other /\ ~s.late /\ o.shutAt >= 0 /\ e.cls \notin ErrClasses, "C18_AllPendingFail")
           o4 == FlagIf(o3, s.other /\ e.cls # "resp", "C18_OtherContextUnaffected")
       IN o4

\* the observation of request q ended (errback): with a library error when it is the shutdown that ends it
ObsObsEnd(o, e) ==
  IF ~Has(o.rq, e.q) THEN o
  ELSE FlagIf([o EXCEPT !.rq[e.q].obsEnded = TRUE],
              ~o.rq[e.q].other /\ o.shutAt >= 0 /\ e.cls \notin ErrClasses, "C18_AllPendingFail")

\* a request datagram read by the other context
ObsRx(o, e) ==
  IF e.x = "other" /\ e.cls = "req" /\ ~Has(o.oreq, <<e.r, e.mid>>)
    THEN [o EXCEPT !.oreq = Put(@, <<e.r, e.mid>>, [con |-> e.ty = "CON", tok |-> e.tok, acked |-> FALSE, answered |-> FALSE])]
    ELSE o

ObsCall(o, e) == IF e.loc = "o" THEN [o EXCEPT !.ohd = Put(@, e.inv, "running")]
                 ELSE [o EXCEPT !.hd = Put(@, e.inv, "running")]
\* a handler that produces its outcome after shutdown() returned was evidently still running, not cancelled
ObsRelease(o, e) ==
  IF e.loc = "o" THEN (IF Has(o.ohd, e.inv) THEN [o EXCEPT !.ohd[e.inv] = "finished"] ELSE o)
  ELSE IF Has(o.hd, e.inv)
    THEN FlagIf([o EXCEPT !.hd[e.inv] = "finished"], o.retAt >= 0 /\ o.hd[e.inv] = "running", "C18_HandlersCancelled")
    ELSE o
\* a handler of the other context must run to its end, whatever happens to the first context
ObsCancelled(o, e) ==
  IF e.loc = "o" THEN FlagIf(o, o.shutAt >= 0, "C18_OtherContextUnaffected")
  ELSE IF Has(o.hd, e.inv) THEN [o EXCEPT !.hd[e.inv] = "cancelled"] ELSE o

ObsShutdown(o, e) == [o EXCEPT !.shutAt = e.t]
ObsShutdownDone(o, e) ==
  FlagIf([o EXCEPT !.retAt = e.t, !.retOk = (e.cls = "ok")],
         e.cls # "ok" \/ e.t > o.shutAt + ShutdownTimeout, "C18_ShutdownReturns")

\* nothing is transmitted by the context once shutdown() has returned
ObsTx(o, e) ==
  IF e.x # "other" THEN FlagIf(o, o.retAt >= 0, "C18_SilentAfterReturn")
  ELSE \* the other context acknowledges and answers what it was asked
       LET key == <<e.r, e.mid>>
           o1 == IF e.ty = "ACK" /\ Has(o.oreq, key) THEN [o EXCEPT !.oreq[key].acked = TRUE] ELSE o
       IN IF e.cls = "resp"
            THEN [o1 EXCEPT !.oreq = [k \in DOMAIN @ |-> IF k[1] = e.r /\ @[k].tok = e.tok
                                                          THEN [@[k] EXCEPT !.answered = TRUE] ELSE @[k]]]
            ELSE o1

ObsLoopExc(o, e) == Flag(o, "C18_NoLoopException")

ObsEnd(o, e) ==
  IF o.shutAt < 0 THEN o
  ELSE LET o1 == FlagIf(o, o.retAt < 0, "C18_ShutdownReturns")
           o2 == FlagIf(o1, \E q \in DOMAIN o.rq : ~o.rq[q].other /\ o.rq[q].st = "out", "C18_AllPendingFail")
           o3 == FlagIf(o2, \E q \in DOMAIN o.rq : ~o.rq[q].other /\ ~o.rq[q].late /\ o.rq[q].st = "done"
                                                  /\ o.rq[q].at > o.shutAt + ShutdownTimeout /\ o.rq[q].sub <= o.shutAt,
                        "C18_AllPendingFail")
           o3b == FlagIf(o3, \E q \in DOMAIN o.rq : ~o.rq[q].other /\ ~o.rq[q].late /\ o.rq[q].observing
                                                   /\ ~o.rq[q].obsEnded, "C18_AllPendingFail")
           o4 == FlagIf(o3b, \E i \in DOMAIN o.hd : o.hd[i] = "running", "C18_HandlersCancelled")
           o5 == FlagIf(o4, \E q \in DOMAIN o.rq : o.rq[q].other /\ o.rq[q].st = "out", "C18_OtherContextUnaffected")
           \* what the other context was serving is acknowledged, answered and finished all the same
           o6 == FlagIf(o5, \/ \E k \in DOMAIN o.oreq : (o.oreq[k].con /\ ~o.oreq[k].acked) \/ ~o.oreq[k].answered
                            \/ \E i \in DOMAIN o.ohd : o.ohd[i] # "finished",
                        "C18_OtherContextUnaffected")
       IN o6

ObsEvent(o, e) ==
  CASE e.k = "submit"        -> ObsSubmit(o, e)
    [] e.k = "done"          -> ObsDone(o, e)
    [] e.k = "obsend"        -> ObsObsEnd(o, e)
    [] e.k = "rx"            -> ObsRx(o, e)
    [] e.k = "call"          -> ObsCall(o, e)
    [] e.k = "release"       -> ObsRelease(o, e)
    [] e.k = "cancelled"     -> ObsCancelled(o, e)
    [] e.k = "shutdown"      -> ObsShutdown(o, e)
    [] e.k = "shutdown-done" -> ObsShutdownDone(o, e)
    [] e.k = "tx"            -> ObsTx(o, e)
    [] e.k = "loopexc"       -> ObsLoopExc(o, e)
    [] e.k = "end"           -> ObsEnd(o, e)
    [] OTHER                 -> o

RECURSIVE ObsFold(_, _)
ObsFold(o, es) == IF es = << >> THEN o ELSE ObsFold(ObsEvent(o, Head(es)), Tail(es))
=============================================================================
